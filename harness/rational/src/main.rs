//! C07 — Rational arithmetic is exact and canonical; order and equality follow the value.
//! Form I: exhaustive enumeration of operand pairs on the REAL `rlib_rational::Rational<T>` for
//! T = i32, i64, i128, against a reference that works on the RAW inputs in i128 with its own (binary)
//! gcd.  Spaces:
//!   * box      — every (a/b, c/d) with a,b,c,d in [-B, B], b,d != 0 (quick B=8, thorough B=16);
//!   * boundary — every quadruple over a boundary set of magnitudes up to 2^30 (numerators also 0);
//!   * chains   — every ordered pair of operands u/v whose components are neighbouring Fibonacci / Lucas
//!                numbers up to 2^30 (the worst case of Euclid's algorithm: the operator results hand
//!                `norm` pairs with remainder chains of up to 84 steps, more than the bit width of i32/i64);
//!   * triples  — every ordered triple of the distinct values of the box (order laws, `clamp`, and the std
//!                adaptors built on the order — sort, sort_unstable, is_sorted, binary_search, iter max/min —
//!                on the triple as a 3-element slice);
//!   * sequences — every sequence of a few further size classes (length 2 over the box values, lengths 4–6
//!                over the values of smaller boxes) through the same adaptors;
//!   * long     — every rotation of four arrangements of ALL box values (ascending, descending, simplest-first,
//!                simplest-first twice over) through the same adaptors: slices long enough for the general
//!                (not the small-slice) sorting routines.
//! Every trait method a user reaches through an operator is called as that operator: `==` `!=` `<` `<=` `>`
//! `>=` on values and on references, `max` / `min` / `clamp` of `Ord`, next to `cmp` / `partial_cmp`.
//! Operands are always built with the real `Rational::new(a, b)` from the raw pair.  A case whose exact
//! intermediates (the cross products / sums the implementation forms on the normalised operands) do not
//! fit the integer type is outside the property's domain: skipped and counted.

use rayon::prelude::*;
use rlib_rational::{Rational, SignedInteger};
use std::cmp::Ordering;
use std::collections::hash_map::DefaultHasher;
use std::collections::BTreeSet;
use std::hash::{Hash, Hasher};
use vcore::*;

// ---------------------------------------------------------------------------------------------
// integer types under test

trait Int: SignedInteger + Copy + Hash + Send + Sync + 'static {
    const NAME: &'static str;
    const TI: usize;
    const MAXV: i128;
    fn fr(x: i128) -> Self;
    fn to(self) -> i128;
}

macro_rules! int_impl {
    ($t:ty, $n:expr, $i:expr) => {
        impl Int for $t {
            const NAME: &'static str = $n;
            const TI: usize = $i;
            const MAXV: i128 = <$t>::MAX as i128;
            fn fr(x: i128) -> Self {
                x as $t // callers guarantee |x| <= MAXV (validated for replay input)
            }
            fn to(self) -> i128 {
                self as i128
            }
        }
    };
}
int_impl!(i32, "i32", 0);
int_impl!(i64, "i64", 1);
int_impl!(i128, "i128", 2);
const TYPE_NAMES: [&str; 3] = ["i32", "i64", "i128"];

// ---------------------------------------------------------------------------------------------
// reference (i128, raw inputs, independent binary gcd)

fn bgcd(mut a: u128, mut b: u128) -> u128 {
    if a == 0 {
        return b;
    }
    if b == 0 {
        return a;
    }
    let sh = (a | b).trailing_zeros();
    a >>= a.trailing_zeros();
    loop {
        b >>= b.trailing_zeros();
        if a > b {
            std::mem::swap(&mut a, &mut b);
        }
        b -= a;
        if b == 0 {
            return a << sh;
        }
    }
}

fn euclid(mut a: u128, mut b: u128) -> u128 {
    while b != 0 {
        let t = a % b;
        a = b;
        b = t;
    }
    a
}

/// Number of iterations of the plain remainder loop `while b != 0 { a %= b; swap(a, b) }` started at
/// (|a|, |b|): the length of the Euclidean chain a gcd routine has to walk for this pair.
fn euclid_steps(a: i128, b: i128) -> u32 {
    let (a, b) = (a.unsigned_abs(), b.unsigned_abs());
    let mut n = 0;
    if a <= u64::MAX as u128 && b <= u64::MAX as u128 {
        let (mut a, mut b) = (a as u64, b as u64);
        while b != 0 {
            (a, b) = (b, a % b);
            n += 1;
        }
    } else {
        let (mut a, mut b) = (a, b);
        while b != 0 {
            (a, b) = (b, a % b);
            n += 1;
        }
    }
    n
}

fn g(a: i128, b: i128) -> i128 {
    bgcd(a.unsigned_abs(), b.unsigned_abs()) as i128
}

/// n/d (d != 0) in lowest terms with a positive denominator.
fn reduce(n: i128, d: i128) -> (i128, i128) {
    let k = g(n, d);
    let (n, d) = (n / k, d / k);
    if d < 0 {
        (-n, -d)
    } else {
        (n, d)
    }
}

fn floor_ref(a: i128, b: i128) -> i128 {
    let (n, d) = (a * b.signum(), b.abs());
    n.div_euclid(d)
}

fn ceil_ref(a: i128, b: i128) -> i128 {
    let (n, d) = (a * b.signum(), b.abs());
    -((-n).div_euclid(d))
}

/// numeric order of a/b versus c/d, computed with positive denominators
fn cmp_ref(a: i128, b: i128, c: i128, d: i128) -> Ordering {
    let (a, b) = (a * b.signum(), b.abs());
    let (c, d) = (c * d.signum(), d.abs());
    (a * d).cmp(&(c * b))
}

fn oname(o: Ordering) -> &'static str {
    match o {
        Ordering::Less => "Less",
        Ordering::Equal => "Equal",
        Ordering::Greater => "Greater",
    }
}

// ---------------------------------------------------------------------------------------------
// check families

#[derive(Clone, Copy, PartialEq, Eq, Debug)]
enum Op {
    Add,
    Sub,
    Mul,
    Div,
}
#[derive(Clone, Copy, PartialEq, Eq, Debug)]
enum Form {
    Val,
    Ref,
    AssignRef,
    Assign,
}
/// the four ordering operators (each a separately overridable method of `PartialOrd`)
#[derive(Clone, Copy, PartialEq, Eq, Debug)]
enum Rel {
    Lt,
    Le,
    Gt,
    Ge,
}
/// std adaptors over a slice / iterator of rationals that are built on the order of the elements
#[derive(Clone, Copy, PartialEq, Eq, Debug)]
enum SeqOp {
    Sort,
    SortUnstable,
    IsSorted,
    BinarySearch,
    IterMax,
    IterMin,
}
#[derive(Clone, Copy, PartialEq, Eq, Debug)]
enum Fam {
    New,
    NewInt,
    Neg,
    Floor,
    Ceil,
    Display,
    Arith(Op, Form),
    Eq,
    Hash,
    Cmp,
    PartialCmp,
    Antisym,
    Trans,
    Rel(Rel),
    Max,
    Min,
    Clamp,
    Seq(SeqOp),
}

const NFAM: usize = 41;
const RELS: [Rel; 4] = [Rel::Lt, Rel::Le, Rel::Gt, Rel::Ge];
const SEQ_OPS: [SeqOp; 6] = [SeqOp::Sort, SeqOp::SortUnstable, SeqOp::IsSorted, SeqOp::BinarySearch, SeqOp::IterMax, SeqOp::IterMin];
/// longest sequence accepted from a replay file
const MAX_SEQ_LEN: usize = 4096;
const OPS: [Op; 4] = [Op::Add, Op::Sub, Op::Mul, Op::Div];
const FORMS: [Form; 4] = [Form::Val, Form::Ref, Form::AssignRef, Form::Assign];

impl Op {
    fn name(self) -> &'static str {
        ["add", "sub", "mul", "div"][self as usize]
    }
    fn sym(self) -> &'static str {
        ["+", "-", "*", "/"][self as usize]
    }
}
impl Rel {
    fn name(self) -> &'static str {
        ["lt", "le", "gt", "ge"][self as usize]
    }
    fn sym(self) -> &'static str {
        ["<", "<=", ">", ">="][self as usize]
    }
    /// what the operator must answer when the numeric order of the operands is `o`
    fn holds(self, o: Ordering) -> bool {
        match self {
            Rel::Lt => o == Ordering::Less,
            Rel::Le => o != Ordering::Greater,
            Rel::Gt => o == Ordering::Greater,
            Rel::Ge => o != Ordering::Less,
        }
    }
}
impl SeqOp {
    fn name(self) -> &'static str {
        ["sort", "sort_unstable", "is_sorted", "binary_search", "iter_max", "iter_min"][self as usize]
    }
}
impl Form {
    fn suffix(self) -> &'static str {
        ["", "_ref", "_assign_ref", "_assign"][self as usize]
    }
    fn describe(self, op: Op) -> String {
        let s = op.sym();
        match self {
            Form::Val => format!("x {s} y"),
            Form::Ref => format!("x {s} &y"),
            Form::AssignRef => format!("x {s}= &y"),
            Form::Assign => format!("x {s}= y"),
        }
    }
}

impl Fam {
    fn idx(self) -> usize {
        match self {
            Fam::New => 0,
            Fam::NewInt => 1,
            Fam::Neg => 2,
            Fam::Floor => 3,
            Fam::Ceil => 4,
            Fam::Display => 5,
            Fam::Arith(op, form) => 6 + (op as usize) * 4 + form as usize,
            Fam::Eq => 22,
            Fam::Hash => 23,
            Fam::Cmp => 24,
            Fam::PartialCmp => 25,
            Fam::Antisym => 26,
            Fam::Trans => 27,
            Fam::Rel(r) => 28 + r as usize,
            Fam::Max => 32,
            Fam::Min => 33,
            Fam::Clamp => 34,
            Fam::Seq(op) => 35 + op as usize,
        }
    }
    fn all() -> Vec<Fam> {
        let mut v = vec![Fam::New, Fam::NewInt, Fam::Neg, Fam::Floor, Fam::Ceil, Fam::Display];
        for op in OPS {
            for f in FORMS {
                v.push(Fam::Arith(op, f));
            }
        }
        v.extend([Fam::Eq, Fam::Hash, Fam::Cmp, Fam::PartialCmp, Fam::Antisym, Fam::Trans]);
        v.extend(RELS.map(Fam::Rel));
        v.extend([Fam::Max, Fam::Min, Fam::Clamp]);
        v.extend(SEQ_OPS.map(Fam::Seq));
        v
    }
    fn name(self) -> String {
        match self {
            Fam::New => "new".into(),
            Fam::NewInt => "new_int".into(),
            Fam::Neg => "neg".into(),
            Fam::Floor => "floor".into(),
            Fam::Ceil => "ceil".into(),
            Fam::Display => "display".into(),
            Fam::Arith(op, form) => format!("{}{}", op.name(), form.suffix()),
            Fam::Eq => "eq".into(),
            Fam::Hash => "hash".into(),
            Fam::Cmp => "cmp".into(),
            Fam::PartialCmp => "partial_cmp".into(),
            Fam::Antisym => "cmp_antisymmetric".into(),
            Fam::Trans => "cmp_transitive".into(),
            Fam::Rel(r) => r.name().into(),
            Fam::Max => "max".into(),
            Fam::Min => "min".into(),
            Fam::Clamp => "clamp".into(),
            Fam::Seq(op) => op.name().into(),
        }
    }
    fn from_name(s: &str) -> Option<Fam> {
        Fam::all().into_iter().find(|f| f.name() == s)
    }
    /// is `n` a possible number of raw integers in a case of this family
    fn arity_ok(self, n: usize) -> bool {
        match self {
            Fam::NewInt => n == 1,
            Fam::New | Fam::Neg | Fam::Floor | Fam::Ceil | Fam::Display => n == 2,
            Fam::Trans | Fam::Clamp => n == 6,
            Fam::Seq(_) => n % 2 == 0 && (4..=2 * MAX_SEQ_LEN).contains(&n),
            _ => n == 4,
        }
    }
    /// families over three or more operands: counted apart from the per-operand / per-pair `evaluations`
    fn is_multi(self) -> bool {
        matches!(self, Fam::Trans | Fam::Clamp | Fam::Seq(_))
    }
}

enum Res {
    Pass,
    /// an exact intermediate of the implementation does not fit the type: outside the property's domain
    Skip,
    /// division by a zero-valued rational: outside the property's domain
    ZeroDiv,
    /// `clamp(lo, hi)` with lo > hi: std documents a panic, the property says nothing about it
    InvertedBounds,
    Fail(String),
}

fn in_range<T: Int>(vs: &[i128]) -> bool {
    vs.iter().all(|v| v.abs() <= T::MAXV)
}

fn rat<T: Int>(a: i128, b: i128) -> Rational<T> {
    Rational::new(T::fr(a), T::fr(b))
}

fn fields<T: Int>(r: &Rational<T>) -> (i128, i128) {
    (r.a.to(), r.b.to())
}

fn hash_of<T: Int>(r: &Rational<T>) -> u64 {
    let mut h = DefaultHasher::new();
    r.hash(&mut h);
    h.finish()
}

fn apply<T: Int>(op: Op, form: Form, x: Rational<T>, y: Rational<T>) -> Rational<T> {
    match form {
        Form::Val => match op {
            Op::Add => x + y,
            Op::Sub => x - y,
            Op::Mul => x * y,
            Op::Div => x / y,
        },
        Form::Ref => match op {
            Op::Add => x + &y,
            Op::Sub => x - &y,
            Op::Mul => x * &y,
            Op::Div => x / &y,
        },
        Form::AssignRef => {
            let mut z = x;
            match op {
                Op::Add => z += &y,
                Op::Sub => z -= &y,
                Op::Mul => z *= &y,
                Op::Div => z /= &y,
            }
            z
        }
        Form::Assign => {
            let mut z = x;
            match op {
                Op::Add => z += y,
                Op::Sub => z -= y,
                Op::Mul => z *= y,
                Op::Div => z /= y,
            }
            z
        }
    }
}

/// The exact values the implementation's `sub` forms on the normalised operands p/q, r/s.
fn sub_intermediates(p: i128, q: i128, r: i128, s: i128) -> [i128; 4] {
    [p * s, q * r, p * s - q * r, q * s]
}

/// Evaluate ONE family on ONE case against the real code.  Everything that touches the code under test
/// runs inside `catch`; the reference is computed outside it.
fn check_case<T: Int>(fam: Fam, c: &[i128]) -> Res {
    let ty = T::NAME;
    macro_rules! real {
        ($what:expr, $e:expr) => {
            match catch(|| $e) {
                Ok(v) => v,
                Err(m) => return Res::Fail(format!("{ty}: {}: the real code panicked: {m}", ($what)())),
            }
        };
    }
    match fam {
        Fam::New => {
            let (a, b) = (c[0], c[1]);
            let exp = reduce(a, b);
            let got = real!(|| format!("new({a}, {b})"), fields(&rat::<T>(a, b)));
            if got != exp {
                return Res::Fail(format!(
                    "{ty}: new({a}, {b}): expected {}/{} (same value, lowest terms, positive denominator), observed {}/{}",
                    exp.0, exp.1, got.0, got.1
                ));
            }
            Res::Pass
        }
        Fam::NewInt => {
            let a = c[0];
            let got = real!(|| format!("new_int({a})"), fields(&Rational::<T>::new_int(T::fr(a))));
            if got != (a, 1) {
                return Res::Fail(format!("{ty}: new_int({a}): expected {a}/1, observed {}/{}", got.0, got.1));
            }
            Res::Pass
        }
        Fam::Neg => {
            let (a, b) = (c[0], c[1]);
            let exp = reduce(-a, b);
            let got = real!(|| format!("-new({a}, {b})"), fields(&(-rat::<T>(a, b))));
            if got != exp {
                return Res::Fail(format!("{ty}: -({a}/{b}): expected {}/{}, observed {}/{}", exp.0, exp.1, got.0, got.1));
            }
            Res::Pass
        }
        Fam::Floor | Fam::Ceil => {
            let (a, b) = (c[0], c[1]);
            let (p, q) = reduce(a, b);
            let (exp, inter, nm) = if fam == Fam::Floor {
                (floor_ref(a, b), if p < 0 { vec![p - q, p - q + 1] } else { vec![] }, "floor")
            } else {
                (ceil_ref(a, b), if p >= 0 { vec![p + q, p + q - 1] } else { vec![] }, "ceil")
            };
            if !in_range::<T>(&inter) {
                return Res::Skip;
            }
            let got = real!(|| format!("new({a}, {b}).{nm}()"), {
                let x = rat::<T>(a, b);
                fields(&if fam == Fam::Floor { x.floor() } else { x.ceil() })
            });
            if got != (exp, 1) {
                return Res::Fail(format!("{ty}: ({a}/{b}).{nm}(): expected {exp}/1, observed {}/{}", got.0, got.1));
            }
            Res::Pass
        }
        Fam::Display => {
            let (a, b) = (c[0], c[1]);
            let (p, q) = reduce(a, b);
            let exp = format!("{p}/{q}");
            let got = real!(|| format!("format!(\"{{}}\", new({a}, {b}))"), format!("{}", rat::<T>(a, b)));
            if got != exp {
                return Res::Fail(format!("{ty}: Display of new({a}, {b}): expected \"{exp}\", observed \"{got}\""));
            }
            Res::Pass
        }
        Fam::Arith(op, form) => {
            let (a, b, cc, d) = (c[0], c[1], c[2], c[3]);
            let (p, q) = reduce(a, b);
            let (r, s) = reduce(cc, d);
            let (inter, en, ed): ([i128; 4], i128, i128) = match op {
                Op::Add => ([p * s, q * r, p * s + q * r, q * s], a * d + cc * b, b * d),
                Op::Sub => (sub_intermediates(p, q, r, s), a * d - cc * b, b * d),
                Op::Mul => ([p * r, q * s, 0, 0], a * cc, b * d),
                Op::Div => {
                    if cc == 0 {
                        return Res::ZeroDiv;
                    }
                    ([p * s, q * r, 0, 0], a * d, b * cc)
                }
            };
            if !in_range::<T>(&inter) {
                return Res::Skip;
            }
            let exp = reduce(en, ed);
            let what = || format!("x = new({a}, {b}), y = new({cc}, {d}), {}", form.describe(op));
            let got = real!(what, fields(&apply(op, form, rat::<T>(a, b), rat::<T>(cc, d))));
            if got != exp {
                return Res::Fail(format!(
                    "{ty}: {}: expected {}/{} (exact, lowest terms, positive denominator), observed {}/{}",
                    what(), exp.0, exp.1, got.0, got.1
                ));
            }
            Res::Pass
        }
        Fam::Eq => {
            let (a, b, cc, d) = (c[0], c[1], c[2], c[3]);
            let exp = a * d == cc * b;
            let what = || format!("new({a}, {b}) == new({cc}, {d})");
            let (eq, ne, eq_ref, ne_ref) = real!(what, {
                let (x, y) = (rat::<T>(a, b), rat::<T>(cc, d));
                (x == y, x != y, &x == &y, &x != &y)
            });
            if eq != exp || ne == exp || eq_ref != exp || ne_ref == exp {
                let what = what();
                return Res::Fail(format!(
                    "{ty}: {what}: numerically {exp} (cross products {} vs {}), observed x == y {eq}, x != y {ne}, &x == &y {eq_ref}, &x != &y {ne_ref}",
                    a * d,
                    cc * b
                ));
            }
            Res::Pass
        }
        Fam::Hash => {
            let (a, b, cc, d) = (c[0], c[1], c[2], c[3]);
            if a * d != cc * b {
                return Res::Pass; // nothing is demanded of the hashes of different values
            }
            let what = || format!("hash(new({a}, {b})) vs hash(new({cc}, {d}))");
            let (h1, h2) = real!(what, (hash_of(&rat::<T>(a, b)), hash_of(&rat::<T>(cc, d))));
            if h1 != h2 {
                let what = what();
                return Res::Fail(format!("{ty}: {what}: the values are numerically equal but hash to {h1:#x} and {h2:#x}"));
            }
            Res::Pass
        }
        Fam::Cmp | Fam::PartialCmp | Fam::Antisym => {
            let (a, b, cc, d) = (c[0], c[1], c[2], c[3]);
            let (p, q) = reduce(a, b);
            let (r, s) = reduce(cc, d);
            if !in_range::<T>(&sub_intermediates(p, q, r, s)) {
                return Res::Skip;
            }
            let exp = cmp_ref(a, b, cc, d);
            match fam {
                Fam::Cmp => {
                    let what = || format!("new({a}, {b}).cmp(&new({cc}, {d}))");
                    let got = real!(what, rat::<T>(a, b).cmp(&rat::<T>(cc, d)));
                    if got != exp {
                        let what = what();
                return Res::Fail(format!("{ty}: {what}: expected {} (sign of a*d - c*b with positive denominators), observed {}", oname(exp), oname(got)));
                    }
                }
                Fam::PartialCmp => {
                    let what = || format!("new({a}, {b}).partial_cmp(&new({cc}, {d}))");
                    let got = real!(what, rat::<T>(a, b).partial_cmp(&rat::<T>(cc, d)));
                    if got != Some(exp) {
                        let what = what();
                return Res::Fail(format!("{ty}: {what}: expected Some({}), observed {:?}", oname(exp), got));
                    }
                }
                _ => {
                    let what = || format!("x = new({a}, {b}), y = new({cc}, {d}), x.cmp(&y) vs y.cmp(&x)");
                    let (xy, yx) = real!(what, {
                        let (x, y) = (rat::<T>(a, b), rat::<T>(cc, d));
                        (x.cmp(&y), y.cmp(&x))
                    });
                    if xy != yx.reverse() {
                        let what = what();
                return Res::Fail(format!("{ty}: {what}: observed {} and {}, which are not mirror images", oname(xy), oname(yx)));
                    }
                }
            }
            Res::Pass
        }
        Fam::Rel(rel) => {
            let (a, b, cc, d) = (c[0], c[1], c[2], c[3]);
            let (p, q) = reduce(a, b);
            let (r, s) = reduce(cc, d);
            if !in_range::<T>(&sub_intermediates(p, q, r, s)) {
                return Res::Skip;
            }
            let ord = cmp_ref(a, b, cc, d);
            let exp = rel.holds(ord);
            let sym = rel.sym();
            let what = || format!("x = new({a}, {b}), y = new({cc}, {d}), x {sym} y");
            let (val, by_ref) = real!(what, {
                let (x, y) = (rat::<T>(a, b), rat::<T>(cc, d));
                match rel {
                    Rel::Lt => (x < y, &x < &y),
                    Rel::Le => (x <= y, &x <= &y),
                    Rel::Gt => (x > y, &x > &y),
                    Rel::Ge => (x >= y, &x >= &y),
                }
            });
            if val != exp || by_ref != exp {
                let what = what();
                return Res::Fail(format!(
                    "{ty}: {what}: the numeric order of x against y is {} (sign of a*d - c*b with positive denominators), so the operator must answer {exp}; observed x {sym} y = {val}, &x {sym} &y = {by_ref}",
                    oname(ord)
                ));
            }
            Res::Pass
        }
        Fam::Max | Fam::Min => {
            let (a, b, cc, d) = (c[0], c[1], c[2], c[3]);
            let (p, q) = reduce(a, b);
            let (r, s) = reduce(cc, d);
            if !in_range::<T>(&sub_intermediates(p, q, r, s)) {
                return Res::Skip;
            }
            let ord = cmp_ref(a, b, cc, d);
            // numerically equal operands are the same pair of fields, so "which of the two" cannot be observed
            let (exp, nm) = if fam == Fam::Max {
                (if ord == Ordering::Less { (r, s) } else { (p, q) }, "max")
            } else {
                (if ord == Ordering::Greater { (r, s) } else { (p, q) }, "min")
            };
            let what = || format!("x = new({a}, {b}), y = new({cc}, {d}), x.{nm}(y)");
            let got = real!(what, {
                let (x, y) = (rat::<T>(a, b), rat::<T>(cc, d));
                if fam == Fam::Max {
                    [fields(&x.max(y)), fields(&std::cmp::max(x, y)), fields(std::cmp::max(&x, &y))]
                } else {
                    [fields(&x.min(y)), fields(&std::cmp::min(x, y)), fields(std::cmp::min(&x, &y))]
                }
            });
            if got.iter().any(|g| *g != exp) {
                let what = what();
                let shown: Vec<String> = got.iter().map(|g| format!("{}/{}", g.0, g.1)).collect();
                return Res::Fail(format!(
                    "{ty}: {what}: expected {}/{} (the numerically {} operand), observed x.{nm}(y) = {}, std::cmp::{nm}(x, y) = {}, *std::cmp::{nm}(&x, &y) = {}",
                    exp.0,
                    exp.1,
                    if fam == Fam::Max { "greater" } else { "smaller" },
                    shown[0],
                    shown[1],
                    shown[2]
                ));
            }
            Res::Pass
        }
        Fam::Clamp => {
            let n = [reduce(c[0], c[1]), reduce(c[2], c[3]), reduce(c[4], c[5])];
            if !seq_in_range::<T>(&n) {
                return Res::Skip;
            }
            let ord = |i: usize, j: usize| cmp_ref(n[i].0, n[i].1, n[j].0, n[j].1);
            if ord(1, 2) == Ordering::Greater {
                return Res::InvertedBounds;
            }
            let exp = if ord(0, 1) == Ordering::Less {
                n[1]
            } else if ord(0, 2) == Ordering::Greater {
                n[2]
            } else {
                n[0]
            };
            let what = || format!("x = new({}, {}), lo = new({}, {}), hi = new({}, {}), x.clamp(lo, hi)", c[0], c[1], c[2], c[3], c[4], c[5]);
            let got = real!(what, fields(&rat::<T>(c[0], c[1]).clamp(rat::<T>(c[2], c[3]), rat::<T>(c[4], c[5]))));
            if got != exp {
                let what = what();
                return Res::Fail(format!("{ty}: {what}: lo <= hi numerically, expected {}/{}, observed {}/{}", exp.0, exp.1, got.0, got.1));
            }
            Res::Pass
        }
        Fam::Seq(op) => check_seq::<T>(op, c),
        Fam::Trans => {
            let n = [reduce(c[0], c[1]), reduce(c[2], c[3]), reduce(c[4], c[5])];
            for (i, j) in [(0, 1), (1, 2), (0, 2)] {
                if !in_range::<T>(&sub_intermediates(n[i].0, n[i].1, n[j].0, n[j].1)) {
                    return Res::Skip;
                }
            }
            let what = || format!("x = new({}, {}), y = new({}, {}), z = new({}, {})", c[0], c[1], c[2], c[3], c[4], c[5]);
            let (xy, yz, xz) = real!(what, {
                let (x, y, z) = (rat::<T>(c[0], c[1]), rat::<T>(c[2], c[3]), rat::<T>(c[4], c[5]));
                (x.cmp(&y), y.cmp(&z), x.cmp(&z))
            });
            // x <= y <= z forces x <= z, strictly if either step is strict; mirrored for >=
            let forced = |o1: Ordering, o2: Ordering, dir: Ordering| -> Option<Ordering> {
                let ok = |o: Ordering| o == dir || o == Ordering::Equal;
                if ok(o1) && ok(o2) {
                    Some(if o1 == dir || o2 == dir { dir } else { Ordering::Equal })
                } else {
                    None
                }
            };
            for dir in [Ordering::Less, Ordering::Greater] {
                if let Some(e) = forced(xy, yz, dir) {
                    if xz != e {
                        let what = what();
                        return Res::Fail(format!(
                            "{ty}: {what}: x.cmp(&y) = {}, y.cmp(&z) = {} force x.cmp(&z) = {}, observed {}",
                            oname(xy),
                            oname(yz),
                            oname(e),
                            oname(xz)
                        ));
                    }
                }
            }
            Res::Pass
        }
    }
}

/// Do the differences the implementation may form between any two of these normalised values fit the type?
fn seq_in_range<T: Int>(n: &[(i128, i128)]) -> bool {
    let m = n.iter().map(|v| v.0.abs().max(v.1)).max().unwrap_or(0);
    if 2 * m * m <= T::MAXV {
        return true;
    }
    (0..n.len()).all(|i| (i + 1..n.len()).all(|j| in_range::<T>(&sub_intermediates(n[i].0, n[i].1, n[j].0, n[j].1))))
}

fn seq_text(v: &[(i128, i128)]) -> String {
    let f = |x: &(i128, i128)| format!("{}/{}", x.0, x.1);
    if v.len() <= 8 {
        format!("[{}]", v.iter().map(f).collect::<Vec<_>>().join(", "))
    } else {
        format!("[{}, … {} more …, {}]", v[..4].iter().map(f).collect::<Vec<_>>().join(", "), v.len() - 6, v[v.len() - 2..].iter().map(f).collect::<Vec<_>>().join(", "))
    }
}

/// ONE order-based std adaptor on ONE sequence of raw operands (c = a1, b1, a2, b2, …), each built with `new`.
/// Numerically equal rationals have identical fields, so stability / choice among equals is unobservable and
/// every adaptor has exactly one right answer (binary_search: any index holding the probe).
fn check_seq<T: Int>(op: SeqOp, c: &[i128]) -> Res {
    let ty = T::NAME;
    let raw: Vec<(i128, i128)> = c.chunks(2).map(|p| (p[0], p[1])).collect();
    let n: Vec<(i128, i128)> = raw.iter().map(|&(a, b)| reduce(a, b)).collect();
    if !seq_in_range::<T>(&n) {
        return Res::Skip;
    }
    let by_value = |x: &(i128, i128), y: &(i128, i128)| cmp_ref(x.0, x.1, y.0, y.1);
    let build = |v: &[(i128, i128)]| -> Vec<Rational<T>> { v.iter().map(|&(a, b)| rat::<T>(a, b)).collect() };
    let list = |v: &[Rational<T>]| -> Vec<(i128, i128)> { v.iter().map(fields).collect() };
    let input = seq_text(&raw);
    macro_rules! real {
        ($what:expr, $e:expr) => {
            match catch(|| $e) {
                Ok(v) => v,
                Err(m) => return Res::Fail(format!("{ty}: v = {input} (each built with new), {}: the real code panicked: {m}", $what)),
            }
        };
    }
    match op {
        SeqOp::Sort | SeqOp::SortUnstable => {
            let mut exp = n.clone();
            exp.sort_by(by_value);
            let nm = if op == SeqOp::Sort { "v.sort()" } else { "v.sort_unstable()" };
            let got = real!(nm, {
                let mut v = build(&raw);
                if op == SeqOp::Sort {
                    v.sort()
                } else {
                    v.sort_unstable()
                }
                list(&v)
            });
            if got != exp {
                let at = (0..exp.len()).find(|&i| got.get(i) != Some(&exp[i])).unwrap_or(0);
                return Res::Fail(format!(
                    "{ty}: v = {input} (each built with new), {nm}: expected the values in numeric order {}, observed {} (first difference at index {at})",
                    seq_text(&exp),
                    seq_text(&got)
                ));
            }
        }
        SeqOp::IsSorted => {
            let exp = n.windows(2).all(|w| by_value(&w[0], &w[1]) != Ordering::Greater);
            let got = real!("v.is_sorted()", build(&raw).is_sorted());
            if got != exp {
                return Res::Fail(format!("{ty}: v = {input} (each built with new), v.is_sorted(): numerically {exp}, observed {got}"));
            }
        }
        SeqOp::BinarySearch => {
            let (probe, rest) = n.split_last().unwrap();
            let mut hay = rest.to_vec();
            hay.sort_by(by_value);
            let got = real!("h = all but the last in numeric order, h.binary_search(&last)", build(&hay).binary_search(&rat::<T>(probe.0, probe.1)));
            let below = hay.iter().filter(|h| by_value(h, probe) == Ordering::Less).count();
            let present = hay.contains(probe);
            let ok = match got {
                Ok(i) => i < hay.len() && hay[i] == *probe,
                Err(i) => !present && i == below,
            };
            if !ok {
                let want = if present { format!("Ok(i) with h[i] = {}/{}", probe.0, probe.1) } else { format!("Err({below})") };
                return Res::Fail(format!(
                    "{ty}: h = {} (the numeric order of all but the last of {input}, each built with new), h.binary_search(&new({}, {})): expected {want}, observed {got:?}",
                    seq_text(&hay),
                    probe.0,
                    probe.1
                ));
            }
        }
        SeqOp::IterMax | SeqOp::IterMin => {
            let mx = op == SeqOp::IterMax;
            let exp = if mx { *n.iter().max_by(|x, y| by_value(x, y)).unwrap() } else { *n.iter().min_by(|x, y| by_value(x, y)).unwrap() };
            let nm = if mx { "max" } else { "min" };
            let got = real!(format!("v.iter().{nm}() and companions"), {
                let v = build(&raw);
                if mx {
                    [v.iter().max().map(fields), v.iter().copied().max().map(|r| fields(&r)), v.iter().copied().reduce(Ord::max).map(|r| fields(&r))]
                } else {
                    [v.iter().min().map(fields), v.iter().copied().min().map(|r| fields(&r)), v.iter().copied().reduce(Ord::min).map(|r| fields(&r))]
                }
            });
            if got.iter().any(|g| *g != Some(exp)) {
                return Res::Fail(format!(
                    "{ty}: v = {input} (each built with new): the numerically {} element is {}/{}; observed v.iter().{nm}() = {:?}, v.iter().copied().{nm}() = {:?}, v.iter().copied().reduce(Ord::{nm}) = {:?}",
                    if mx { "greatest" } else { "least" },
                    exp.0,
                    exp.1,
                    got[0],
                    got[1],
                    got[2]
                ));
            }
        }
    }
    Res::Pass
}

const SINGLE_FAMS: [Fam; 5] = [Fam::New, Fam::Neg, Fam::Floor, Fam::Ceil, Fam::Display];

fn pair_fams() -> Vec<Fam> {
    let mut v = vec![];
    for op in OPS {
        for f in FORMS {
            v.push(Fam::Arith(op, f));
        }
    }
    v.extend([Fam::Eq, Fam::Hash, Fam::Cmp, Fam::PartialCmp, Fam::Antisym]);
    v.extend(RELS.map(Fam::Rel));
    v.extend([Fam::Max, Fam::Min]);
    v
}

/// the families evaluated on every sequence of three or more operands
fn seq_fams() -> Vec<Fam> {
    SEQ_OPS.map(Fam::Seq).to_vec()
}

// ---------------------------------------------------------------------------------------------
// accumulation

/// simplest-first key of a case: (largest magnitude, sum of magnitudes, number of negatives, the case, type)
type Key = (i128, i128, usize, Vec<i128>, usize);

fn key_of(c: &[i128], ti: usize) -> Key {
    (c.iter().map(|v| v.abs()).max().unwrap_or(0), c.iter().map(|v| v.abs()).sum(), c.iter().filter(|v| **v < 0).count(), c.to_vec(), ti)
}

#[derive(Clone)]
struct FailRec {
    key: Key,
    fam: Fam,
    space: &'static str,
    summary: String,
}

const NV_NAMES: [&str; 17] = [
    "new_negative_denominator_with_common_factor",
    "div_by_negative_value",
    "floor_of_negative_integer",
    "floor_of_negative_non_integer",
    "ceil_of_positive_non_integer",
    "ceil_of_negative_non_integer",
    "numerically_equal_from_different_raw_pairs",
    "cmp_less",
    "cmp_equal",
    "cmp_greater",
    "cmp_differs_from_order_of_numerators",
    "operands_share_a_factor_across_the_fractions",
    "some_operand_not_in_canonical_form",
    "add_result_needs_reduction",
    "zero_numerator_operand",
    "both_denominators_negative",
    "two_negative_values_with_different_denominators_ordered_against_their_numerators",
];

/// situations of the multi-operand families (counted on evaluated cases, from the reference)
const SEQ_NV_NAMES: [&str; 8] = [
    "sequence_not_in_numeric_order",
    "sequence_in_numeric_order",
    "sequence_with_a_repeated_value",
    "binary_search_probe_present",
    "binary_search_probe_absent",
    "clamp_raises_to_lo",
    "clamp_lowers_to_hi",
    "clamp_leaves_unchanged",
];

/// entry points whose (numerator, denominator) pair goes through `norm`, i.e. through gcd
const CHAIN_ENTRY: [&str; 5] = ["new", "add", "sub", "mul", "div"];

#[derive(Clone)]
struct Acc {
    singles: u64,
    pairs: u64,
    triples: u64,
    sequences: u64,
    evals: [u64; NFAM],
    skipped: [u64; NFAM],
    failed: [u64; NFAM],
    zero_div: u64,
    inverted: u64,
    nontrivial: u64,
    nv: [u64; 17],
    seq_nv: [u64; 8],
    /// longest sequence evaluated
    seq_max_len: usize,
    /// longest Euclidean chain of a pair handed to `norm`, by entry point (CHAIN_ENTRY), over evaluated cases
    chain_max: [u32; 5],
    /// evaluated entry-point calls whose pair has a chain longer than 32 / 64 steps
    chain_over: [u64; 2],
    first: Vec<Option<FailRec>>,
    results: BTreeSet<(i64, i64)>,
}

impl Acc {
    fn new() -> Acc {
        Acc {
            singles: 0,
            pairs: 0,
            triples: 0,
            sequences: 0,
            evals: [0; NFAM],
            skipped: [0; NFAM],
            failed: [0; NFAM],
            zero_div: 0,
            inverted: 0,
            nontrivial: 0,
            nv: [0; 17],
            seq_nv: [0; 8],
            seq_max_len: 0,
            chain_max: [0; 5],
            chain_over: [0; 2],
            first: vec![None; NFAM],
            results: BTreeSet::new(),
        }
    }
    fn offer(&mut self, f: FailRec) {
        let slot = &mut self.first[f.fam.idx()];
        if slot.as_ref().map_or(true, |o| f.key < o.key) {
            *slot = Some(f);
        }
    }
    fn merge(mut self, o: Acc) -> Acc {
        self.singles += o.singles;
        self.pairs += o.pairs;
        self.triples += o.triples;
        self.sequences += o.sequences;
        self.inverted += o.inverted;
        self.seq_max_len = self.seq_max_len.max(o.seq_max_len);
        for i in 0..self.seq_nv.len() {
            self.seq_nv[i] += o.seq_nv[i];
        }
        for i in 0..NFAM {
            self.evals[i] += o.evals[i];
            self.skipped[i] += o.skipped[i];
            self.failed[i] += o.failed[i];
        }
        self.zero_div += o.zero_div;
        self.nontrivial += o.nontrivial;
        for i in 0..self.nv.len() {
            self.nv[i] += o.nv[i];
        }
        for i in 0..self.chain_max.len() {
            self.chain_max[i] = self.chain_max[i].max(o.chain_max[i]);
        }
        for i in 0..self.chain_over.len() {
            self.chain_over[i] += o.chain_over[i];
        }
        for f in o.first.into_iter().flatten() {
            self.offer(f);
        }
        if self.results.len() < o.results.len() {
            let mut r = o.results;
            r.extend(self.results.iter().copied());
            self.results = r;
        } else {
            self.results.extend(o.results);
        }
        self
    }
    fn record<T: Int>(&mut self, fam: Fam, space: &'static str, case: &[i128], r: Res) -> bool {
        let i = fam.idx();
        match r {
            Res::Pass => {
                self.evals[i] += 1;
                true
            }
            Res::Skip => {
                self.skipped[i] += 1;
                false
            }
            Res::ZeroDiv => {
                self.zero_div += 1;
                false
            }
            Res::InvertedBounds => {
                self.inverted += 1;
                false
            }
            Res::Fail(summary) => {
                self.evals[i] += 1;
                self.failed[i] += 1;
                self.offer(FailRec { key: key_of(case, T::TI), fam, space, summary });
                true
            }
        }
    }
    /// note the chain of the pair (n, d) that entry point `entry` (index into CHAIN_ENTRY) hands to `norm`
    fn chain(&mut self, entry: usize, n: i128, d: i128) {
        let st = euclid_steps(n, d);
        self.chain_max[entry] = self.chain_max[entry].max(st);
        self.chain_over[0] += (st > 32) as u64;
        self.chain_over[1] += (st > 64) as u64;
    }
    fn total_evals(&self) -> u64 {
        self.evals.iter().sum()
    }
    fn total_skipped(&self) -> u64 {
        self.skipped.iter().sum()
    }
    fn to_json(&self) -> Value {
        let mut fams = serde_json::Map::new();
        for f in Fam::all() {
            let i = f.idx();
            if self.evals[i] + self.skipped[i] > 0 {
                fams.insert(f.name(), json!({"evaluations": self.evals[i], "skipped_out_of_domain": self.skipped[i], "mismatches": self.failed[i]}));
            }
        }
        let mut nv = serde_json::Map::new();
        for (i, n) in NV_NAMES.iter().enumerate() {
            nv.insert(n.to_string(), json!(self.nv[i]));
        }
        let mut chain = serde_json::Map::new();
        for (i, n) in CHAIN_ENTRY.iter().enumerate() {
            chain.insert(n.to_string(), json!(self.chain_max[i]));
        }
        if self.pairs == 0 {
            // a space of the multi-operand families only
            let mut snv = serde_json::Map::new();
            for (i, n) in SEQ_NV_NAMES.iter().enumerate() {
                snv.insert(n.to_string(), json!(self.seq_nv[i]));
            }
            return json!({
                "operand_triples": self.triples,
                "operand_sequences": self.sequences,
                "longest_sequence": self.seq_max_len,
                "evaluations": self.total_evals(),
                "skipped_out_of_domain": self.total_skipped(),
                "skipped_inverted_clamp_bounds": self.inverted,
                "families": Value::Object(fams),
                "situations_reached": Value::Object(snv),
            });
        }
        json!({
            "operands": self.singles,
            "operand_pairs": self.pairs,
            "operand_triples": self.triples,
            "evaluations": self.total_evals(),
            "skipped_out_of_domain": self.total_skipped(),
            "skipped_zero_divisor": self.zero_div,
            "distinct_nontrivial": self.nontrivial,
            "distinct_result_values": self.results.len(),
            "families": Value::Object(fams),
            "situations_reached": Value::Object(nv),
            "longest_euclid_chain_handed_to_norm": Value::Object(chain),
            "norm_calls_with_chain_over_32_steps": self.chain_over[0],
            "norm_calls_with_chain_over_64_steps": self.chain_over[1],
        })
    }
}

fn single<T: Int>(acc: &mut Acc, a: i128, b: i128, space: &'static str) {
    acc.singles += 1;
    let case = [a, b];
    for fam in SINGLE_FAMS {
        acc.record::<T>(fam, space, &case, check_case::<T>(fam, &case));
    }
    if b == 1 {
        acc.record::<T>(Fam::NewInt, space, &[a], check_case::<T>(Fam::NewInt, &[a]));
    }
    acc.chain(0, a, b);
    let (p, q) = reduce(a, b);
    acc.nv[0] += (b < 0 && g(a, b) > 1) as u64;
    acc.nv[2] += (p < 0 && q == 1) as u64;
    acc.nv[3] += (p < 0 && q > 1) as u64;
    acc.nv[4] += (p > 0 && q > 1) as u64;
    acc.nv[5] += (p < 0 && q > 1) as u64;
}

fn pair<T: Int>(acc: &mut Acc, fams: &[Fam], a: i128, b: i128, c: i128, d: i128, space: &'static str, collect: bool) {
    acc.pairs += 1;
    let case = [a, b, c, d];
    let numeq = a * d == c * b;
    let mut cmp_evaluated = false;
    let mut div_evaluated = false;
    for &fam in fams {
        if fam == Fam::Hash && !numeq {
            continue; // nothing demanded
        }
        let done = acc.record::<T>(fam, space, &case, check_case::<T>(fam, &case));
        if fam == Fam::Cmp {
            cmp_evaluated = done;
        }
        if fam == Fam::Arith(Op::Div, Form::Val) {
            div_evaluated = done;
        }
    }
    // situation counters, all derived from the reference
    let (p, q) = reduce(a, b);
    let (r, s) = reduce(c, d);
    let canonical = (a, b) == (p, q) && (c, d) == (r, s);
    acc.nv[1] += (div_evaluated && r < 0) as u64;
    acc.nv[6] += (numeq && (a, b) != (c, d)) as u64;
    if cmp_evaluated {
        let o = cmp_ref(a, b, c, d);
        match o {
            Ordering::Less => acc.nv[7] += 1,
            Ordering::Equal => acc.nv[8] += 1,
            Ordering::Greater => acc.nv[9] += 1,
        }
        acc.nv[10] += (o != p.cmp(&r)) as u64;
    }
    acc.nv[11] += (g(p, s) > 1 || g(q, r) > 1) as u64;
    acc.nv[12] += (!canonical) as u64;
    acc.nv[14] += (a == 0 || c == 0) as u64;
    acc.nv[15] += (b < 0 && d < 0) as u64;
    acc.nv[16] += (cmp_evaluated && p < 0 && r < 0 && q != s && p != r && p.cmp(&r) != cmp_ref(a, b, c, d)) as u64;
    // results of the four operators on the normalised operands, before the operator's own normalisation
    let raw: [(Option<(i128, i128)>, &[i128]); 4] = [
        (Some((p * s + q * r, q * s)), &[p * s, q * r, p * s + q * r, q * s]),
        (Some((p * s - q * r, q * s)), &[p * s, q * r, p * s - q * r, q * s]),
        (Some((p * r, q * s)), &[p * r, q * s]),
        (if r != 0 { Some((p * s, q * r)) } else { None }, &[p * s, q * r]),
    ];
    let mut work = false;
    for (k, (res, inter)) in raw.iter().enumerate() {
        if let Some((n, dd)) = res {
            if in_range::<T>(inter) {
                let needs = g(*n, *dd) > 1 || *dd < 0;
                work |= needs;
                acc.chain(1 + k, *n, *dd);
                if k == 0 {
                    acc.nv[13] += needs as u64;
                }
                if collect {
                    let (x, y) = reduce(*n, *dd);
                    acc.results.insert((x as i64, y as i64));
                }
            }
        }
    }
    // counted once per VALUE pair (at its canonical raw representative), so the count is of distinct cases
    if canonical && work {
        acc.nontrivial += 1;
    }
}

fn run_pairs<T: Int>(ops: &[(i128, i128)], space: &'static str, collect: bool) -> Acc {
    let fams = pair_fams();
    (0..ops.len())
        .into_par_iter()
        .fold(Acc::new, |mut acc, i| {
            let (a, b) = ops[i];
            single::<T>(&mut acc, a, b, space);
            for &(c, d) in ops {
                pair::<T>(&mut acc, &fams, a, b, c, d, space, collect);
            }
            acc
        })
        .reduce(Acc::new, Acc::merge)
}

/// every order-based adaptor on one sequence (case = a1, b1, a2, b2, …)
fn sequence<T: Int>(acc: &mut Acc, fams: &[Fam], case: &[i128], space: &'static str) {
    acc.sequences += 1;
    let mut evaluated = false;
    for &fam in fams {
        evaluated |= acc.record::<T>(fam, space, case, check_case::<T>(fam, case));
    }
    if !evaluated {
        return;
    }
    let n: Vec<(i128, i128)> = case.chunks(2).map(|p| reduce(p[0], p[1])).collect();
    acc.seq_max_len = acc.seq_max_len.max(n.len());
    let sorted = n.windows(2).all(|w| cmp_ref(w[0].0, w[0].1, w[1].0, w[1].1) != Ordering::Greater);
    acc.seq_nv[if sorted { 1 } else { 0 }] += 1;
    let distinct: BTreeSet<&(i128, i128)> = n.iter().collect();
    acc.seq_nv[2] += (distinct.len() < n.len()) as u64;
    let (probe, rest) = n.split_last().unwrap();
    acc.seq_nv[if rest.contains(probe) { 3 } else { 4 }] += 1;
}

/// A class of short sequences: every sequence of `len` operands over `vals` (vals.len()^len of them).
struct SeqClass {
    bound: i128,
    len: usize,
    vals: Vec<(i128, i128)>,
}

fn run_seq_classes<T: Int>(classes: &[SeqClass]) -> Acc {
    let fams = seq_fams();
    let mut total = Acc::new();
    for cl in classes {
        let n = cl.vals.len();
        let count = n.pow(cl.len as u32);
        let acc = (0..count)
            .into_par_iter()
            .fold(Acc::new, |mut acc, mut idx| {
                // digits of idx in base n, most significant first: enumeration order is lexicographic in `vals`
                let mut case = vec![0i128; 2 * cl.len];
                for k in (0..cl.len).rev() {
                    let v = cl.vals[idx % n];
                    idx /= n;
                    case[2 * k] = v.0;
                    case[2 * k + 1] = v.1;
                }
                sequence::<T>(&mut acc, &fams, &case, "sequences");
                acc
            })
            .reduce(Acc::new, Acc::merge);
        total = total.merge(acc);
    }
    total
}

fn run_long<T: Int>(seqs: &[Vec<i128>]) -> Acc {
    let fams = seq_fams();
    seqs.par_iter()
        .fold(Acc::new, |mut acc, case| {
            sequence::<T>(&mut acc, &fams, case, "long");
            acc
        })
        .reduce(Acc::new, Acc::merge)
}

/// Every rotation of four arrangements of all the values: ascending, descending, simplest-first (the order of
/// `vals`, numerically scrambled), and simplest-first twice over (every value repeated far apart).
fn long_sequences(vals: &[(i128, i128)]) -> Vec<Vec<i128>> {
    let mut asc = vals.to_vec();
    asc.sort_by(|x, y| cmp_ref(x.0, x.1, y.0, y.1));
    let desc: Vec<(i128, i128)> = asc.iter().rev().copied().collect();
    let twice: Vec<(i128, i128)> = vals.iter().chain(vals.iter()).copied().collect();
    let mut out = vec![];
    for base in [asc, desc, vals.to_vec(), twice] {
        for r in 0..vals.len() {
            out.push(base[r..].iter().chain(base[..r].iter()).flat_map(|&(a, b)| [a, b]).collect());
        }
    }
    out
}

fn run_triples<T: Int>(vals: &[(i128, i128)]) -> Acc {
    let fams = seq_fams();
    (0..vals.len())
        .into_par_iter()
        .fold(Acc::new, |mut acc, i| {
            let x = vals[i];
            for &y in vals {
                for &z in vals {
                    acc.triples += 1;
                    let case = [x.0, x.1, y.0, y.1, z.0, z.1];
                    acc.record::<T>(Fam::Trans, "triples", &case, check_case::<T>(Fam::Trans, &case));
                    if acc.record::<T>(Fam::Clamp, "triples", &case, check_case::<T>(Fam::Clamp, &case)) {
                        let k = if cmp_ref(x.0, x.1, y.0, y.1) == Ordering::Less {
                            5
                        } else if cmp_ref(x.0, x.1, z.0, z.1) == Ordering::Greater {
                            6
                        } else {
                            7
                        };
                        acc.seq_nv[k] += 1;
                    }
                    sequence::<T>(&mut acc, &fams, &case, "triples");
                }
            }
            acc
        })
        .reduce(Acc::new, Acc::merge)
}

// ---------------------------------------------------------------------------------------------
// spaces

/// 1, -1, 2, -2, … (simplest first); with `zero` a leading 0
fn signed(mags: &[i128], zero: bool) -> Vec<i128> {
    let mut v = vec![];
    if zero {
        v.push(0);
    }
    for &m in mags {
        v.push(m);
        v.push(-m);
    }
    v
}

fn operands(mags: &[i128]) -> Vec<(i128, i128)> {
    let nums = signed(mags, true);
    let dens = signed(mags, false);
    let mut v = vec![];
    for &a in &nums {
        for &b in &dens {
            v.push((a, b));
        }
    }
    v.sort_by_key(|&(a, b)| key_of(&[a, b], 0));
    v
}

const BOUNDARY: [i128; 12] = [1, 2, 3, (1 << 15) - 1, 1 << 15, 46337, 46340, 46341, (1 << 16) - 1, 1 << 16, (1 << 30) - 1, 1 << 30];

const LIMIT: i128 = 1 << 30;

/// F(0..) = 0, 1, 1, 2, … and L(0..) = 2, 1, 3, 4, … up to LIMIT
fn fib_lucas() -> [Vec<i128>; 2] {
    let grow = |x0: i128, x1: i128| {
        let mut v = vec![x0, x1];
        while v[v.len() - 1] + v[v.len() - 2] <= LIMIT {
            v.push(v[v.len() - 1] + v[v.len() - 2]);
        }
        v
    };
    [grow(0, 1), grow(2, 1)]
}

/// Operands with long Euclidean chains: every raw pair (±s·u, t·v) with u in {F(i), L(i)}, v in {F(j), L(j)},
/// i, j >= 1, |i - j| <= 1 (not the same element twice), (s, t) in `scales`, both components <= 2^30.
/// Denominators are positive here: the sign of the denominator is the business of box and boundary.
fn chain_operands(scales: &[(i128, i128)]) -> Vec<(i128, i128)> {
    let seqs = fib_lucas();
    let mut set = BTreeSet::new();
    for (x, xs) in seqs.iter().enumerate() {
        for (y, ys) in seqs.iter().enumerate() {
            for i in 1..xs.len() {
                for j in i.saturating_sub(1).max(1)..=(i + 1).min(ys.len() - 1) {
                    if x == y && i == j {
                        continue;
                    }
                    for &(s, t) in scales {
                        let (n, d) = (s * xs[i], t * ys[j]);
                        if n <= LIMIT && d <= LIMIT {
                            set.insert((n, d));
                            set.insert((-n, d));
                        }
                    }
                }
            }
        }
    }
    let mut v: Vec<(i128, i128)> = set.into_iter().collect();
    v.sort_by_key(|&(a, b)| key_of(&[a, b], 0));
    v
}

fn case_text(c: &[i128]) -> String {
    if c.len() == 1 {
        return c[0].to_string();
    }
    let frac = |p: &[i128]| format!("{}/{}", p[0], p[1]);
    if c.len() > 16 {
        // a long sequence: its first elements, its length and a checksum of all of it
        let bytes: Vec<u8> = c.iter().flat_map(|v| v.to_le_bytes()).collect();
        return format!("{},…(n={},fnv={:016x})", c[..8].chunks(2).map(frac).collect::<Vec<_>>().join(","), c.len() / 2, fnv(&bytes));
    }
    c.chunks(2).map(frac).collect::<Vec<_>>().join(",")
}

fn dispatch(ty: &str, fam: Fam, case: &[i128]) -> Option<Res> {
    Some(match ty {
        "i32" => check_case::<i32>(fam, case),
        "i64" => check_case::<i64>(fam, case),
        "i128" => check_case::<i128>(fam, case),
        _ => return None,
    })
}

fn confirm(v: &Value) -> Result<(), String> {
    let bad = |m: &str| -> ! {
        eprintln!("malformed replay for engine rational: {m}");
        std::process::exit(2)
    };
    let fam = v["family"].as_str().and_then(Fam::from_name).unwrap_or_else(|| bad("unknown family"));
    let ty = v["type"].as_str().unwrap_or_else(|| bad("missing type"));
    let case: Vec<i128> = match v["case"].as_array() {
        Some(a) => a.iter().map(|x| x.as_i64().unwrap_or_else(|| bad("case entries must be integers")) as i128).collect(),
        None => bad("missing case"),
    };
    if !fam.arity_ok(case.len()) {
        bad("wrong number of integers for this family");
    }
    if case.iter().any(|x| x.abs() > LIMIT) || case.iter().skip(1).step_by(2).any(|&d| d == 0) {
        bad("case outside the engine's input space (|value| <= 2^30, denominators non-zero)");
    }
    match dispatch(ty, fam, &case) {
        None => bad("unknown type"),
        Some(Res::Fail(s)) => Err(s),
        Some(_) => Ok(()),
    }
}

/// One fully written-out case for the evidence file: what the real code returned.
fn sample<T: Int>(space: &str, a: i128, b: i128, c: i128, d: i128) -> Value {
    let r = catch(|| {
        let (x, y) = (rat::<T>(a, b), rat::<T>(c, d));
        let f = |r: Rational<T>| format!("{}", r);
        let (p, q) = reduce(a, b);
        let (r, s) = reduce(c, d);
        let fits = |v: &[i128]| in_range::<T>(v);
        json!({
            "x": f(x), "y": f(y),
            "x+y": if fits(&[p * s, q * r, p * s + q * r, q * s]) { json!(f(x + y)) } else { json!("skipped: intermediate exceeds the type") },
            "x-=&y": if fits(&sub_intermediates(p, q, r, s)) { let mut z = x; z -= &y; json!(f(z)) } else { json!("skipped: intermediate exceeds the type") },
            "x*&y": if fits(&[p * r, q * s]) { json!(f(x * &y)) } else { json!("skipped: intermediate exceeds the type") },
            "x/y": if r == 0 { json!("skipped: zero divisor") } else if fits(&[p * s, q * r]) { json!(f(x / y)) } else { json!("skipped: intermediate exceeds the type") },
            "-x": f(-x),
            "x.cmp(&y)": if fits(&sub_intermediates(p, q, r, s)) { json!(oname(x.cmp(&y))) } else { json!("skipped: intermediate exceeds the type") },
            "x<y": if fits(&sub_intermediates(p, q, r, s)) { json!(x < y) } else { json!("skipped: intermediate exceeds the type") },
            "x>=y": if fits(&sub_intermediates(p, q, r, s)) { json!(x >= y) } else { json!("skipped: intermediate exceeds the type") },
            "x.max(y)": if fits(&sub_intermediates(p, q, r, s)) { json!(f(x.max(y))) } else { json!("skipped: intermediate exceeds the type") },
            "x==y": x == y,
            "x!=y": x != y,
            "x.floor()": f(x.floor()), "x.ceil()": f(x.ceil()),
            "hash(x)": format!("{:#018x}", hash_of(&x)),
        })
    });
    json!({"space": space, "type": T::NAME, "raw": case_text(&[a, b, c, d]), "observed": r.unwrap_or_else(|m| json!(format!("panicked: {m}")))})
}

const SPACES: [&str; 6] = ["box", "boundary", "chains", "triples", "sequences", "long"];

/// the enumerated input spaces (the same for every integer type)
struct Spaces {
    box_ops: Vec<(i128, i128)>,
    bnd_ops: Vec<(i128, i128)>,
    chn_ops: Vec<(i128, i128)>,
    /// distinct values of the box, one canonical raw pair each, simplest first
    vals: Vec<(i128, i128)>,
    classes: Vec<SeqClass>,
    long: Vec<Vec<i128>>,
}

fn run_type<T: Int>(sp: &Spaces) -> [Acc; 6] {
    [
        run_pairs::<T>(&sp.box_ops, "box", true),
        run_pairs::<T>(&sp.bnd_ops, "boundary", false),
        run_pairs::<T>(&sp.chn_ops, "chains", false),
        run_triples::<T>(&sp.vals),
        run_seq_classes::<T>(&sp.classes),
        run_long::<T>(&sp.long),
    ]
}

/// the distinct values of the box of bound `b`: lowest terms, positive denominator, simplest first
fn box_values(b: i128) -> Vec<(i128, i128)> {
    let mags: Vec<i128> = (1..=b).collect();
    operands(&mags).into_iter().filter(|&(a, b)| reduce(a, b) == (a, b)).collect()
}

/// (box bound, length) of the short sequence classes next to the triples of the full box
const SEQ_CLASSES: [(i128, usize); 3] = [(3, 4), (2, 5), (2, 6)];

fn main() {
    let args = Args::parse();
    quiet_panics();
    if args.replay.is_some() {
        Run::replay_main(&args, &confirm);
    }
    let mut run = Run::new(&args, "rational", "exploration");
    let mut bound: i128 = args.tier.pick(8, 16);
    if let Some(i) = args.extra.iter().position(|s| s == "--box") {
        match args.extra.get(i + 1).and_then(|s| s.parse::<i128>().ok()) {
            Some(n) if (1..=1024).contains(&n) => bound = n,
            _ => run.machinery_failure("--box needs an integer in 1..=1024"),
        }
    }

    // self-tests of the reference
    for a in 0..=80u128 {
        for b in 0..=80u128 {
            if bgcd(a, b) != euclid(a, b) {
                run.machinery_failure(&format!("reference gcd self-test failed at ({a},{b})"));
            }
        }
    }
    for &m in &BOUNDARY {
        for &n in &BOUNDARY {
            for (x, y) in [(m as u128, n as u128), ((m * n) as u128, (m * m) as u128), ((m * n + n) as u128, (n * n) as u128)] {
                if bgcd(x, y) != euclid(x, y) {
                    run.machinery_failure(&format!("reference gcd self-test failed at ({x},{y})"));
                }
            }
        }
    }

    // self-tests of the Fibonacci / Lucas tables and of the chain counter (Lamé: consecutive Fibonacci numbers
    // are the worst case, F(k), F(k+1) takes exactly k iterations of the plain loop)
    {
        let [f, l] = fib_lucas();
        let ok = f.len() == 45
            && l.len() == 44
            && f[44] == 701_408_733
            && l[43] == 969_323_029
            && (1..l.len()).all(|k| l[k] == f[k - 1] + f[k + 1] && g(f[k], l[k]) <= 2)
            && (2..f.len() - 1).all(|k| euclid_steps(f[k], f[k + 1]) == k as u32 && euclid_steps(f[k + 1], f[k]) == k as u32 - 1)
            && (1..=42).all(|k| euclid_steps(f[k] * l[k], f[k + 1] * l[k + 1]) == 2 * k as u32)
            && euclid_steps(0, 5) == 1
            && euclid_steps(5, 0) == 0
            && euclid_steps(-(1i128 << 100), (1i128 << 100) + 1) == 3;
        if !ok {
            run.machinery_failure("Fibonacci/Lucas table or Euclidean chain counter self-test failed");
        }
    }

    let mags: Vec<i128> = (1..=bound).collect();
    let box_ops = operands(&mags);
    let bnd_ops = operands(&BOUNDARY);
    let scales: &[(i128, i128)] = args.tier.pick(&[(1, 1)][..], &[(1, 1), (1, 2), (2, 1)][..]);
    let chn_ops = chain_operands(scales);
    for &(a, b) in box_ops.iter().chain(bnd_ops.iter()).chain(chn_ops.iter()) {
        let (n, d) = (a * b.signum(), b.abs());
        let (f, c) = (floor_ref(a, b), ceil_ref(a, b));
        let ok = f * d <= n && n < (f + 1) * d && (c - 1) * d < n && n <= c * d;
        let (p, q) = reduce(a, b);
        if !ok || q <= 0 || g(p, q) != 1 || p * b != a * q {
            run.machinery_failure(&format!("reference floor/ceil/reduce self-test failed at {a}/{b}"));
        }
    }
    // distinct values of the box, one canonical raw representative each, simplest first
    let vals: Vec<(i128, i128)> = box_values(bound);
    {
        let set: BTreeSet<(i128, i128)> = box_ops.iter().map(|&(a, b)| reduce(a, b)).collect();
        if set.len() != vals.len() || vals.iter().any(|v| !set.contains(v)) {
            run.machinery_failure("distinct-value list of the box is inconsistent");
        }
    }
    // short sequence classes: length 2 over all box values, longer ones over the values of smaller boxes
    let mut classes = vec![SeqClass { bound, len: 2, vals: vals.clone() }];
    for (b, len) in SEQ_CLASSES {
        let b = b.min(bound);
        classes.push(SeqClass { bound: b, len, vals: box_values(b) });
    }
    let long = long_sequences(&vals);
    if long.iter().any(|c| c.len() / 2 > MAX_SEQ_LEN) {
        run.machinery_failure("a long sequence exceeds the length a replay file may carry");
    }
    let sp = Spaces { box_ops, bnd_ops, chn_ops, vals, classes, long };
    let Spaces { box_ops, bnd_ops, chn_ops, vals, classes, long } = &sp;

    let accs: [[Acc; 6]; 3] = [run_type::<i32>(&sp), run_type::<i64>(&sp), run_type::<i128>(&sp)];

    // hash spread over the distinct values of the box (coverage only; nothing is demanded of it)
    let hashes: BTreeSet<u64> = vals.iter().filter_map(|&(a, b)| catch(|| hash_of(&rat::<i64>(a, b))).ok()).collect();

    // ---- evidence
    let mut total = Acc::new();
    let mut by = serde_json::Map::new();
    for (ti, per_type) in accs.iter().enumerate() {
        let mut o = serde_json::Map::new();
        for (si, acc) in per_type.iter().enumerate() {
            o.insert(SPACES[si].to_string(), acc.to_json());
            let mut a = acc.clone();
            a.results.clear();
            total = total.merge(a);
        }
        by.insert(TYPE_NAMES[ti].to_string(), Value::Object(o));
    }
    let multi_evals: u64 = Fam::all().into_iter().filter(|f| f.is_multi()).map(|f| total.evals[f.idx()]).sum();
    let pair_evals: u64 = total.total_evals() - multi_evals;
    run.cov("evaluations", pair_evals);
    run.cov("order_law_triples_checked", total.evals[Fam::Trans.idx()]);
    run.cov("multi_operand_evaluations", multi_evals - total.evals[Fam::Trans.idx()]);
    run.cov("skipped_inverted_clamp_bounds", total.inverted);
    run.cov(
        "sequence_classes",
        classes.iter().map(|c| json!({"box_bound": c.bound as i64, "length": c.len, "values": c.vals.len(), "sequences_per_type": (c.vals.len() as u64).pow(c.len as u32)})).collect::<Vec<Value>>(),
    );
    run.cov("long_sequences_per_type", long.len() as u64);
    run.cov("long_sequence_lengths", long.iter().map(|c| c.len() / 2).collect::<BTreeSet<usize>>().into_iter().collect::<Vec<usize>>());
    run.cov("distinct_nontrivial", total.nontrivial);
    run.cov("skipped_out_of_domain", total.total_skipped());
    run.cov("skipped_zero_divisor", total.zero_div);
    run.cov("exhaustive", true);
    run.cov("box_bound", bound as i64);
    run.cov("box_operands_per_type", box_ops.len() as u64);
    run.cov("box_distinct_values", vals.len() as u64);
    run.cov("box_distinct_hashes_of_distinct_values", hashes.len() as u64);
    run.cov("boundary_magnitudes", BOUNDARY.iter().map(|&m| m as i64).collect::<Vec<i64>>());
    run.cov("boundary_operands_per_type", bnd_ops.len() as u64);
    run.cov("chain_operands_per_type", chn_ops.len() as u64);
    run.cov("chain_scales", scales.iter().map(|&(s, t)| format!("{s}/{t}")).collect::<Vec<String>>());
    {
        let mut o = serde_json::Map::new();
        for (ti, per_type) in accs.iter().enumerate() {
            o.insert(TYPE_NAMES[ti].to_string(), json!(per_type[2].chain_max.iter().max()));
        }
        run.cov("max_euclid_steps_by_type", Value::Object(o));
    }
    let mut famtot = serde_json::Map::new();
    for f in Fam::all() {
        famtot.insert(f.name(), json!(total.evals[f.idx()]));
    }
    run.cov("evaluations_by_family", Value::Object(famtot));
    run.cov("by_type_and_space", Value::Object(by));
    run.cov(
        "rule",
        format!(
            "for each of i32, i64, i128: (box) every ordered pair of operands new(a,b), new(c,d) with a,b,c,d in [-{bound},{bound}], b,d != 0; (boundary) every ordered pair of operands \
             with numerators in {{0}} u +-S and denominators in +-S, S = boundary_magnitudes; (chains) every ordered pair of operands new(+-s*u, t*v) with u in {{F(i), L(i)}}, v in {{F(j), L(j)}}              (Fibonacci and Lucas numbers, i, j >= 1, |i - j| <= 1, u and v not the same element), (s,t) in chain_scales, both components <= 2^30 -- neighbouring Fibonacci/Lucas numbers are the worst              case of Euclid's algorithm, and sums/products of such fractions (F(k)/F(k+1) * L(k)/L(k+1) = F(2k)/F(2k+2)) hand norm pairs whose remainder chain is far longer than for box or boundary              operands: longest_euclid_chain_handed_to_norm (counted by the reference with the plain remainder loop on the exact un-normalised result) must exceed the bit width of i32 and of i64              through each of new(i32 only) + - * /, checked at run time; (triples) every ordered triple of the {n} distinct values of the box, each built by new from its \
             lowest-terms positive-denominator raw pair (cmp reads only the two fields, so other raw spellings of the same value are the same object); (sequences) every sequence of the \
             classes in sequence_classes (length 2 over the box values; lengths 4, 5, 6 over the distinct values of the boxes with bound 3, 2, 2); (long) every rotation of four arrangements of all \
             the box values -- ascending, descending, simplest-first, simplest-first twice over (length 2*{n}) -- i.e. slices beyond the small-slice paths of std's sorts. \
             Per operand: new, neg, floor, ceil, Display \
             (new_int when b = 1); per pair: + - * / each as `x op y`, `x op &y`, `x op= &y`, `x op= y`, ==/!= on values and on references, Hash (only when numerically equal), cmp, partial_cmp, antisymmetry, \
             and every ordering method reachable through an operator or an Ord adaptor, each against the sign of the exact cross-product difference: lt le gt ge as `x < y` and `&x < &y` (each is a \
             separately overridable method of PartialOrd, and std's sorts, is_sorted and Ord::max/min are written in terms of them, not of cmp), max and min as x.max(y), std::cmp::max(x, y), \
             std::cmp::max(&x, &y). Per triple (x, lo, hi) with lo <= hi: x.clamp(lo, hi). Per triple / sequence / long sequence v (numerically equal rationals have identical fields, so each adaptor has \
             one right answer): v.sort() and v.sort_unstable() give the reference's numeric order, v.is_sorted(), binary_search of the last element in the reference-sorted rest (Ok at an index holding it, \
             else Err(number of smaller elements)), v.iter().max() / .copied().max() / .copied().reduce(Ord::max) and the same for min. These are counted in multi_operand_evaluations, not in evaluations. \
             `evaluations` counts executions of the real code compared with the i128 reference (triples counted separately). A case is skipped (counted) when an exact intermediate the \
             implementation forms on the normalised operands (a*d, b*c, a*d+-b*c, b*d, a*c, a-b+1, a+b-1) exceeds the type's MAX in magnitude, or the divisor is 0; \
             clamp with lo > hi (std documents a panic, the property is silent) is not evaluated and counted in skipped_inverted_clamp_bounds. \
             distinct_nontrivial = number of distinct (type, value pair) cases, counted at the canonical raw pair, in which at least one in-range operator result needs real normalisation \
             (reduction by a gcd > 1 or a sign moved off the denominator)",
            n = vals.len()
        ),
    );
    run.assume("std::collections::hash_map::DefaultHasher::new() uses fixed keys, so hashes are reproducible");
    run.assume("the release profile has overflow checks off: an overflowing case would wrap silently, which is why out-of-range intermediates are computed exactly in i128 and skipped");

    // samples (VERIF_SEED only rotates which ones are printed)
    let rot = args.seed as usize;
    for k in 0..3usize {
        let i = (rot.wrapping_mul(7919) + k * 104_729 + 311) % box_ops.len();
        let j = (rot.wrapping_mul(31) + k * 1_299_709 + 97) % box_ops.len();
        let ((a, b), (c, d)) = (box_ops[i], box_ops[j]);
        run.sample(match k {
            0 => sample::<i32>("box", a, b, c, d),
            1 => sample::<i64>("box", a, b, c, d),
            _ => sample::<i128>("box", a, b, c, d),
        });
    }
    run.sample(sample::<i64>("box", -6, -4, 5, -10));
    run.sample(sample::<i64>("boundary", -(1 << 30), (1 << 30) - 1, 46337, -(1 << 15)));
    run.sample(sample::<i32>("boundary", 46340, -3, -46340, 2));
    run.sample(sample::<i32>("boundary", 46341, 1, 1, 46341));
    run.sample(sample::<i64>("chains", 267_914_296, 433_494_437, -599_074_578, 969_323_029)); // F(42)/F(43), -L(42)/L(43)
    run.sample(sample::<i32>("chains", 4181, 6765, 9349, 15127)); // F(19)/F(20), L(19)/L(20)
    {
        // one triple through the order-based adaptors, written out
        let i = (rot.wrapping_mul(13) + 29) % vals.len();
        let t = [vals[i], vals[(i + 31) % vals.len()], vals[(i + 59) % vals.len()]];
        let seen = catch(|| {
            let v: Vec<Rational<i64>> = t.iter().map(|&(a, b)| rat::<i64>(a, b)).collect();
            let show = |v: &[Rational<i64>]| v.iter().map(|r| format!("{r}")).collect::<Vec<_>>();
            let (mut s, mut u) = (v.clone(), v.clone());
            s.sort();
            u.sort_unstable();
            json!({
                "v.sort()": show(&s), "v.sort_unstable()": show(&u), "v.is_sorted()": v.is_sorted(),
                "sorted(v[..2]).binary_search(&v[2])": format!("{:?}", { let mut h = v[..2].to_vec(); h.sort(); h.binary_search(&v[2]) }),
                "v.iter().max()": v.iter().max().map(|r| format!("{r}")), "v.iter().min()": v.iter().min().map(|r| format!("{r}")),
                "v[0].clamp(min(v[1],v[2]), max(v[1],v[2]))": format!("{}", v[0].clamp(v[1].min(v[2]), v[1].max(v[2]))),
            })
        });
        run.sample(json!({"space": "triples", "type": "i64", "raw": case_text(&t.iter().flat_map(|&(a, b)| [a, b]).collect::<Vec<i128>>()), "observed": seen.unwrap_or_else(|m| json!(format!("panicked: {m}")))}));
    }

    // ---- violations: per family the simplest failing case over all types and spaces
    for f in total.first.iter().flatten() {
        let (case, ti) = (&f.key.3, f.key.4);
        let sig = format!("{}:{}:{}", f.fam.name(), TYPE_NAMES[ti], case_text(case));
        let replay = json!({"family": f.fam.name(), "type": TYPE_NAMES[ti], "space": f.space, "case": case.iter().map(|&x| x as i64).collect::<Vec<i64>>()});
        let n = total.failed[f.fam.idx()];
        let per_type: Vec<String> =
            accs.iter().enumerate().map(|(ti, a)| format!("{} {}", TYPE_NAMES[ti], a.iter().map(|x| x.failed[f.fam.idx()]).sum::<u64>())).collect();
        run.violation(Violation::new(
            sig,
            format!("{} [{} mismatching evaluations in family {} ({}); this is the simplest]", f.summary, n, f.fam.name(), per_type.join(", ")),
            replay,
        ));
    }

    // ---- non-vacuity self-checks (all on reference-derived counters, so they hold with or without violations)
    for (ti, per_type) in accs.iter().enumerate() {
        let ty = TYPE_NAMES[ti];
        let (bx, bd, ch, tr, sq, lg) = (&per_type[0], &per_type[1], &per_type[2], &per_type[3], &per_type[4], &per_type[5]);
        if bound <= 1000 && (bx.total_skipped() != 0 || tr.total_skipped() != 0 || sq.total_skipped() != 0 || lg.total_skipped() != 0) {
            run.machinery_failure(&format!("{ty}: cases of the small box were skipped as out of domain"));
        }
        if bound >= 4 {
            for (i, n) in NV_NAMES.iter().enumerate() {
                if bx.nv[i] == 0 {
                    run.machinery_failure(&format!("{ty}: the box never reached the situation `{n}`"));
                }
            }
        }
        for f in Fam::all() {
            if !f.is_multi() && bx.evals[f.idx()] == 0 {
                run.machinery_failure(&format!("{ty}: family {} was never evaluated on the box", f.name()));
            }
        }
        // every multi-operand family on every triple (clamp: on the triples with lo <= hi), every short class and
        // every long sequence, and each of their situations actually met
        let n3 = (vals.len() as u64).pow(3);
        let n_classes: u64 = classes.iter().map(|c| (c.vals.len() as u64).pow(c.len as u32)).sum();
        for op in SEQ_OPS {
            let i = Fam::Seq(op).idx();
            if tr.evals[i] != n3 || sq.evals[i] != n_classes || lg.evals[i] != long.len() as u64 {
                run.machinery_failure(&format!("{ty}: family {} was not evaluated on every triple / short sequence / long sequence", op.name()));
            }
        }
        if tr.evals[Fam::Clamp.idx()] + tr.inverted != n3 || tr.evals[Fam::Clamp.idx()] <= tr.inverted {
            run.machinery_failure(&format!("{ty}: clamp was not evaluated on every triple with lo <= hi"));
        }
        if bound >= 4 {
            for (i, n) in SEQ_NV_NAMES.iter().enumerate() {
                if tr.seq_nv[i] == 0 {
                    run.machinery_failure(&format!("{ty}: the triples never reached the situation `{n}`"));
                }
                if i < 5 && sq.seq_nv[i] == 0 {
                    run.machinery_failure(&format!("{ty}: the short sequences never reached the situation `{n}`"));
                }
            }
            // slices beyond the small-slice routines of std's sorts (at most 20 / 32 elements), both already
            // ordered and not, with and without repeated values
            if lg.seq_max_len <= 64 || lg.seq_nv[0] == 0 || lg.seq_nv[1] == 0 || lg.seq_nv[2] == 0 || lg.seq_nv[4] == 0 {
                run.machinery_failure(&format!("{ty}: the long sequences are not long or not varied enough"));
            }
        }
        if tr.evals[Fam::Trans.idx()] != (vals.len() as u64).pow(3) {
            run.machinery_failure(&format!("{ty}: not every triple of distinct values was evaluated"));
        }
        if bx.nontrivial < 2 || bx.results.len() < 10 {
            run.machinery_failure(&format!("{ty}: implausibly few non-trivial cases on the box"));
        }
        match ty {
            "i32" => {
                if bd.total_skipped() == 0 || bd.evals[Fam::Arith(Op::Mul, Form::Val).idx()] == 0 {
                    run.machinery_failure("i32: the boundary set must contain both overflowing (skipped) and in-range products");
                }
            }
            _ => {
                if bd.total_skipped() != 0 || ch.total_skipped() != 0 {
                    run.machinery_failure(&format!("{ty}: boundary or chain cases with |values| <= 2^30 were skipped as overflowing"));
                }
            }
        }
        // the chain family must really reach chains longer than one step per bit of the narrow types, through
        // every operator (and through `new` itself for i32); i128 sees the same cases as i64 (nothing skipped)
        let need: u32 = if ty == "i32" { 32 } else { 64 };
        for (i, n) in CHAIN_ENTRY.iter().enumerate() {
            if (i > 0 || ty == "i32") && ch.chain_max[i] <= need {
                run.machinery_failure(&format!("{ty}: the longest Euclidean chain reached through `{n}` on the chain family is {} steps, not more than {need}", ch.chain_max[i]));
            }
            if ch.chain_max[i] < bx.chain_max[i].max(bd.chain_max[i]) {
                run.machinery_failure(&format!("{ty}: the chain family has shorter chains through `{n}` than box/boundary"));
            }
        }
        if ty == "i32" && (ch.total_skipped() == 0 || ch.chain_over[0] == 0) || ty != "i32" && ch.chain_over[1] == 0 {
            run.machinery_failure(&format!("{ty}: chain family: expected overflow skips for i32 and evaluated calls with chains over the bit width"));
        }
    }
    run.finish(&confirm)
}
