//! C19 — Tensor indexing is a row-major bijection with per-dimension bounds checks.
//!
//! Form I (small-scope input enumeration, exhaustive): every shape of rank 1..=4 with extents 1..=E
//! (E = 4 quick, 5 thorough; the rank is a const generic, instantiated by macro), and for every shape
//! every valid multi-index and every multi-index that is out of range in exactly one dimension, run on
//! the REAL `rlib_tensor::Tensor` and compared with a reference written here (an odometer over the
//! multi-indices whose k-th element must be storage element k, cross-checked against sum idx*stride).
//!
//! Check families (one violation reported per family: the first failing case in enumeration order, which
//! is simplest-first: rank, then element count, then lexicographic shape, then lexicographic index):
//!   from_vec_valid, index_row_major, get_index, from_slice, new_writes, iter_order,
//!   index_mut_writes_one, oob_panics, ctor_rejects_zero_extent, ctor_rejects_bad_len,
//!   io_roundtrip, write_format, eq_data, eq_shape, clone, clone_from.
//!
//! Copies (families clone, clone_from): a tensor obtained through `Clone` is a tensor like any other, so the
//! property's clauses are demanded of it too: for every shape `t.clone()`, and for every ORDERED pair of
//! same-rank shapes (target, source) `target.clone_from(&source)` — targets of the same shape, of another
//! shape with the same element count, with more and with fewer elements — must report the source's dims(),
//! hold its elements row-major under iteration / Index / get_index, reject out-of-range indices, take a write
//! through IndexMut in exactly one element, compare equal to the source and survive write -> Tensor::read.
//!
//! Every family is made of small "atoms" (one plain execution of the real code + comparison); the
//! enumeration calls the atoms, and `confirm` (used by --replay and by Run::finish) calls exactly one
//! atom with the recorded parameters — no enumeration around it.

use rayon::prelude::*;
use rlib_io::{Readable, Reader, Writable, Writer};
use rlib_tensor::Tensor;
use std::collections::{BTreeMap, BTreeSet};
use std::fmt::Debug;
use vcore::*;

// ---------------------------------------------------------------------------------------------
// reference model

type E = i64;
/// distinct, non-zero, non-default element values: storage element k holds 10 + k
fn val(k: usize) -> E {
    10 + k as E
}
const SENTINEL: E = -7;
const FILL: E = -1;

fn product(dims: &[usize]) -> usize {
    dims.iter().product()
}

/// row-major strides: last dimension has stride 1
fn strides<const D: usize>(dims: &[usize; D]) -> [usize; D] {
    let mut s = [1usize; D];
    for i in (0..D - 1).rev() {
        s[i] = s[i + 1] * dims[i + 1];
    }
    s
}

/// sum idx*stride (wrapping: the out-of-range probes include usize::MAX)
fn flat<const D: usize>(idx: &[usize; D], st: &[usize; D]) -> usize {
    let mut o = 0usize;
    for i in 0..D {
        o = o.wrapping_add(idx[i].wrapping_mul(st[i]));
    }
    o
}

/// the offset the same index would have in a column-major layout (first index fastest)
fn flat_colmajor<const D: usize>(idx: &[usize; D], dims: &[usize; D]) -> usize {
    let mut o = 0usize;
    let mut sz = 1usize;
    for i in 0..D {
        o += idx[i] * sz;
        sz *= dims[i];
    }
    o
}

/// Odometer: all multi-indices of the shape, last coordinate fastest.  Does not use strides; the k-th
/// index produced is, by definition of row-major, the index of storage element k.
fn all_indices<const D: usize>(dims: &[usize; D]) -> Vec<[usize; D]> {
    let mut out = Vec::with_capacity(product(dims));
    let mut idx = [0usize; D];
    loop {
        out.push(idx);
        let mut j = D;
        loop {
            if j == 0 {
                return out;
            }
            j -= 1;
            idx[j] += 1;
            if idx[j] < dims[j] {
                break;
            }
            idx[j] = 0;
        }
    }
}

/// compact rendering `[1,2,3]` (used in signatures)
fn cd(d: &[usize]) -> String {
    let parts: Vec<String> = d.iter().map(|x| if *x == usize::MAX { "MAX".to_string() } else { x.to_string() }).collect();
    format!("[{}]", parts.join(","))
}

/// Reference text format, derived from the crate's own `output` test
/// (`[2,2,3]` of 0..12 is written as "0 1 2\n3 4 5\n\n6 7 8\n9 10 11"): elements of the last dimension
/// are joined by one space; the sub-blocks of a rank-k block (k >= 2) are joined by k-1 newlines;
/// nothing follows the last element.
fn ref_format(dims: &[usize], elems: &[Vec<u8>]) -> Vec<u8> {
    let mut out = vec![];
    if dims.len() == 1 {
        for (i, e) in elems.iter().enumerate() {
            if i > 0 {
                out.push(b' ');
            }
            out.extend_from_slice(e);
        }
    } else {
        let sub = elems.len() / dims[0];
        for i in 0..dims[0] {
            if i > 0 {
                out.extend(std::iter::repeat(b'\n').take(dims.len() - 1));
            }
            out.extend(ref_format(&dims[1..], &elems[i * sub..(i + 1) * sub]));
        }
    }
    out
}

// ---------------------------------------------------------------------------------------------
// element values for the IO round trip

const I32_VALS: &[i32] =
    &[0, 1, -1, 9, 10, -10, 99, 100, 12345, -98765, 1_000_000_007, -1_000_000_007, i32::MAX, i32::MIN, i32::MAX - 1, i32::MIN + 1];
const U64_VALS: &[u64] = &[
    0,
    1,
    9,
    10,
    4_294_967_295,
    4_294_967_296,
    1_000_000_000_000_000_000,
    9_999_999_999_999_999_999,
    10_000_000_000_000_000_000,
    1 << 63,
    u64::MAX - 1,
    u64::MAX,
];
/// 128-bit elements with every decimal digit structure a chunked renderer could get wrong: every power of ten,
/// its neighbours, a small value right above it (zeros directly below a digit-group boundary), runs of 9s,
/// sums of two distant powers, and the extremes
fn u128_vals() -> Vec<u128> {
    let mut v: Vec<u128> = vec![0, 1, u128::MAX, u128::MAX - 1, 1 << 64, (1 << 64) + 1, u64::MAX as u128];
    let mut p: u128 = 1;
    for k in 0..=38u32 {
        v.extend([p, p - 1, p + 7]);
        if k >= 9 {
            v.push(p + 1_000_000_000 / 10);
            v.push(3 * p + 100_000_007);
        }
        if k >= 19 {
            v.push(p + 10_000_000_000_000_000_000 / 10);
            v.push(p + 1_000_000_000_000_000_000);
        }
        if k < 38 {
            p *= 10;
        }
    }
    v.sort();
    v.dedup();
    v
}

fn i128_vals() -> Vec<i128> {
    let mut v: Vec<i128> = vec![i128::MAX, i128::MIN, i128::MIN + 1, -1];
    for u in u128_vals() {
        if u <= i128::MAX as u128 {
            v.push(u as i128);
            v.push(-(u as i128));
        }
    }
    v.sort();
    v.dedup();
    v
}

/// candidate tokens; the ones a whitespace-separated byte-oriented reader cannot represent are out of
/// the round trip's domain and are skipped (and counted)
const STR_CANDIDATES: &[&str] = &[
    "a",
    "Z9",
    "-",
    "-0",
    "007",
    "hello_world",
    "x,y;z",
    "[[1]]",
    "!@#$%^&*()",
    "~",
    "",
    "a b",
    "\u{e9}t\u{e9}",
    "0123456789abcdefghijklmnopqrstuvwxyzABCDEFGHIJKLMNOPQRSTUVWXYZ",
    "tab\there",
];
fn str_in_domain(s: &str) -> bool {
    !s.is_empty() && s.bytes().all(|b| b.is_ascii_graphic())
}
fn str_vals() -> Vec<String> {
    STR_CANDIDATES.iter().filter(|s| str_in_domain(s)).map(|s| s.to_string()).collect()
}
fn rotated<T: Clone>(list: &[T], n: usize, rot: usize) -> Vec<T> {
    (0..n).map(|k| list[(k + rot) % list.len()].clone()).collect()
}

// ---------------------------------------------------------------------------------------------
// atoms: one plain execution of the real code, compared with the reference

fn build<const D: usize>(dims: [usize; D]) -> Result<Tensor<E, D>, String> {
    let n = product(&dims);
    catch(|| Tensor::from_vec(dims, (0..n).map(val).collect()))
        .map_err(|p| format!("shape {}: from_vec with {n} values (= product of the extents) panicked: {p}", cd(&dims)))
}

fn atom_index<const D: usize>(t: &Tensor<E, D>, dims: &[usize; D], idx: [usize; D], off: usize) -> Result<(), String> {
    match catch(|| t[idx]) {
        Ok(v) if v == val(off) => Ok(()),
        Ok(v) => Err(format!(
            "shape {}: t[{}] read {v}, expected row-major element #{off} = {} (tensor built by from_vec of 10,11,12,…)",
            cd(dims),
            cd(&idx),
            val(off)
        )),
        Err(p) => Err(format!("shape {}: t[{}] panicked on a valid index: {p}", cd(dims), cd(&idx))),
    }
}

fn atom_get_index<const D: usize>(t: &Tensor<E, D>, dims: &[usize; D], idx: [usize; D], off: usize) -> Result<(), String> {
    match catch(|| t.get_index(idx)) {
        Ok(r) if r == off => Ok(()),
        Ok(r) => Err(format!("shape {}: get_index({}) = {r}, expected the row-major offset {off}", cd(dims), cd(&idx))),
        Err(p) => Err(format!("shape {}: get_index({}) panicked on a valid index: {p}", cd(dims), cd(&idx))),
    }
}

fn data_of<T: Clone, const D: usize>(t: &Tensor<T, D>) -> Vec<T> {
    t.iter().cloned().collect()
}

fn first_diff<T: PartialEq>(a: &[T], b: &[T]) -> usize {
    a.iter().zip(b.iter()).position(|(x, y)| x != y).unwrap_or(a.len().min(b.len()))
}

fn atom_write_one<const D: usize>(base: &Tensor<E, D>, dims: &[usize; D], idx: [usize; D], off: usize) -> Result<(), String> {
    let n = product(dims);
    let mut t = base.clone();
    catch(|| {
        t[idx] = SENTINEL;
    })
    .map_err(|p| format!("shape {}: t[{}] = x panicked on a valid index: {p}", cd(dims), cd(&idx)))?;
    let got = data_of(&t);
    let mut want: Vec<E> = (0..n).map(val).collect();
    want[off] = SENTINEL;
    if got != want {
        let changed: Vec<usize> = (0..got.len().min(n)).filter(|&k| got[k] != val(k)).collect();
        return Err(format!(
            "shape {}: t[{}] = {SENTINEL} must change exactly storage element #{off}; elements changed: {changed:?} (storage length {})",
            cd(dims),
            cd(&idx),
            got.len()
        ));
    }
    match catch(|| t[idx]) {
        Ok(v) if v == SENTINEL => Ok(()),
        other => Err(format!("shape {}: after t[{}] = {SENTINEL}, reading the same index gives {other:?}", cd(dims), cd(&idx))),
    }
}

const OOB_OPS: &[&str] = &["get_index", "index", "index_mut"];

fn atom_oob<const D: usize>(base: &Tensor<E, D>, dims: &[usize; D], op: &str, idx: [usize; D]) -> Result<(), String> {
    let n = product(dims);
    let st = strides(dims);
    let off = flat(&idx, &st);
    let alias = if off < n {
        let all = all_indices(dims);
        format!("its flattened offset {off} is inside the storage, i.e. it aliases element {}", cd(&all[off]))
    } else {
        format!("its flattened offset {off} is outside the storage of {n}")
    };
    let head = format!("shape {}: index {} is out of range in one dimension and must be rejected with a panic", cd(dims), cd(&idx));
    match op {
        "get_index" => match catch(|| base.get_index(idx)) {
            Err(_) => Ok(()),
            Ok(r) => Err(format!("{head}; get_index returned {r} ({alias})")),
        },
        "index" => match catch(|| base[idx]) {
            Err(_) => Ok(()),
            Ok(v) => Err(format!("{head}; t[idx] read {v} ({alias})")),
        },
        "index_mut" => {
            let mut t = base.clone();
            match catch(|| {
                t[idx] = SENTINEL;
            }) {
                Err(_) => Ok(()),
                Ok(()) => {
                    let got = data_of(&t);
                    let changed: Vec<usize> = (0..got.len()).filter(|&k| got[k] != val(k)).collect();
                    Err(format!("{head}; t[idx] = {SENTINEL} succeeded and overwrote storage element(s) {changed:?} ({alias})"))
                }
            }
        }
        _ => Err(format!("unknown op {op}")),
    }
}

const ZERO_OPS: &[&str] = &["new", "from_vec_empty", "from_slice_empty", "read"];

fn atom_ctor_zero<const D: usize>(op: &str, dims: [usize; D]) -> Result<(), String> {
    let r: Result<usize, String> = match op {
        "new" => catch(|| Tensor::<E, D>::new(dims, FILL).iter().count()),
        // the data length EQUALS the product (0), so only the zero-extent check can reject it
        "from_vec_empty" => catch(|| Tensor::<E, D>::from_vec(dims, Vec::new()).iter().count()),
        "from_slice_empty" => catch(|| Tensor::<E, D>::from_slice(dims, &[]).iter().count()),
        "read" => catch(|| {
            let bytes: &[u8] = b"1 2 3 4 5 6 7 8 9 10 11 12";
            let mut r = Reader::new(Box::new(bytes));
            Tensor::<E, D>::read(dims, &mut r).iter().count()
        }),
        _ => return Err(format!("unknown op {op}")),
    };
    match r {
        Err(_) => Ok(()),
        Ok(cnt) => Err(format!("{op} with shape {} (contains a zero extent) did not panic: it built a tensor of {cnt} elements", cd(&dims))),
    }
}

const LEN_OPS: &[&str] = &["from_vec", "from_slice"];

fn atom_bad_len<const D: usize>(op: &str, dims: [usize; D], len: usize) -> Result<(), String> {
    let data: Vec<E> = (0..len).map(val).collect();
    let r: Result<usize, String> = match op {
        "from_vec" => catch(|| Tensor::<E, D>::from_vec(dims, data).iter().count()),
        "from_slice" => catch(|| Tensor::<E, D>::from_slice(dims, &data).iter().count()),
        _ => return Err(format!("unknown op {op}")),
    };
    match r {
        Err(_) => Ok(()),
        Ok(cnt) => Err(format!(
            "{op} with shape {} (needs {} elements) and {len} elements did not panic: it built a tensor holding {cnt} elements",
            cd(&dims),
            product(&dims)
        )),
    }
}

/// every valid index of `t` must read `want(k)` for the k-th index; iter() must give the same sequence
fn expect_all<const D: usize>(t: &Tensor<E, D>, dims: &[usize; D], how: &str, want: &dyn Fn(usize) -> E) -> Result<(), String> {
    let n = product(dims);
    let got = data_of(t);
    let exp: Vec<E> = (0..n).map(want).collect();
    if got != exp {
        let k = first_diff(&got, &exp);
        return Err(format!(
            "shape {}: {how}: iter() gives {} elements, first difference from the row-major sequence at #{k} (got {:?}, expected {:?})",
            cd(dims),
            got.len(),
            got.get(k),
            exp.get(k)
        ));
    }
    for (k, idx) in all_indices(dims).into_iter().enumerate() {
        match catch(|| t[idx]) {
            Ok(v) if v == want(k) => {}
            other => return Err(format!("shape {}: {how}: t[{}] gives {other:?}, expected {}", cd(dims), cd(&idx), want(k))),
        }
    }
    Ok(())
}

fn atom_from_slice<const D: usize>(dims: [usize; D]) -> Result<(), String> {
    let n = product(&dims);
    let vals: Vec<E> = (0..n).map(val).collect();
    let t = catch(|| Tensor::<E, D>::from_slice(dims, &vals)).map_err(|p| format!("shape {}: from_slice with {n} values panicked: {p}", cd(&dims)))?;
    expect_all(&t, &dims, "tensor built by from_slice", &val)
}

fn build_new_writes<const D: usize>(dims: [usize; D]) -> Result<Tensor<E, D>, String> {
    let mut t = catch(|| Tensor::<E, D>::new(dims, FILL)).map_err(|p| format!("shape {}: new panicked on a valid shape: {p}", cd(&dims)))?;
    expect_all(&t, &dims, "tensor built by new(dims, -1)", &|_| FILL)?;
    // written in REVERSE index order, so the result does not depend on the order of writes
    for (k, idx) in all_indices(&dims).into_iter().enumerate().rev() {
        catch(|| {
            t[idx] = val(k);
        })
        .map_err(|p| format!("shape {}: t[{}] = x panicked on a valid index: {p}", cd(&dims), cd(&idx)))?;
    }
    Ok(t)
}

fn atom_new_writes<const D: usize>(dims: [usize; D]) -> Result<(), String> {
    let t = build_new_writes(dims)?;
    expect_all(&t, &dims, "tensor built by new + one write per index", &val)
}

const ITER_KINDS: &[&str] = &["iter", "iter_mut", "into_iter"];

fn atom_iter<const D: usize>(base: &Tensor<E, D>, dims: &[usize; D], which: &str) -> Result<(), String> {
    let n = product(dims);
    let exp: Vec<E> = (0..n).map(val).collect();
    match which {
        "iter" => {
            let got: Vec<E> = catch(|| base.iter().copied().collect()).map_err(|p| format!("iter panicked: {p}"))?;
            if got != exp {
                let k = first_diff(&got, &exp);
                return Err(format!("shape {}: iter() yields {} elements; element #{k} is {:?}, row-major order expects {:?}", cd(dims), got.len(), got.get(k), exp.get(k)));
            }
            Ok(())
        }
        "into_iter" => {
            let got: Vec<E> = catch(|| base.clone().into_iter().collect()).map_err(|p| format!("into_iter panicked: {p}"))?;
            if got != exp {
                let k = first_diff(&got, &exp);
                return Err(format!("shape {}: into_iter() yields {} elements; element #{k} is {:?}, row-major order expects {:?}", cd(dims), got.len(), got.get(k), exp.get(k)));
            }
            Ok(())
        }
        "iter_mut" => {
            let mut t = base.clone();
            let cnt = catch(|| {
                let mut c = 0usize;
                for (k, x) in t.iter_mut().enumerate() {
                    *x = 1000 + k as E;
                    c += 1;
                }
                c
            })
            .map_err(|p| format!("iter_mut panicked: {p}"))?;
            if cnt != n {
                return Err(format!("shape {}: iter_mut() visits {cnt} elements, expected {n}", cd(dims)));
            }
            expect_all(&t, dims, "after writing 1000+k through the k-th item of iter_mut()", &|k| 1000 + k as E)
        }
        _ => Err(format!("unknown iterator kind {which}")),
    }
}

fn write_one<T: Writable>(x: &T) -> Result<Vec<u8>, String> {
    let mut out: Vec<u8> = vec![];
    catch(|| {
        let mut w = Writer::new(Box::new(&mut out));
        w.write(x);
        drop(w);
    })
    .map_err(|p| format!("writing panicked: {p}"))?;
    Ok(out)
}

fn show(b: &[u8]) -> String {
    let s = String::from_utf8_lossy(b);
    if s.len() > 160 {
        format!("{:?}…", &s[..160])
    } else {
        format!("{s:?}")
    }
}

/// write with the real Writer, read back with Tensor::read and the same shape: same dims, elementwise
/// equal data, and `==` true
fn atom_io<T: Clone + PartialEq + Debug + Readable + Writable, const D: usize>(dims: [usize; D], data: &[T]) -> Result<Vec<u8>, String> {
    let t = catch(|| Tensor::<T, D>::from_vec(dims, data.to_vec())).map_err(|p| format!("shape {}: from_vec panicked: {p}", cd(&dims)))?;
    let text = write_one(&t).map_err(|m| format!("shape {}: {m}", cd(&dims)))?;
    let back = catch(|| {
        let mut r = Reader::new(Box::new(&text[..]));
        Tensor::<T, D>::read(dims, &mut r)
    })
    .map_err(|p| format!("shape {}: Tensor::read of the written text {} panicked: {p}", cd(&dims), show(&text)))?;
    if back.dims() != &dims {
        return Err(format!("shape {}: the tensor read back reports dims {}", cd(&dims), cd(back.dims())));
    }
    let got = data_of(&back);
    if got.as_slice() != data {
        let k = first_diff(&got, data);
        return Err(format!(
            "shape {}: wrote {} and read it back with the same shape: {} elements, element #{k} is {:?}, written was {:?}",
            cd(&dims),
            show(&text),
            got.len(),
            got.get(k),
            data.get(k)
        ));
    }
    for (k, idx) in all_indices(&dims).into_iter().enumerate() {
        match catch(|| back[idx].clone()) {
            Ok(v) if v == data[k] => {}
            other => return Err(format!("shape {}: tensor read back: t[{}] gives {other:?}, written was {:?}", cd(&dims), cd(&idx), data[k])),
        }
    }
    match catch(|| back == t && t == back) {
        Ok(true) => Ok(text),
        other => Err(format!("shape {}: the tensor read back has the same shape and elements but `==` gives {other:?}", cd(&dims))),
    }
}

/// the written text is exactly the documented layout of the elements' own renderings
fn atom_format<T: Clone + Writable, const D: usize>(dims: [usize; D], data: &[T]) -> Result<(), String> {
    let t = catch(|| Tensor::<T, D>::from_vec(dims, data.to_vec())).map_err(|p| format!("shape {}: from_vec panicked: {p}", cd(&dims)))?;
    let text = write_one(&t).map_err(|m| format!("shape {}: {m}", cd(&dims)))?;
    let mut elems = vec![];
    for x in data {
        elems.push(write_one(x)?);
    }
    let want = ref_format(&dims, &elems);
    if text != want {
        let k = first_diff(&text, &want);
        return Err(format!(
            "shape {}: written text is {} but the documented layout (spaces inside the last dimension, k-1 newlines between the sub-blocks of a rank-k block, nothing after the last element) is {}; first difference at byte {k}",
            cd(&dims),
            show(&text),
            show(&want)
        ));
    }
    Ok(())
}

fn io_case<const D: usize>(dims: [usize; D], ty: &str, rot: usize, format_only: bool) -> Result<Vec<u8>, String> {
    let n = product(&dims);
    match ty {
        "i32" => {
            let d = rotated(I32_VALS, n, rot);
            if format_only {
                atom_format(dims, &d).map(|_| vec![])
            } else {
                atom_io(dims, &d)
            }
        }
        "u64" => {
            let d = rotated(U64_VALS, n, rot);
            if format_only {
                atom_format(dims, &d).map(|_| vec![])
            } else {
                atom_io(dims, &d)
            }
        }
        "u128" => {
            let d = rotated(&u128_vals(), n, rot);
            if format_only {
                atom_format(dims, &d).map(|_| vec![])
            } else {
                atom_io(dims, &d)
            }
        }
        "i128" => {
            let d = rotated(&i128_vals(), n, rot);
            if format_only {
                atom_format(dims, &d).map(|_| vec![])
            } else {
                atom_io(dims, &d)
            }
        }
        "String" => {
            let d = rotated(&str_vals(), n, rot);
            if format_only {
                atom_format(dims, &d).map(|_| vec![])
            } else {
                atom_io(dims, &d)
            }
        }
        _ => Err(format!("unknown element type {ty}")),
    }
}
fn io_list_len(ty: &str) -> usize {
    match ty {
        "i32" => I32_VALS.len(),
        "u64" => U64_VALS.len(),
        "u128" => u128_vals().len(),
        "i128" => i128_vals().len(),
        _ => str_vals().len(),
    }
}
const IO_TYPES: &[&str] = &["i32", "u64", "u128", "i128", "String"];

/// equal shape and equal elements (built three different ways) must compare equal
fn atom_eq_same<const D: usize>(dims: [usize; D]) -> Result<(), String> {
    let n = product(&dims);
    let vals: Vec<E> = (0..n).map(val).collect();
    let a = build(dims)?;
    let b = catch(|| Tensor::<E, D>::from_slice(dims, &vals)).map_err(|p| format!("from_slice panicked: {p}"))?;
    let c = build_new_writes(dims)?;
    let d = a.clone();
    let r = catch(|| [a == b, b == a, a == c, c == a, a == d, !(a != b)]).map_err(|p| format!("== panicked: {p}"))?;
    if r.iter().all(|&x| x) {
        Ok(())
    } else {
        Err(format!(
            "shape {}: tensors with the same shape and the same elements must be equal; [from_vec==from_slice, from_slice==from_vec, from_vec==new+writes, new+writes==from_vec, t==t.clone(), !(a!=b)] = {r:?}",
            cd(&dims)
        ))
    }
}

/// same shape, exactly storage element k different: must compare unequal
fn atom_eq_changed<const D: usize>(dims: [usize; D], k: usize) -> Result<(), String> {
    let n = product(&dims);
    let a = build(dims)?;
    let mut v: Vec<E> = (0..n).map(val).collect();
    v[k] = SENTINEL;
    let b = catch(|| Tensor::<E, D>::from_vec(dims, v)).map_err(|p| format!("from_vec panicked: {p}"))?;
    match catch(|| (a == b, b == a)) {
        Ok((false, false)) => Ok(()),
        other => Err(format!("shape {}: two tensors that differ in storage element #{k} only: (a==b, b==a) = {other:?}, expected both false", cd(&dims))),
    }
}

/// same rank, different shape: must compare unequal (interesting when the element counts are equal and
/// the elements are the same)
fn atom_eq_shape<const D: usize>(da: [usize; D], db: [usize; D]) -> Result<(), String> {
    let a = build(da)?;
    let b = build(db)?;
    match catch(|| (a == b, b == a)) {
        Ok((false, false)) => Ok(()),
        other => Err(format!(
            "Tensor::from_vec({}, 10,11,…) and Tensor::from_vec({}, 10,11,…) have different shapes ({} and {} elements, identical element sequence where the counts agree) and must not be equal; (a==b, b==a) = {other:?}",
            cd(&da),
            cd(&db),
            product(&da),
            product(&db)
        )),
    }
}

// ---------------------------------------------------------------------------------------------
// copies: tensors obtained through Clone::clone / Clone::clone_from

/// what a clone_from target holds before the call: distinct values, none of them a source value 10+k
fn stale(k: usize) -> E {
    5000 + k as E
}

/// number of comparisons `examine_copy` makes for a copy of this shape
fn copy_evals<const D: usize>(dims: &[usize; D]) -> u64 {
    let n = product(dims);
    let oob: usize = dims.iter().map(|d| n / d).sum();
    (1 + D + 3 * n + oob + 2 + (n + 2) + (n + 1)) as u64
}

/// `c` is supposed to be an exact copy of `src` = from_vec(dims, 10,11,…).  Everything the property says of a
/// tensor of shape `dims` is demanded of it: dims()/dim(i); iter() and every valid index (Index, get_index)
/// give the row-major sequence; every index with one coordinate equal to its extent (the others over all
/// valid values) is rejected; `==` with the source both ways; write -> Tensor::read with the source's shape
/// gives a tensor equal to the source; a write through IndexMut at the last index changes exactly the last
/// storage element.
fn examine_copy<const D: usize>(mut c: Tensor<E, D>, src: &Tensor<E, D>, dims: &[usize; D], how: &str) -> Result<(), String> {
    let n = product(dims);
    match catch(|| *c.dims()) {
        Ok(d) if d == *dims => {}
        other => return Err(format!("{how}: dims() of the copy gives {other:?}, the source has shape {}", cd(dims))),
    }
    for i in 0..D {
        match catch(|| c.dim(i)) {
            Ok(d) if d == dims[i] => {}
            other => return Err(format!("{how}: dim({i}) of the copy gives {other:?}, the source has shape {}", cd(dims))),
        }
    }
    expect_all(&c, dims, how, &val)?;
    let idxs = all_indices(dims);
    for (k, idx) in idxs.iter().enumerate() {
        atom_get_index(&c, dims, *idx, k).map_err(|m| format!("{how}: {m}"))?;
    }
    for j in 0..D {
        let mut others = *dims;
        others[j] = 1;
        for r in all_indices(&others) {
            let mut idx = r;
            idx[j] = dims[j];
            if catch(|| c[idx]).is_ok() {
                // the plain atom words the failure (and says which element is aliased)
                return Err(format!("{how}: {}", atom_oob(&c, dims, "index", idx).err().unwrap_or_else(|| "an out-of-range index was accepted".into())));
            }
        }
    }
    match catch(|| (c == *src, *src == c)) {
        Ok((true, true)) => {}
        other => return Err(format!("{how}: the copy has the source's shape {} and elements, but (copy == source, source == copy) = {other:?}", cd(dims))),
    }
    let text = write_one(&c).map_err(|m| format!("{how}: writing the copy: {m}"))?;
    let back = catch(|| {
        let mut r = Reader::new(Box::new(&text[..]));
        Tensor::<E, D>::read(*dims, &mut r)
    })
    .map_err(|p| format!("{how}: Tensor::read of the text written from the copy, {}, panicked: {p}", show(&text)))?;
    let got = data_of(&back);
    if got.len() != n || got.iter().enumerate().any(|(k, x)| *x != val(k)) || !matches!(catch(|| back == *src), Ok(true)) {
        return Err(format!("{how}: the copy was written as {} and read back with shape {}: not equal to the source (elements read: {} of {n})", show(&text), cd(dims), got.len()));
    }
    let last = idxs[n - 1];
    catch(|| {
        c[last] = SENTINEL;
    })
    .map_err(|p| format!("{how}: copy[{}] = x panicked on a valid index: {p}", cd(&last)))?;
    let got = data_of(&c);
    if got.len() != n || got.iter().enumerate().any(|(k, x)| *x != if k == n - 1 { SENTINEL } else { val(k) }) {
        let changed: Vec<usize> = (0..got.len().min(n)).filter(|&k| got[k] != val(k)).collect();
        return Err(format!("{how}: copy[{}] = {SENTINEL} must change exactly storage element #{}; elements changed: {changed:?} (storage length {})", cd(&last), n - 1, got.len()));
    }
    Ok(())
}

fn atom_clone<const D: usize>(dims: [usize; D]) -> Result<(), String> {
    let src = build(dims)?;
    let how = format!("Tensor::from_vec({}, 10,11,…).clone()", cd(&dims));
    let c = catch(|| src.clone()).map_err(|p| format!("{how} panicked: {p}"))?;
    examine_copy(c, &src, &dims, &how)
}

/// `dst.clone_from(&src)`: afterwards dst must be what `src.clone()` is, whatever dst was before
fn atom_clone_from<const D: usize>(dst_dims: [usize; D], src_dims: [usize; D]) -> Result<(), String> {
    let src = build(src_dims)?;
    let nd = product(&dst_dims);
    let how = format!("dst = from_vec({}, 5000,5001,…); dst.clone_from(&from_vec({}, 10,11,…))", cd(&dst_dims), cd(&src_dims));
    let mut dst = catch(|| Tensor::<E, D>::from_vec(dst_dims, (0..nd).map(stale).collect())).map_err(|p| format!("shape {}: from_vec panicked: {p}", cd(&dst_dims)))?;
    catch(|| dst.clone_from(&src)).map_err(|p| format!("{how} panicked: {p}"))?;
    examine_copy(dst, &src, &src_dims, &how)
}

// ---------------------------------------------------------------------------------------------
// accumulator

#[derive(Default)]
struct Acc {
    n: BTreeMap<&'static str, u64>,
    firsts: Vec<(&'static str, Violation)>,
    texts: BTreeSet<u64>,
    samples: Vec<Value>,
    flags: BTreeSet<&'static str>,
}

impl Acc {
    fn add(&mut self, k: &'static str, v: u64) {
        *self.n.entry(k).or_insert(0) += v;
    }
    fn get(&self, k: &str) -> u64 {
        self.n.get(k).copied().unwrap_or(0)
    }
    fn has(&self, fam: &str) -> bool {
        self.firsts.iter().any(|(f, _)| *f == fam)
    }
    /// evaluate one atom result: count it, record the family's first failure
    fn check(&mut self, fam: &'static str, evals: u64, r: Result<(), String>, sig: impl FnOnce() -> String, replay: impl FnOnce() -> Value) {
        self.add("evaluations", evals);
        self.add(fam, 1);
        if let Err(m) = r {
            self.add("failed_cases", 1);
            if !self.has(fam) {
                let mut rp = replay();
                rp["family"] = json!(fam);
                self.firsts.push((fam, Violation::new(format!("{fam}:{}", sig()), m, rp)));
            }
        }
    }
    fn merge(&mut self, o: Acc) {
        for (k, v) in o.n {
            *self.n.entry(k).or_insert(0) += v;
        }
        for (f, v) in o.firsts {
            if !self.has(f) {
                self.firsts.push((f, v));
            }
        }
        self.texts.extend(o.texts);
        self.samples.extend(o.samples);
        self.flags.extend(o.flags);
    }
}

// ---------------------------------------------------------------------------------------------
// enumeration for one shape

fn to_arr<const D: usize>(v: &[usize]) -> [usize; D] {
    let mut a = [0usize; D];
    a.copy_from_slice(v);
    a
}

fn check_shape<const D: usize>(dv: &[usize], peers: &[Vec<usize>], me: usize) -> Acc {
    let mut acc = Acc::default();
    let dims: [usize; D] = to_arr(dv);
    let n = product(&dims);
    let st = strides(&dims);
    let idxs = all_indices(&dims);
    acc.add("shapes", 1);
    // reference self-check: odometer position == sum idx*stride, and the odometer is complete
    if idxs.len() != n || idxs.iter().enumerate().any(|(k, i)| flat(i, &st) != k) {
        acc.add("reference_selfcheck_failures", 1);
    }
    let rp = |extra: Value| -> Value {
        let mut v = json!({"rank": D, "dims": dv});
        if let (Some(o), Some(e)) = (v.as_object_mut(), extra.as_object()) {
            for (k, x) in e {
                o.insert(k.clone(), x.clone());
            }
        }
        v
    };

    // from_vec on the valid shape
    let built = build(dims);
    let base = match built {
        Ok(t) => {
            acc.check("from_vec_valid", 1, Ok(()), String::new, || json!(null));
            t
        }
        Err(m) => {
            acc.check("from_vec_valid", 1, Err(m), || cd(dv), || rp(json!({})));
            return acc;
        }
    };

    // index_row_major, get_index (value k for the k-th index => distinct indices address distinct elements)
    for (k, idx) in idxs.iter().enumerate() {
        acc.check("index_row_major", 1, atom_index(&base, &dims, *idx, k), || format!("{}:{}", cd(dv), cd(idx)), || rp(json!({"idx": idx.to_vec()})));
        acc.check("get_index", 1, atom_get_index(&base, &dims, *idx, k), || format!("{}:{}", cd(dv), cd(idx)), || rp(json!({"idx": idx.to_vec()})));
        if flat_colmajor(idx, &dims) != k {
            acc.add("valid_indices_layout_sensitive", 1);
        }
    }
    acc.add("valid_indices", n as u64);

    // other constructors, iteration
    acc.check("from_slice", 2 * n as u64 + 1, atom_from_slice(dims), || cd(dv), || rp(json!({})));
    acc.check("new_writes", 5 * n as u64 + 1, atom_new_writes(dims), || cd(dv), || rp(json!({})));
    for which in ITER_KINDS {
        let ev = if *which == "iter_mut" { 3 * n as u64 } else { n as u64 };
        acc.check("iter_order", ev, atom_iter(&base, &dims, which), || format!("{which}:{}", cd(dv)), || rp(json!({"which": which})));
    }

    // a write through IndexMut changes exactly that element
    for (k, idx) in idxs.iter().enumerate() {
        acc.check(
            "index_mut_writes_one",
            n as u64 + 2,
            atom_write_one(&base, &dims, *idx, k),
            || format!("{}:{}", cd(dv), cd(idx)),
            || rp(json!({"idx": idx.to_vec()})),
        );
    }

    // out of range in exactly one dimension
    let mut first_inside: Option<[usize; D]> = None;
    let mut first_inside_outcomes: Vec<String> = vec![];
    for j in 0..D {
        let mut others = dims;
        others[j] = 1;
        let rest = all_indices(&others);
        for bad in [dims[j], dims[j] + 1, usize::MAX] {
            for r in &rest {
                let mut idx = *r;
                idx[j] = bad;
                let inside = flat(&idx, &st) < n;
                acc.add("oob_indices", 1);
                if inside {
                    acc.add("oob_indices_flat_offset_inside_storage", 1);
                    if bad == usize::MAX {
                        acc.add("oob_indices_inside_storage_by_wraparound", 1);
                    }
                    if first_inside.is_none() {
                        first_inside = Some(idx);
                    }
                }
                for op in OOB_OPS {
                    let r = atom_oob(&base, &dims, op, idx);
                    if first_inside == Some(idx) {
                        first_inside_outcomes.push(format!("{op}: {}", if r.is_ok() { "panicked" } else { "DID NOT PANIC" }));
                    }
                    acc.check(
                        "oob_panics",
                        1,
                        r,
                        || format!("{op}:{}:{}", cd(dv), cd(&idx)),
                        || rp(json!({"op": op, "idx": idx.to_vec()})),
                    );
                    if inside {
                        acc.add("oob_panics_checked_with_offset_inside_storage", 1);
                    }
                }
            }
        }
    }

    // wrong data length
    let mut lens = vec![0usize, n - 1, n + 1];
    lens.sort();
    lens.dedup();
    lens.retain(|&l| l != n);
    for len in lens {
        for op in LEN_OPS {
            acc.check(
                "ctor_rejects_bad_len",
                1,
                atom_bad_len(op, dims, len),
                || format!("{op}:{}:len={len}", cd(dv)),
                || rp(json!({"op": op, "len": len})),
            );
        }
    }

    // IO round trip + text layout
    let mut sample_text = None;
    for ty in IO_TYPES {
        for rot in 0..io_list_len(ty) {
            let r = io_case(dims, ty, rot, false);
            if let Ok(text) = &r {
                acc.texts.insert(fnv(text));
                if text.windows(3).any(|w| w == b"\n\n\n") {
                    acc.flags.insert("text_with_three_newlines");
                }
                if text.windows(2).any(|w| w == b"\n\n") {
                    acc.flags.insert("text_with_two_newlines");
                }
                let s = String::from_utf8_lossy(text);
                if s.contains("-2147483648") {
                    acc.flags.insert("wrote_i32_min");
                }
                if s.contains("18446744073709551615") {
                    acc.flags.insert("wrote_u64_max");
                }
                if *ty == "i32" && rot == 0 {
                    sample_text = Some(show(text));
                }
            }
            acc.check(
                "io_roundtrip",
                2 * n as u64 + 3,
                r.map(|_| ()),
                || format!("{ty}:{}:rot={rot}", cd(dv)),
                || rp(json!({"ty": ty, "rot": rot})),
            );
            acc.check(
                "write_format",
                1,
                io_case(dims, ty, rot, true).map(|_| ()),
                || format!("{ty}:{}:rot={rot}", cd(dv)),
                || rp(json!({"ty": ty, "rot": rot})),
            );
        }
    }
    acc.add("skipped_out_of_domain", STR_CANDIDATES.iter().filter(|s| !str_in_domain(s)).count() as u64);

    // equality
    acc.check("eq_data", 6, atom_eq_same(dims), || format!("same:{}", cd(dv)), || rp(json!({"kind": "same"})));
    for k in 0..n {
        acc.check("eq_data", 2, atom_eq_changed(dims, k), || format!("changed:{}:#{k}", cd(dv)), || rp(json!({"kind": "changed", "k": k})));
    }
    for other in &peers[me + 1..] {
        let db: [usize; D] = to_arr(other);
        let same_count = product(&db) == n;
        acc.check("eq_shape", 2, atom_eq_shape(dims, db), || format!("{}vs{}", cd(dv), cd(other)), || rp(json!({"other": other})));
        acc.add(if same_count { "eq_shape_pairs_equal_count_equal_data" } else { "eq_shape_pairs_different_count" }, 1);
    }

    // copies: clone of this shape; clone_from of this shape INTO every shape of the same rank (itself included)
    acc.check("clone", 1 + copy_evals(&dims), atom_clone(dims), || cd(dv), || rp(json!({})));
    for target in peers {
        let dd: [usize; D] = to_arr(target);
        acc.check("clone_from", 1 + copy_evals(&dims), atom_clone_from(dd, dims), || format!("{}<-{}", cd(target), cd(dv)), || rp(json!({"dst": target})));
        let nd = product(&dd);
        acc.add(
            if dd == dims {
                "clone_from_target_same_shape"
            } else if nd == n {
                "clone_from_target_other_shape_equal_count"
            } else if nd > n {
                "clone_from_target_more_elements"
            } else {
                "clone_from_target_fewer_elements"
            },
            1,
        );
    }

    let last = idxs[n - 1];
    acc.samples.push(json!({
        "shape": dv,
        "elements": n,
        "last_valid_index": last.to_vec(),
        "reads_storage_element": n - 1,
        "first_out_of_range_index_with_offset_inside_storage": first_inside.map(|i| cd(&i)),
        "its_observed_outcomes": first_inside_outcomes,
        "written_text_i32": sample_text,
    }));
    acc
}

/// every shape of rank D with extents 0..=e that contains a zero extent
fn check_zero<const D: usize>(e: usize) -> Acc {
    let mut acc = Acc::default();
    // the odometer over a box of side e+1 yields every D-tuple with coordinates 0..=e
    for dims in all_indices(&[e + 1; D]) {
        if !dims.contains(&0) {
            continue;
        }
        acc.add("zero_extent_shapes", 1);
        for op in ZERO_OPS {
            acc.check(
                "ctor_rejects_zero_extent",
                1,
                atom_ctor_zero(op, dims),
                || format!("{op}:{}", cd(&dims)),
                || json!({"rank": D, "dims": dims.to_vec(), "op": op}),
            );
        }
    }
    acc
}

macro_rules! by_rank {
    ($d:expr, $f:ident ( $($a:expr),* )) => {
        match $d {
            1 => $f::<1>($($a),*),
            2 => $f::<2>($($a),*),
            3 => $f::<3>($($a),*),
            4 => $f::<4>($($a),*),
            r => panic!("rank {r} is not instantiated"),
        }
    };
}

// ---------------------------------------------------------------------------------------------
// plain re-execution of one recorded case

fn usizes(v: &Value) -> Result<Vec<usize>, String> {
    v.as_array().ok_or("replay: expected an array")?.iter().map(|x| x.as_u64().map(|u| u as usize).ok_or_else(|| "replay: expected an integer".to_string())).collect()
}

fn confirm_d<const D: usize>(v: &Value) -> Result<(), String> {
    let fam = v["family"].as_str().unwrap_or("");
    let dv = usizes(&v["dims"])?;
    if dv.len() != D {
        return Err("replay: dims do not match the rank".into());
    }
    let dims: [usize; D] = to_arr(&dv);
    let op = v["op"].as_str().unwrap_or("");
    let idx = || -> Result<[usize; D], String> {
        let i = usizes(&v["idx"])?;
        if i.len() != D {
            return Err("replay: idx does not match the rank".into());
        }
        Ok(to_arr(&i))
    };
    if fam == "ctor_rejects_zero_extent" {
        return atom_ctor_zero(op, dims);
    }
    if dims.contains(&0) {
        return Err("replay: zero extent in a case that needs a valid shape".into());
    }
    let st = strides(&dims);
    match fam {
        "from_vec_valid" => build(dims).map(|_| ()),
        "index_row_major" => {
            let i = idx()?;
            atom_index(&build(dims)?, &dims, i, flat(&i, &st))
        }
        "get_index" => {
            let i = idx()?;
            atom_get_index(&build(dims)?, &dims, i, flat(&i, &st))
        }
        "from_slice" => atom_from_slice(dims),
        "new_writes" => atom_new_writes(dims),
        "iter_order" => atom_iter(&build(dims)?, &dims, v["which"].as_str().unwrap_or("")),
        "index_mut_writes_one" => {
            let i = idx()?;
            atom_write_one(&build(dims)?, &dims, i, flat(&i, &st))
        }
        "oob_panics" => atom_oob(&build(dims)?, &dims, op, idx()?),
        "ctor_rejects_bad_len" => atom_bad_len(op, dims, v["len"].as_u64().ok_or("replay: len")? as usize),
        "io_roundtrip" => io_case(dims, v["ty"].as_str().unwrap_or(""), v["rot"].as_u64().ok_or("replay: rot")? as usize, false).map(|_| ()),
        "write_format" => io_case(dims, v["ty"].as_str().unwrap_or(""), v["rot"].as_u64().ok_or("replay: rot")? as usize, true).map(|_| ()),
        "eq_data" => match v["kind"].as_str() {
            Some("same") => atom_eq_same(dims),
            _ => atom_eq_changed(dims, v["k"].as_u64().ok_or("replay: k")? as usize),
        },
        "eq_shape" => {
            let o = usizes(&v["other"])?;
            if o.len() != D || o.contains(&0) {
                return Err("replay: bad second shape".into());
            }
            atom_eq_shape(dims, to_arr(&o))
        }
        "clone" => atom_clone(dims),
        "clone_from" => {
            let o = usizes(&v["dst"])?;
            if o.len() != D || o.contains(&0) {
                return Err("replay: bad target shape".into());
            }
            atom_clone_from(to_arr(&o), dims)
        }
        other => Err(format!("replay: unknown family {other:?}")),
    }
}

fn confirm(v: &Value) -> Result<(), String> {
    let rank = v["rank"].as_u64().unwrap_or(0) as usize;
    if !(1..=4).contains(&rank) {
        return Err(format!("replay: rank {rank} is not instantiated"));
    }
    by_rank!(rank, confirm_d(v))
}

// ---------------------------------------------------------------------------------------------

const FAMILIES: &[&str] = &[
    "from_vec_valid",
    "index_row_major",
    "get_index",
    "from_slice",
    "new_writes",
    "iter_order",
    "index_mut_writes_one",
    "oob_panics",
    "ctor_rejects_zero_extent",
    "ctor_rejects_bad_len",
    "io_roundtrip",
    "write_format",
    "eq_data",
    "eq_shape",
    "clone",
    "clone_from",
];

fn main() {
    let args = Args::parse();
    quiet_panics();
    if args.replay.is_some() {
        Run::replay_main(&args, &confirm);
    }
    let mut run = Run::new(&args, "tensor", "exploration");
    let max_extent: usize = args.tier.pick(4, 5);
    const MAX_RANK: usize = 4;

    if catch(|| panic!("probe")).is_ok() {
        run.machinery_failure("catch() does not observe panics");
    }

    // shapes, simplest first: rank, element count, lexicographic
    let mut per_rank: Vec<Vec<Vec<usize>>> = vec![];
    for d in 1..=MAX_RANK {
        let mut v: Vec<Vec<usize>> = vec![];
        let total = max_extent.pow(d as u32);
        for code in 0..total {
            let mut c = code;
            let mut s = vec![0usize; d];
            for j in (0..d).rev() {
                s[j] = 1 + c % max_extent;
                c /= max_extent;
            }
            v.push(s);
        }
        v.sort_by(|a, b| (product(a), a).cmp(&(product(b), b)));
        per_rank.push(v);
    }
    let jobs: Vec<(usize, usize)> = per_rank.iter().enumerate().flat_map(|(r, v)| (0..v.len()).map(move |i| (r, i))).collect();
    let expected_shapes: u64 = (1..=MAX_RANK).map(|d| max_extent.pow(d as u32) as u64).sum();

    // one accumulator per shape, computed in parallel, merged in enumeration order
    let accs: Vec<Acc> = jobs
        .par_iter()
        .map(|&(r, i)| {
            let peers = &per_rank[r];
            by_rank!(r + 1, check_shape(&peers[i], peers, i))
        })
        .collect();
    let mut total = Acc::default();
    let mut per_rank_inside = vec![0u64; MAX_RANK];
    let mut per_rank_eqpairs = vec![0u64; MAX_RANK];
    const TARGET_CLASSES: [&str; 4] =
        ["clone_from_target_same_shape", "clone_from_target_other_shape_equal_count", "clone_from_target_more_elements", "clone_from_target_fewer_elements"];
    let mut per_rank_targets = vec![[0u64; 4]; MAX_RANK];
    for (a, &(r, _)) in accs.into_iter().zip(jobs.iter()) {
        per_rank_inside[r] += a.get("oob_indices_flat_offset_inside_storage");
        per_rank_eqpairs[r] += a.get("eq_shape_pairs_equal_count_equal_data");
        for (c, name) in TARGET_CLASSES.iter().enumerate() {
            per_rank_targets[r][c] += a.get(name);
        }
        total.merge(a);
    }
    let mut expected_zero = 0u64;
    for d in 1..=MAX_RANK {
        total.merge(by_rank!(d, check_zero(max_extent)));
        expected_zero += ((max_extent + 1).pow(d as u32) - max_extent.pow(d as u32)) as u64;
    }

    // violations: first per family, families in a fixed order
    for fam in FAMILIES {
        if let Some((_, v)) = total.firsts.iter().find(|(f, _)| f == fam) {
            run.violation(v.clone());
        }
    }

    // coverage
    for (k, v) in &total.n {
        run.cov(k, *v);
    }
    let nontrivial = total.get("oob_indices_flat_offset_inside_storage") + total.get("valid_indices_layout_sensitive");
    run.cov("distinct_nontrivial", nontrivial);
    run.cov("distinct_written_texts", total.texts.len() as u64);
    run.cov("oob_inside_storage_by_rank", json!(per_rank_inside));
    run.cov("eq_shape_equal_count_pairs_by_rank", json!(per_rank_eqpairs));
    run.cov("clone_from_targets_by_rank_same_shape_equal_count_more_fewer", json!(per_rank_targets));
    run.cov("max_rank", MAX_RANK as u64);
    run.cov("max_extent", max_extent as u64);
    run.cov("families", json!(FAMILIES));
    run.cov(
        "rule",
        "every shape of rank 1..=4 with extents 1..=max_extent (ordered by rank, element count, lexicographic); per shape: every valid multi-index (odometer, last coordinate fastest; the k-th must address storage element k of from_vec(10,11,…)) for Index, get_index and a write through IndexMut; from_slice, new + one write per index, iter/iter_mut/into_iter; every index with exactly one coordinate set to extent, extent+1 or usize::MAX and all other coordinates over all valid values, for get_index, Index and IndexMut (must panic); data lengths 0, n-1, n+1 for from_vec/from_slice (must panic); every shape with extents 0..=max_extent containing a 0 for new, from_vec(empty), from_slice(empty), Tensor::read (must panic); write→Tensor::read round trip and text layout for i32, u64, u128, i128 and String elements with every rotation of a boundary value list (the 128-bit lists hold every power of ten with its neighbours and values with zeros directly below a digit-group boundary); == for same shape same data, same shape one element changed (every position), and every unordered pair of distinct shapes of the same rank; copies: t.clone() for every shape and target.clone_from(&source) for every ORDERED pair of same-rank shapes (target of the same shape, of another shape with the same element count, with more elements, with fewer elements; the target holds 5000,5001,… before the call), the copy being examined like a constructed tensor: dims()/dim(i) are the source's, iter() and every valid index through Index and get_index give the row-major sequence, every index with one coordinate = its extent (others over all valid values) panics, copy == source both ways, write → Tensor::read with the source's shape gives the source back, a write through IndexMut at the last index changes exactly the last element. distinct_nontrivial = MEASURED number of distinct (shape, out-of-range index) cases whose flattened offset sum idx*stride is still inside the storage (aliasing is possible without the per-dimension check) + distinct (shape, valid index) cases whose row-major offset differs from the column-major offset (a stride-order error is observable)",
    );
    run.cov("exhaustive", true);
    run.cov(
        "io_values_note",
        "the IO round trip cannot enumerate all element values: it uses boundary lists (16 i32 incl. MIN/MAX/negatives, 12 u64 incl. MAX and 10^19, about 190 u128 and 370 i128 values with every decimal digit structure, 11 ASCII tokens), every rotation of each list over every shape, so every listed value is written at every position of every shape",
    );

    // samples: rotate by VERIF_SEED
    let ns = total.samples.len();
    if ns > 0 {
        let step = (ns / 6).max(1);
        let start = (args.seed as usize) % ns;
        for k in 0..6 {
            run.sample(total.samples[(start + k * step + step / 2) % ns].clone());
        }
    }

    // non-vacuity self-checks
    if total.get("reference_selfcheck_failures") != 0 {
        run.machinery_failure("the reference odometer disagrees with sum idx*stride");
    }
    if total.get("shapes") != expected_shapes {
        run.machinery_failure("not all shapes were enumerated");
    }
    if total.get("zero_extent_shapes") != expected_zero {
        run.machinery_failure("not all zero-extent shapes were enumerated");
    }
    for r in 1..MAX_RANK {
        if per_rank_inside[r] == 0 {
            run.machinery_failure(&format!("rank {}: no out-of-range index with its flattened offset inside the storage was exercised", r + 1));
        }
        if per_rank_eqpairs[r] == 0 {
            run.machinery_failure(&format!("rank {}: no pair of different shapes with equal element count was compared", r + 1));
        }
    }
    let expected_pairs: u64 = per_rank.iter().map(|v| (v.len() * v.len()) as u64).sum();
    if total.get("clone_from") != expected_pairs || total.get("clone") != expected_shapes {
        run.machinery_failure("not every shape was cloned / not every ordered pair of same-rank shapes went through clone_from");
    }
    for r in 0..MAX_RANK {
        for (c, name) in TARGET_CLASSES.iter().enumerate() {
            // rank 1: two different shapes never have the same element count
            if per_rank_targets[r][c] == 0 && !(r == 0 && c == 1) {
                run.machinery_failure(&format!("rank {}: no clone_from case of class {name}", r + 1));
            }
        }
    }
    if total.get("oob_indices_inside_storage_by_wraparound") == 0 || total.get("valid_indices_layout_sensitive") == 0 {
        run.machinery_failure("no wrap-around probe / no layout-sensitive valid index was exercised");
    }
    if !total.has("io_roundtrip") && !total.has("write_format") {
        for f in ["text_with_three_newlines", "text_with_two_newlines", "wrote_i32_min", "wrote_u64_max"] {
            if !total.flags.contains(f) {
                run.machinery_failure(&format!("IO round trip never produced: {f}"));
            }
        }
        if total.texts.len() < 100 {
            run.machinery_failure("implausibly few distinct written texts");
        }
    }
    if nontrivial < 2 {
        run.machinery_failure("no non-trivial case");
    }

    run.assume("write_format: the 'documented separators' are taken from the crate's own `output` test ([2,2,3] of 0..12 is written as \"0 1 2\\n3 4 5\\n\\n6 7 8\\n9 10 11\") and the property's anchor (spaces inside the last dimension, one more newline per outer dimension): elements of the last dimension joined by ' ', sub-blocks of a rank-k block joined by k-1 '\\n', nothing after the last element; each element's own text is whatever the real Writer produces for that element alone. The property statement itself only demands the round trip (family io_roundtrip); write_format is a separate family");
    run.assume("io_roundtrip: String elements are restricted to non-empty tokens of printable non-space ASCII (the Reader is whitespace-separated and byte-oriented); empty, whitespace-containing and non-ASCII candidates are skipped and counted in skipped_out_of_domain");
    run.assume("clone / clone_from: the statement does not name Clone; a tensor obtained through the type's public Clone impl is taken to be a tensor in the statement's sense (it has a shape, dims(), and must index it row-major with per-dimension checks, iterate, write and read back, and compare accordingly), and `a.clone_from(&b)` is taken, per the std contract of Clone, to leave `a` equal to `b.clone()` — so the copy is held to the source's shape and elements. Nothing else about Clone (capacity reuse, allocation) is demanded");
    run.assume("equality across shapes can only be expressed for equal rank (different ranks are different types)");
    run.assume("a panic from the Vec bounds check counts as 'rejected with a panic' for out-of-range indices whose flattened offset is outside the storage; for offsets inside the storage only the per-dimension check can produce it");
    run.finish(&confirm)
}
