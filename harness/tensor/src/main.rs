//! C19 — Tensor indexing is a row-major bijection with per-dimension bounds checks.
//!
//! Form I (small-scope input enumeration, exhaustive): every shape of rank 1..=4 with extents 1..=E
//! (E = 4 quick, 5 thorough; the rank is a const generic, instantiated by macro), and for every shape
//! every valid multi-index and every multi-index that is out of range in exactly one dimension, run on
//! the REAL `rlib_tensor::Tensor` and compared with a reference written here (an odometer over the
//! multi-indices whose k-th element must be storage element k, cross-checked against sum idx*stride).
//!
//! Check families (one violation reported per family: the first failing case in enumeration order, which
//! is simplest-first: rank, then element count, then lexicographic shape, then lexicographic index):
//!   from_vec_valid, index_row_major, get_index, from_slice, new_writes, iter_order,
//!   index_mut_writes_one, oob_panics, ctor_rejects_zero_extent, ctor_rejects_bad_len,
//!   io_roundtrip, write_format, io_short_reads, io_reader_refill, eq_data, eq_shape, clone, clone_from,
//!   elem_index, elem_eq, elem_clone, elem_clone_from.
//!
//! Writer history (families io_roundtrip, write_format): a tensor is rarely the first thing written through a
//! Writer, so besides a fresh Writer both families run with `fill` bytes of earlier output pending in the SAME
//! Writer: every fill level B-W..=B and B+1 of the buffer size B (OBSERVED at run time: single bytes are fed
//! until the sink receives its first write), so that every separator and element within the first W+1 bytes of
//! the tensor's text is the write that meets the full buffer.  The text is read back from where the tensor
//! starts and must not depend on the fill level.
//!
//! Reader history and sources (families io_short_reads, io_reader_refill): a tensor is rarely the only thing read
//! through a Reader and a source need not hand over its bytes in one piece, so two tensors of every shape and
//! element kind (all integer widths, String, a (String, i128) tuple) are written through one Writer and read back
//! through ONE Reader (a) from a `Read` that delivers the text in two pieces cut at every position, and k bytes at
//! a time, (b) behind a padding token sized so that the Reader's own refill of its full buffer (size OBSERVED)
//! falls at every position of the text: inside every kind of token, right behind a minus sign, right before and
//! after a token, and at the very end of the input.
//!
//! Element types (families elem_*): the statement does not restrict the element type, so the clauses that do
//! not need IO are repeated for degenerate instantiations — zero-sized types (`()`, a unit struct: every Vec
//! of them has the same dangling address and no bytes), bool, u8, a 24-byte struct whose values differ in the
//! last field only, and String (equal elements that are not bitwise equal; a shallow copy would share them):
//! construction three ways + every valid / out-of-range index, `==` (a tensor with itself, with its clone,
//! with a rebuilt one, with one element changed, with every other shape of the same rank — equal and different
//! element count), clone, and clone_from over every ordered pair of same-rank shapes.
//!
//! Copies (families clone, clone_from): a tensor obtained through `Clone` is a tensor like any other, so the
//! property's clauses are demanded of it too: for every shape `t.clone()`, and for every ORDERED pair of
//! same-rank shapes (target, source) `target.clone_from(&source)` — targets of the same shape, of another
//! shape with the same element count, with more and with fewer elements — must report the source's dims(),
//! hold its elements row-major under iteration / Index / get_index, reject out-of-range indices, take a write
//! through IndexMut in exactly one element, compare equal to the source and survive write -> Tensor::read.
//!
//! Every family is made of small "atoms" (one plain execution of the real code + comparison); the
//! enumeration calls the atoms, and `confirm` (used by --replay and by Run::finish) calls exactly one
//! atom with the recorded parameters — no enumeration around it.

use rayon::prelude::*;
use rlib_io::{Readable, Reader, Writable, Writer};
use rlib_tensor::Tensor;
use std::cell::{Cell, RefCell};
use std::collections::{BTreeMap, BTreeSet};
use std::fmt::Debug;
use vcore::*;

// ---------------------------------------------------------------------------------------------
// reference model

type E = i64;
/// distinct, non-zero, non-default element values: storage element k holds 10 + k
fn val(k: usize) -> E {
    10 + k as E
}
const SENTINEL: E = -7;
const FILL: E = -1;

fn product(dims: &[usize]) -> usize {
    dims.iter().product()
}

/// row-major strides: last dimension has stride 1
fn strides<const D: usize>(dims: &[usize; D]) -> [usize; D] {
    let mut s = [1usize; D];
    for i in (0..D - 1).rev() {
        s[i] = s[i + 1] * dims[i + 1];
    }
    s
}

/// sum idx*stride (wrapping: the out-of-range probes include usize::MAX)
fn flat<const D: usize>(idx: &[usize; D], st: &[usize; D]) -> usize {
    let mut o = 0usize;
    for i in 0..D {
        o = o.wrapping_add(idx[i].wrapping_mul(st[i]));
    }
    o
}

/// the offset the same index would have in a column-major layout (first index fastest)
fn flat_colmajor<const D: usize>(idx: &[usize; D], dims: &[usize; D]) -> usize {
    let mut o = 0usize;
    let mut sz = 1usize;
    for i in 0..D {
        o += idx[i] * sz;
        sz *= dims[i];
    }
    o
}

/// Odometer: all multi-indices of the shape, last coordinate fastest.  Does not use strides; the k-th
/// index produced is, by definition of row-major, the index of storage element k.
fn all_indices<const D: usize>(dims: &[usize; D]) -> Vec<[usize; D]> {
    let mut out = Vec::with_capacity(product(dims));
    let mut idx = [0usize; D];
    loop {
        out.push(idx);
        let mut j = D;
        loop {
            if j == 0 {
                return out;
            }
            j -= 1;
            idx[j] += 1;
            if idx[j] < dims[j] {
                break;
            }
            idx[j] = 0;
        }
    }
}

/// compact rendering `[1,2,3]` (used in signatures)
fn cd(d: &[usize]) -> String {
    let parts: Vec<String> = d.iter().map(|x| if *x == usize::MAX { "MAX".to_string() } else { x.to_string() }).collect();
    format!("[{}]", parts.join(","))
}

/// Reference text format, derived from the crate's own `output` test
/// (`[2,2,3]` of 0..12 is written as "0 1 2\n3 4 5\n\n6 7 8\n9 10 11"): elements of the last dimension
/// are joined by one space; the sub-blocks of a rank-k block (k >= 2) are joined by k-1 newlines;
/// nothing follows the last element.
fn ref_format(dims: &[usize], elems: &[Vec<u8>]) -> Vec<u8> {
    let mut out = vec![];
    if dims.len() == 1 {
        for (i, e) in elems.iter().enumerate() {
            if i > 0 {
                out.push(b' ');
            }
            out.extend_from_slice(e);
        }
    } else {
        let sub = elems.len() / dims[0];
        for i in 0..dims[0] {
            if i > 0 {
                out.extend(std::iter::repeat(b'\n').take(dims.len() - 1));
            }
            out.extend(ref_format(&dims[1..], &elems[i * sub..(i + 1) * sub]));
        }
    }
    out
}

// ---------------------------------------------------------------------------------------------
// element values for the IO round trip

const I32_VALS: &[i32] =
    &[0, 1, -1, 9, 10, -10, 99, 100, 12345, -98765, 1_000_000_007, -1_000_000_007, i32::MAX, i32::MIN, i32::MAX - 1, i32::MIN + 1];
const U64_VALS: &[u64] = &[
    0,
    1,
    9,
    10,
    4_294_967_295,
    4_294_967_296,
    1_000_000_000_000_000_000,
    9_999_999_999_999_999_999,
    10_000_000_000_000_000_000,
    1 << 63,
    u64::MAX - 1,
    u64::MAX,
];
/// 128-bit elements with every decimal digit structure a chunked renderer could get wrong: every power of ten,
/// its neighbours, a small value right above it (zeros directly below a digit-group boundary), runs of 9s,
/// sums of two distant powers, and the extremes
fn u128_vals() -> Vec<u128> {
    let mut v: Vec<u128> = vec![0, 1, u128::MAX, u128::MAX - 1, 1 << 64, (1 << 64) + 1, u64::MAX as u128];
    let mut p: u128 = 1;
    for k in 0..=38u32 {
        v.extend([p, p - 1, p + 7]);
        if k >= 9 {
            v.push(p + 1_000_000_000 / 10);
            v.push(3 * p + 100_000_007);
        }
        if k >= 19 {
            v.push(p + 10_000_000_000_000_000_000 / 10);
            v.push(p + 1_000_000_000_000_000_000);
        }
        if k < 38 {
            p *= 10;
        }
    }
    v.sort();
    v.dedup();
    v
}

fn i128_vals() -> Vec<i128> {
    let mut v: Vec<i128> = vec![i128::MAX, i128::MIN, i128::MIN + 1, -1];
    for u in u128_vals() {
        if u <= i128::MAX as u128 {
            v.push(u as i128);
            v.push(-(u as i128));
        }
    }
    v.sort();
    v.dedup();
    v
}

/// candidate tokens; the ones a whitespace-separated byte-oriented reader cannot represent are out of
/// the round trip's domain and are skipped (and counted)
const STR_CANDIDATES: &[&str] = &[
    "a",
    "Z9",
    "-",
    "-0",
    "007",
    "hello_world",
    "x,y;z",
    "[[1]]",
    "!@#$%^&*()",
    "~",
    "",
    "a b",
    "\u{e9}t\u{e9}",
    "0123456789abcdefghijklmnopqrstuvwxyzABCDEFGHIJKLMNOPQRSTUVWXYZ",
    "tab\there",
];
fn str_in_domain(s: &str) -> bool {
    !s.is_empty() && s.bytes().all(|b| b.is_ascii_graphic())
}
fn str_vals() -> Vec<String> {
    STR_CANDIDATES.iter().filter(|s| str_in_domain(s)).map(|s| s.to_string()).collect()
}
/// String elements around the size `b` of the Writer's buffer (one byte less, exactly, one byte more: such an
/// element cannot sit in the buffer together with anything written before it) between short ones; the long
/// tokens cycle through the alphabet from different letters, so a moved or truncated piece is visible
fn long_str_vals(b: usize) -> Vec<String> {
    let long = |len: usize, from: usize| -> String { (0..len).map(|i| (b'a' + ((from + i) % 26) as u8) as char).collect() };
    vec!["a".to_string(), long(b - 1, 0), "bc".to_string(), long(b, 7), "-7".to_string(), long(b + 1, 13)]
}
fn rotated<T: Clone>(list: &[T], n: usize, rot: usize) -> Vec<T> {
    (0..n).map(|k| list[(k + rot) % list.len()].clone()).collect()
}

// ---------------------------------------------------------------------------------------------
// atoms: one plain execution of the real code, compared with the reference

fn build<const D: usize>(dims: [usize; D]) -> Result<Tensor<E, D>, String> {
    let n = product(&dims);
    catch(|| Tensor::from_vec(dims, (0..n).map(val).collect()))
        .map_err(|p| format!("shape {}: from_vec with {n} values (= product of the extents) panicked: {p}", cd(&dims)))
}

fn atom_index<const D: usize>(t: &Tensor<E, D>, dims: &[usize; D], idx: [usize; D], off: usize) -> Result<(), String> {
    match catch(|| t[idx]) {
        Ok(v) if v == val(off) => Ok(()),
        Ok(v) => Err(format!(
            "shape {}: t[{}] read {v}, expected row-major element #{off} = {} (tensor built by from_vec of 10,11,12,…)",
            cd(dims),
            cd(&idx),
            val(off)
        )),
        Err(p) => Err(format!("shape {}: t[{}] panicked on a valid index: {p}", cd(dims), cd(&idx))),
    }
}

fn atom_get_index<const D: usize>(t: &Tensor<E, D>, dims: &[usize; D], idx: [usize; D], off: usize) -> Result<(), String> {
    match catch(|| t.get_index(idx)) {
        Ok(r) if r == off => Ok(()),
        Ok(r) => Err(format!("shape {}: get_index({}) = {r}, expected the row-major offset {off}", cd(dims), cd(&idx))),
        Err(p) => Err(format!("shape {}: get_index({}) panicked on a valid index: {p}", cd(dims), cd(&idx))),
    }
}

fn data_of<T: Clone, const D: usize>(t: &Tensor<T, D>) -> Vec<T> {
    t.iter().cloned().collect()
}

fn first_diff<T: PartialEq>(a: &[T], b: &[T]) -> usize {
    a.iter().zip(b.iter()).position(|(x, y)| x != y).unwrap_or(a.len().min(b.len()))
}

fn atom_write_one<const D: usize>(base: &Tensor<E, D>, dims: &[usize; D], idx: [usize; D], off: usize) -> Result<(), String> {
    let n = product(dims);
    let mut t = base.clone();
    catch(|| {
        t[idx] = SENTINEL;
    })
    .map_err(|p| format!("shape {}: t[{}] = x panicked on a valid index: {p}", cd(dims), cd(&idx)))?;
    let got = data_of(&t);
    let mut want: Vec<E> = (0..n).map(val).collect();
    want[off] = SENTINEL;
    if got != want {
        let changed: Vec<usize> = (0..got.len().min(n)).filter(|&k| got[k] != val(k)).collect();
        return Err(format!(
            "shape {}: t[{}] = {SENTINEL} must change exactly storage element #{off}; elements changed: {changed:?} (storage length {})",
            cd(dims),
            cd(&idx),
            got.len()
        ));
    }
    match catch(|| t[idx]) {
        Ok(v) if v == SENTINEL => Ok(()),
        other => Err(format!("shape {}: after t[{}] = {SENTINEL}, reading the same index gives {other:?}", cd(dims), cd(&idx))),
    }
}

const OOB_OPS: &[&str] = &["get_index", "index", "index_mut"];

fn atom_oob<const D: usize>(base: &Tensor<E, D>, dims: &[usize; D], op: &str, idx: [usize; D]) -> Result<(), String> {
    let n = product(dims);
    let st = strides(dims);
    let off = flat(&idx, &st);
    let alias = if off < n {
        let all = all_indices(dims);
        format!("its flattened offset {off} is inside the storage, i.e. it aliases element {}", cd(&all[off]))
    } else {
        format!("its flattened offset {off} is outside the storage of {n}")
    };
    let head = format!("shape {}: index {} is out of range in one dimension and must be rejected with a panic", cd(dims), cd(&idx));
    match op {
        "get_index" => match catch(|| base.get_index(idx)) {
            Err(_) => Ok(()),
            Ok(r) => Err(format!("{head}; get_index returned {r} ({alias})")),
        },
        "index" => match catch(|| base[idx]) {
            Err(_) => Ok(()),
            Ok(v) => Err(format!("{head}; t[idx] read {v} ({alias})")),
        },
        "index_mut" => {
            let mut t = base.clone();
            match catch(|| {
                t[idx] = SENTINEL;
            }) {
                Err(_) => Ok(()),
                Ok(()) => {
                    let got = data_of(&t);
                    let changed: Vec<usize> = (0..got.len()).filter(|&k| got[k] != val(k)).collect();
                    Err(format!("{head}; t[idx] = {SENTINEL} succeeded and overwrote storage element(s) {changed:?} ({alias})"))
                }
            }
        }
        _ => Err(format!("unknown op {op}")),
    }
}

// access history on one object: a short sequence of accesses on ONE fresh tensor, judged step by step against a
// shadow copy of the storage (valid index: the route's documented effect; out-of-range index: a panic, nothing changed)
const ROUTES: &[&str] = &["index", "index_mut", "get_index", "write_read"];

#[derive(Clone, Copy)]
struct Step<const D: usize> {
    op: &'static str,
    idx: [usize; D],
}

fn route_name(op: &str) -> Option<&'static str> {
    ROUTES.iter().copied().find(|r| *r == op)
}

fn steps_sig<const D: usize>(steps: &[Step<D>]) -> String {
    steps.iter().map(|s| format!("{}{}", s.op, cd(&s.idx))).collect::<Vec<_>>().join(">")
}

fn steps_json<const D: usize>(steps: &[Step<D>]) -> Value {
    json!(steps.iter().map(|s| json!({"op": s.op, "idx": s.idx.to_vec()})).collect::<Vec<_>>())
}

fn atom_seq<const D: usize>(dims: &[usize; D], steps: &[Step<D>]) -> Result<(), String> {
    let n = product(dims);
    let st = strides(dims);
    let mut t = build(*dims)?;
    let mut model: Vec<E> = (0..n).map(val).collect();
    for (s, step) in steps.iter().enumerate() {
        let idx = step.idx;
        let valid = (0..D).all(|j| idx[j] < dims[j]);
        let w: E = -100 - s as E;
        let head = || format!(
            "shape {}: on one fresh tensor (from_vec of 10,11,12,…) the accesses {} in this order; access #{} ({}{})",
            cd(dims),
            steps_sig(steps),
            s + 1,
            step.op,
            cd(&idx)
        );
        let outcome: Result<String, String> = match step.op {
            "index" => catch(|| t[idx]).map(|v| format!("read {v}")),
            "get_index" => catch(|| t.get_index(idx)).map(|r| format!("returned {r}")),
            "index_mut" => catch(|| {
                t[idx] = w;
            })
            .map(|()| format!("wrote {w}")),
            "write_read" => catch(|| {
                t[idx] = w;
                t[idx]
            })
            .map(|v| format!("wrote {w}, read back {v}")),
            other => return Err(format!("unknown route {other}")),
        };
        if valid {
            let off = flat(&idx, &st);
            let want = match step.op {
                "index" => format!("read {}", model[off]),
                "get_index" => format!("returned {off}"),
                "index_mut" => {
                    model[off] = w;
                    format!("wrote {w}")
                }
                _ => {
                    model[off] = w;
                    format!("wrote {w}, read back {w}")
                }
            };
            match outcome {
                Ok(got) if got == want => {}
                Ok(got) => return Err(format!("{} is valid (storage element #{off}): expected `{want}`, observed `{got}`", head())),
                Err(p) => return Err(format!("{} is valid but panicked: {p}", head())),
            }
        } else if let Ok(got) = outcome {
            let got_data = data_of(&t);
            let changed: Vec<usize> = (0..got_data.len().min(n)).filter(|&k| got_data[k] != model[k]).collect();
            return Err(format!("{} is out of range in one dimension and must be rejected with a panic, but it {got} (storage elements changed by it: {changed:?})", head()));
        }
        let got_data = data_of(&t);
        if got_data != model {
            let changed: Vec<usize> = (0..got_data.len().min(n)).filter(|&k| got_data[k] != model[k]).collect();
            return Err(format!("{}: afterwards the storage differs from the expected contents at element(s) {changed:?} (length {})", head(), got_data.len()));
        }
    }
    Ok(())
}

const ZERO_OPS: &[&str] = &["new", "from_vec_empty", "from_slice_empty", "read"];

fn atom_ctor_zero<const D: usize>(op: &str, dims: [usize; D]) -> Result<(), String> {
    let r: Result<usize, String> = match op {
        "new" => catch(|| Tensor::<E, D>::new(dims, FILL).iter().count()),
        // the data length EQUALS the product (0), so only the zero-extent check can reject it
        "from_vec_empty" => catch(|| Tensor::<E, D>::from_vec(dims, Vec::new()).iter().count()),
        "from_slice_empty" => catch(|| Tensor::<E, D>::from_slice(dims, &[]).iter().count()),
        "read" => catch(|| {
            let bytes: &[u8] = b"1 2 3 4 5 6 7 8 9 10 11 12";
            let mut r = Reader::new(Box::new(bytes));
            Tensor::<E, D>::read(dims, &mut r).iter().count()
        }),
        _ => return Err(format!("unknown op {op}")),
    };
    match r {
        Err(_) => Ok(()),
        Ok(cnt) => Err(format!("{op} with shape {} (contains a zero extent) did not panic: it built a tensor of {cnt} elements", cd(&dims))),
    }
}

const LEN_OPS: &[&str] = &["from_vec", "from_slice"];

fn atom_bad_len<const D: usize>(op: &str, dims: [usize; D], len: usize) -> Result<(), String> {
    let data: Vec<E> = (0..len).map(val).collect();
    let r: Result<usize, String> = match op {
        "from_vec" => catch(|| Tensor::<E, D>::from_vec(dims, data).iter().count()),
        "from_slice" => catch(|| Tensor::<E, D>::from_slice(dims, &data).iter().count()),
        _ => return Err(format!("unknown op {op}")),
    };
    match r {
        Err(_) => Ok(()),
        Ok(cnt) => Err(format!(
            "{op} with shape {} (needs {} elements) and {len} elements did not panic: it built a tensor holding {cnt} elements",
            cd(&dims),
            product(&dims)
        )),
    }
}

/// every valid index of `t` must read `want(k)` for the k-th index; iter() must give the same sequence
fn expect_all<const D: usize>(t: &Tensor<E, D>, dims: &[usize; D], how: &str, want: &dyn Fn(usize) -> E) -> Result<(), String> {
    let n = product(dims);
    let got = data_of(t);
    let exp: Vec<E> = (0..n).map(want).collect();
    if got != exp {
        let k = first_diff(&got, &exp);
        return Err(format!(
            "shape {}: {how}: iter() gives {} elements, first difference from the row-major sequence at #{k} (got {:?}, expected {:?})",
            cd(dims),
            got.len(),
            got.get(k),
            exp.get(k)
        ));
    }
    for (k, idx) in all_indices(dims).into_iter().enumerate() {
        match catch(|| t[idx]) {
            Ok(v) if v == want(k) => {}
            other => return Err(format!("shape {}: {how}: t[{}] gives {other:?}, expected {}", cd(dims), cd(&idx), want(k))),
        }
    }
    Ok(())
}

fn atom_from_slice<const D: usize>(dims: [usize; D]) -> Result<(), String> {
    let n = product(&dims);
    let vals: Vec<E> = (0..n).map(val).collect();
    let t = catch(|| Tensor::<E, D>::from_slice(dims, &vals)).map_err(|p| format!("shape {}: from_slice with {n} values panicked: {p}", cd(&dims)))?;
    expect_all(&t, &dims, "tensor built by from_slice", &val)
}

fn build_new_writes<const D: usize>(dims: [usize; D]) -> Result<Tensor<E, D>, String> {
    let mut t = catch(|| Tensor::<E, D>::new(dims, FILL)).map_err(|p| format!("shape {}: new panicked on a valid shape: {p}", cd(&dims)))?;
    expect_all(&t, &dims, "tensor built by new(dims, -1)", &|_| FILL)?;
    // written in REVERSE index order, so the result does not depend on the order of writes
    for (k, idx) in all_indices(&dims).into_iter().enumerate().rev() {
        catch(|| {
            t[idx] = val(k);
        })
        .map_err(|p| format!("shape {}: t[{}] = x panicked on a valid index: {p}", cd(&dims), cd(&idx)))?;
    }
    Ok(t)
}

fn atom_new_writes<const D: usize>(dims: [usize; D]) -> Result<(), String> {
    let t = build_new_writes(dims)?;
    expect_all(&t, &dims, "tensor built by new + one write per index", &val)
}

const ITER_KINDS: &[&str] = &["iter", "iter_mut", "into_iter"];

fn atom_iter<const D: usize>(base: &Tensor<E, D>, dims: &[usize; D], which: &str) -> Result<(), String> {
    let n = product(dims);
    let exp: Vec<E> = (0..n).map(val).collect();
    match which {
        "iter" => {
            let got: Vec<E> = catch(|| base.iter().copied().collect()).map_err(|p| format!("iter panicked: {p}"))?;
            if got != exp {
                let k = first_diff(&got, &exp);
                return Err(format!("shape {}: iter() yields {} elements; element #{k} is {:?}, row-major order expects {:?}", cd(dims), got.len(), got.get(k), exp.get(k)));
            }
            Ok(())
        }
        "into_iter" => {
            let got: Vec<E> = catch(|| base.clone().into_iter().collect()).map_err(|p| format!("into_iter panicked: {p}"))?;
            if got != exp {
                let k = first_diff(&got, &exp);
                return Err(format!("shape {}: into_iter() yields {} elements; element #{k} is {:?}, row-major order expects {:?}", cd(dims), got.len(), got.get(k), exp.get(k)));
            }
            Ok(())
        }
        "iter_mut" => {
            let mut t = base.clone();
            let cnt = catch(|| {
                let mut c = 0usize;
                for (k, x) in t.iter_mut().enumerate() {
                    *x = 1000 + k as E;
                    c += 1;
                }
                c
            })
            .map_err(|p| format!("iter_mut panicked: {p}"))?;
            if cnt != n {
                return Err(format!("shape {}: iter_mut() visits {cnt} elements, expected {n}", cd(dims)));
            }
            expect_all(&t, dims, "after writing 1000+k through the k-th item of iter_mut()", &|k| 1000 + k as E)
        }
        _ => Err(format!("unknown iterator kind {which}")),
    }
}

// ---------------------------------------------------------------------------------------------
// the Writer's history: `fill` bytes of earlier output written through the same Writer before the tensor

/// sink that keeps the bytes and the length of the first write it is offered (= where the Writer's first
/// flush fell)
struct RecSink<'a> {
    out: &'a mut Vec<u8>,
    first_write: &'a Cell<usize>,
}

impl std::io::Write for RecSink<'_> {
    fn write(&mut self, buf: &[u8]) -> std::io::Result<usize> {
        if self.first_write.get() == 0 {
            self.first_write.set(buf.len());
        }
        self.out.extend_from_slice(buf);
        Ok(buf.len())
    }
    fn flush(&mut self) -> std::io::Result<()> {
        Ok(())
    }
}

/// The Writer's buffer size B, observed: single bytes go through `write_char` until the sink is offered its
/// first write, whose length is the number of bytes the Writer could hold.  None if nothing reaches the sink
/// within `OBSERVE_CAP` bytes.
fn observe_buffer_size() -> Option<usize> {
    const OBSERVE_CAP: usize = 1 << 24;
    let mut out: Vec<u8> = vec![];
    let first_write = Cell::new(0usize);
    catch(|| {
        let mut w = Writer::new(Box::new(RecSink { out: &mut out, first_write: &first_write }));
        for _ in 0..OBSERVE_CAP {
            if first_write.get() != 0 {
                break;
            }
            w.write_char(FILLER as char);
        }
    })
    .ok()?;
    (first_write.get() > 0).then_some(first_write.get())
}

/// fill levels of the Writer at which the tensor is written, besides 0
struct Fills {
    /// observed buffer size
    b: usize,
    /// the last `window` levels below full, exactly full, and one byte more (= one byte after a flush)
    levels: Vec<usize>,
}

impl Fills {
    fn new(b: usize, window: usize) -> Fills {
        Fills { b, levels: (b - window.min(b - 1)..=b + 1).collect() }
    }
}

const FILLER: u8 = b'#';
/// widest window of fill levels below the full buffer (thorough tier)
const FILL_WINDOW_MAX: usize = 256;

struct Written {
    /// what reached the sink after the filler
    text: Vec<u8>,
    /// length of the first write the sink was offered
    first_write: usize,
}

impl Written {
    /// Some(p) if the Writer's first flush fell inside this text: `fill` filler bytes and the first p bytes of
    /// the text made up the first write, i.e. the piece starting at text[p] is the one that met the full buffer
    fn boundary(&self, fill: usize) -> Option<usize> {
        (fill > 0 && self.first_write >= fill && self.first_write - fill < self.text.len()).then(|| self.first_write - fill)
    }
}

/// `fill` filler bytes, then `x`, through ONE real Writer; the filler must arrive intact and is cut off
fn write_after<T: Writable>(fill: usize, x: &T) -> Result<Written, String> {
    let mut out: Vec<u8> = Vec::with_capacity(fill + 64);
    let first_write = Cell::new(0usize);
    catch(|| {
        let mut w = Writer::new(Box::new(RecSink { out: &mut out, first_write: &first_write }));
        if fill > 0 {
            w.write(&String::from_utf8(vec![FILLER; fill]).unwrap());
        }
        w.write(x);
        drop(w);
    })
    .map_err(|p| format!("writing {}panicked: {p}", after(fill)))?;
    if out.len() < fill || out[..fill].iter().any(|b| *b != FILLER) {
        return Err(format!("the sink did not receive the {fill} filler bytes written before the tensor intact ({} bytes arrived in all)", out.len()));
    }
    Ok(Written { text: out.split_off(fill), first_write: first_write.get() })
}

fn write_one<T: Writable>(x: &T) -> Result<Vec<u8>, String> {
    write_after(0, x).map(|w| w.text)
}

/// Each element's own text: the elements go one by one through one fresh Writer with a flush after each, so
/// every element is written into an empty buffer; what the sink has received after the k-th flush ends the
/// k-th text.
fn write_each<T: Writable>(data: &[T]) -> Result<Vec<Vec<u8>>, String> {
    struct Shared<'a>(&'a RefCell<Vec<u8>>);
    impl std::io::Write for Shared<'_> {
        fn write(&mut self, buf: &[u8]) -> std::io::Result<usize> {
            self.0.borrow_mut().extend_from_slice(buf);
            Ok(buf.len())
        }
        fn flush(&mut self) -> std::io::Result<()> {
            Ok(())
        }
    }
    let out = RefCell::new(vec![]);
    let mut ends = vec![];
    catch(|| {
        let mut w = Writer::new(Box::new(Shared(&out)));
        for x in data {
            w.write(x);
            w.flush();
            ends.push(out.borrow().len());
        }
    })
    .map_err(|p| format!("writing the elements one by one panicked: {p}"))?;
    let out = out.into_inner();
    let mut from = 0;
    Ok(ends
        .into_iter()
        .map(|to| {
            let piece = out[from..to].to_vec();
            from = to;
            piece
        })
        .collect())
}

/// words for a failure message: where in the Writer's history the tensor was written
fn after(fill: usize) -> String {
    if fill == 0 {
        String::new()
    } else {
        format!("(through a Writer that already held {fill} bytes of earlier output) ")
    }
}

/// Debug rendering cut to a readable length (an element can be as long as the Writer's buffer)
fn brief(x: &impl Debug) -> String {
    let s = format!("{x:?}");
    let len = s.chars().count();
    if len > 120 {
        format!("{}… ({len} chars)", s.chars().take(120).collect::<String>())
    } else {
        s
    }
}

fn show(b: &[u8]) -> String {
    let s = String::from_utf8_lossy(b);
    if s.len() > 160 {
        format!("{:?}…", &s[..160])
    } else {
        format!("{s:?}")
    }
}

/// write with the real Writer (after `fill` bytes of earlier output), read back from where the tensor starts
/// with Tensor::read and the same shape: same dims, elementwise equal data, and `==` true
fn atom_io<T: Clone + PartialEq + Debug + Readable + Writable, const D: usize>(dims: [usize; D], data: &[T], fill: usize) -> Result<Written, String> {
    let t = catch(|| Tensor::<T, D>::from_vec(dims, data.to_vec())).map_err(|p| format!("shape {}: from_vec panicked: {p}", cd(&dims)))?;
    let written = write_after(fill, &t).map_err(|m| format!("shape {}: {m}", cd(&dims)))?;
    let text = &written.text;
    let head = format!("shape {}: {}", cd(&dims), after(fill));
    let back = catch(|| {
        let mut r = Reader::new(Box::new(&text[..]));
        Tensor::<T, D>::read(dims, &mut r)
    })
    .map_err(|p| format!("{head}Tensor::read of the written text {} panicked: {p}", show(text)))?;
    if back.dims() != &dims {
        return Err(format!("{head}the tensor read back reports dims {}", cd(back.dims())));
    }
    let got = data_of(&back);
    if got.as_slice() != data {
        let k = first_diff(&got, data);
        return Err(format!(
            "{head}wrote {} and read it back with the same shape: {} elements, element #{k} is {}, written was {}",
            show(text),
            got.len(),
            brief(&got.get(k)),
            brief(&data.get(k))
        ));
    }
    for (k, idx) in all_indices(&dims).into_iter().enumerate() {
        match catch(|| back[idx].clone()) {
            Ok(v) if v == data[k] => {}
            other => return Err(format!("{head}tensor read back: t[{}] gives {}, written was {}", cd(&idx), brief(&other), brief(&data[k]))),
        }
    }
    match catch(|| back == t && t == back) {
        Ok(true) => Ok(written),
        other => Err(format!("{head}the tensor read back has the same shape and elements but `==` gives {other:?}")),
    }
}

/// the written text is exactly the documented layout of the elements' own renderings (each written into an
/// empty buffer, see write_each), whatever the Writer held before
fn atom_format<T: Clone + Writable, const D: usize>(dims: [usize; D], data: &[T], fill: usize) -> Result<Written, String> {
    let t = catch(|| Tensor::<T, D>::from_vec(dims, data.to_vec())).map_err(|p| format!("shape {}: from_vec panicked: {p}", cd(&dims)))?;
    let written = write_after(fill, &t).map_err(|m| format!("shape {}: {m}", cd(&dims)))?;
    let want = ref_format(&dims, &write_each(data)?);
    if written.text != want {
        let k = first_diff(&written.text, &want);
        return Err(format!(
            "shape {}: {}written text is {} but the documented layout (spaces inside the last dimension, k-1 newlines between the sub-blocks of a rank-k block, nothing after the last element) is {}; first difference at byte {k}",
            cd(&dims),
            after(fill),
            show(&written.text),
            show(&want)
        ));
    }
    Ok(written)
}

const IO_TYPES: &[&str] = &["i32", "u64", "u128", "i128", "String"];
/// String elements as long as the Writer's buffer (see long_str_vals); only for shapes of at most this many elements
const LONG_TYPE: &str = "LongString";
const LONG_MAX_ELEMS: usize = 4;

/// One case of the families io_roundtrip / write_format besides the shape: the elements are a rotation of the
/// element type's value list, written after `fill` bytes of earlier output.
#[derive(Clone, Copy)]
struct IoCase<'a> {
    ty: &'a str,
    rot: usize,
    fill: usize,
    /// LongString only: the buffer size its long tokens are built around
    b: usize,
}

impl IoCase<'_> {
    fn list_len(ty: &str) -> usize {
        match ty {
            "i32" => I32_VALS.len(),
            "u64" => U64_VALS.len(),
            "u128" => u128_vals().len(),
            "i128" => i128_vals().len(),
            LONG_TYPE => long_str_vals(2).len(),
            _ => str_vals().len(),
        }
    }

    fn run<const D: usize>(&self, dims: [usize; D], format_only: bool) -> Result<Written, String> {
        fn go<T: Clone + PartialEq + Debug + Readable + Writable, const D: usize>(c: &IoCase, dims: [usize; D], list: &[T], format_only: bool) -> Result<Written, String> {
            let data = rotated(list, product(&dims), c.rot);
            if format_only {
                atom_format(dims, &data, c.fill)
            } else {
                atom_io(dims, &data, c.fill)
            }
        }
        match self.ty {
            "i32" => go(self, dims, I32_VALS, format_only),
            "u64" => go(self, dims, U64_VALS, format_only),
            "u128" => go(self, dims, &u128_vals(), format_only),
            "i128" => go(self, dims, &i128_vals(), format_only),
            "String" => go(self, dims, &str_vals(), format_only),
            LONG_TYPE if self.b >= 2 => go(self, dims, &long_str_vals(self.b), format_only),
            ty => Err(format!("unknown element type {ty}")),
        }
    }

    fn sig(&self, dims: &[usize]) -> String {
        let mut s = format!("{}:{}:rot={}", self.ty, cd(dims), self.rot);
        if self.ty == LONG_TYPE {
            s.push_str(&format!(":B={}", self.b));
        }
        if self.fill > 0 {
            s.push_str(&format!(":fill={}", self.fill));
        }
        s
    }

    fn replay(&self, dims: &[usize]) -> Value {
        json!({"rank": dims.len(), "dims": dims, "ty": self.ty, "rot": self.rot, "fill": self.fill, "b": self.b})
    }

    /// `fill` and `b` are absent in replay files written before they existed: a fresh Writer, no long tokens
    fn from_replay(v: &Value) -> Result<IoCase<'_>, String> {
        let num = |k: &str| v[k].as_u64().unwrap_or(0) as usize;
        Ok(IoCase { ty: v["ty"].as_str().ok_or("replay: ty")?, rot: v["rot"].as_u64().ok_or("replay: rot")? as usize, fill: num("fill"), b: num("b") })
    }
}

/// both IO families for one case; gives back what the round trip wrote
fn check_io<const D: usize>(acc: &mut Acc, dims: [usize; D], case: IoCase) -> Option<Written> {
    let (written, r) = match case.run(dims, false) {
        Ok(w) => (Some(w), Ok(())),
        Err(m) => (None, Err(m)),
    };
    acc.check("io_roundtrip", 2 * product(&dims) as u64 + 3, r, || case.sig(&dims), || case.replay(&dims));
    acc.check("write_format", 1, case.run(dims, true).map(|_| ()), || case.sig(&dims), || case.replay(&dims));
    written
}

// ---------------------------------------------------------------------------------------------
// the Reader's side of the round trip: where in the Reader's input the tensors' text lies and in what pieces the
// source delivers it (families io_short_reads, io_reader_refill)

/// what a `Pieces` source saw of the Reader
#[derive(Default)]
struct ReadLog {
    /// length of the buffer offered by the first `read` call (= how much the Reader can hold)
    first_request: usize,
    /// stream offsets (strictly inside the stream) at which a later `read` call started: the places where the
    /// Reader had used up what it held and went back to its source
    resumed_at: Vec<usize>,
}

/// A source that delivers `data` in pieces, as a pipe or a socket may (short reads are within the `Read`
/// contract): the first call gives at most `first` bytes (0: no special first piece), every later call at most
/// `piece` bytes (0: all the rest); a call never gives less than that unless the caller's buffer or the data end.
struct Pieces<'a> {
    data: &'a [u8],
    pos: usize,
    calls: usize,
    first: usize,
    piece: usize,
    log: &'a RefCell<ReadLog>,
}

impl std::io::Read for Pieces<'_> {
    fn read(&mut self, buf: &mut [u8]) -> std::io::Result<usize> {
        let mut log = self.log.borrow_mut();
        if self.calls == 0 {
            log.first_request = buf.len();
        } else if self.pos < self.data.len() {
            log.resumed_at.push(self.pos);
        }
        let limit = match (self.calls, self.first, self.piece) {
            (0, f, _) if f > 0 => f,
            (_, _, 0) => usize::MAX,
            (_, _, p) => p,
        };
        self.calls += 1;
        let n = limit.min(buf.len()).min(self.data.len() - self.pos);
        buf[..n].copy_from_slice(&self.data[self.pos..self.pos + n]);
        self.pos += n;
        Ok(n)
    }
}

/// The Reader's buffer size, observed: the length of the buffer a fresh Reader offers its source in the first
/// `read` call (what the Reader then makes of the input is not judged here).  None if it never asks.
fn observe_reader_buffer() -> Option<usize> {
    let log = RefCell::new(ReadLog::default());
    let _ = catch(|| Reader::new(Box::new(Pieces { data: b"x y", pos: 0, calls: 0, first: 0, piece: 0, log: &log })).read::<String>());
    let b = log.borrow().first_request;
    (b > 0).then_some(b)
}

struct ReadObs {
    /// everything the Writer produced: the padding token and its newline (if any), tensor A, a newline, tensor B
    stream: Vec<u8>,
    /// offset of tensor A's text in the stream
    tensor_at: usize,
    log: ReadLog,
}

/// words for a failure message: how the Reader got the text
fn delivered(pad: usize, first: usize, piece: usize) -> String {
    let mut s = String::new();
    if pad > 0 {
        s.push_str(&format!("after a token of {pad} bytes and a newline read through the same Reader, "));
    }
    match (first, piece) {
        (0, 0) => s.push_str("from a source that gives all it has in every read"),
        (f, 0) => s.push_str(&format!("from a source that gives {f} bytes in its first read and the rest in the second")),
        (0, p) => s.push_str(&format!("from a source that gives {p} byte(s) per read")),
        (f, p) => s.push_str(&format!("from a source that gives {f} bytes in its first read and then {p} byte(s) per read")),
    }
    s
}

/// Through ONE real Writer: a padding token of `pad` filler bytes and a newline (if pad > 0), tensor A, a newline,
/// tensor B.  Through ONE real Reader over a `Pieces` source of that stream: the padding token (a String), then
/// Tensor::read with the same shape twice.  The token and both tensors must come back as written.
fn atom_read_stream<T: Clone + PartialEq + Debug + Readable + Writable, const D: usize>(dims: [usize; D], a: &[T], b: &[T], pad: usize, first: usize, piece: usize) -> Result<ReadObs, String> {
    let head = format!("shape {}: ", cd(&dims));
    let build = |d: &[T]| catch(|| Tensor::<T, D>::from_vec(dims, d.to_vec())).map_err(|p| format!("{head}from_vec panicked: {p}"));
    let (ta, tb) = (build(a)?, build(b)?);
    let pad_token = String::from_utf8(vec![FILLER; pad]).unwrap();
    let mut stream: Vec<u8> = Vec::with_capacity(pad + 64);
    catch(|| {
        let mut w = Writer::new(Box::new(&mut stream));
        if pad > 0 {
            w.write(&pad_token);
            w.write_char('\n');
        }
        w.write(&ta);
        w.write_char('\n');
        w.write(&tb);
    })
    .map_err(|p| format!("{head}writing two tensors through one Writer panicked: {p}"))?;
    let tensor_at = if pad > 0 { pad + 1 } else { 0 };
    let how = delivered(pad, first, piece);
    let text = show(&stream[tensor_at.min(stream.len())..]);
    let log = RefCell::new(ReadLog::default());
    let (token, xa, xb) = catch(|| {
        let mut r = Reader::new(Box::new(Pieces { data: &stream, pos: 0, calls: 0, first, piece, log: &log }));
        let token = (pad > 0).then(|| r.read::<String>());
        let xa = Tensor::<T, D>::read(dims, &mut r);
        let xb = Tensor::<T, D>::read(dims, &mut r);
        (token, xa, xb)
    })
    .map_err(|p| format!("{head}wrote two tensors, text {text}; reading them back {how} panicked: {p}"))?;
    if let Some(tk) = token {
        if tk != pad_token {
            return Err(format!("{head}the {pad}-byte token written before the tensors came back as {} ({} bytes) when read {how}", brief(&tk), tk.len()));
        }
    }
    for (which, back, t, data) in [("first", &xa, &ta, a), ("second", &xb, &tb, b)] {
        if back.dims() != &dims {
            return Err(format!("{head}the {which} tensor read back reports dims {}", cd(back.dims())));
        }
        let got = data_of(back);
        if got.as_slice() != data {
            let k = first_diff(&got, data);
            return Err(format!(
                "{head}wrote two tensors, text {text}, and read them back with the same shape {how}: the {which} tensor has {} elements, its element #{k} is {}, written was {}",
                got.len(),
                brief(&got.get(k)),
                brief(&data.get(k))
            ));
        }
        match catch(|| back == t && t == back) {
            Ok(true) => {}
            other => return Err(format!("{head}the {which} tensor read back {how} has the same shape and elements but `==` gives {other:?}")),
        }
    }
    Ok(ReadObs { stream, tensor_at, log: log.into_inner() })
}

/// element kinds of the Reader-side families: the IO_TYPES, every other integer width the Reader parses, and a
/// tuple element (a String token followed by an integer token)
const TUPLE_TYPE: &str = "(String,i128)";
const READ_TYPES: &[&str] = &["i32", "u64", "u128", "i128", "String", TUPLE_TYPE, "i8", "i16", "i64", "isize", "u8", "u16", "u32", "usize"];
/// the first of them get the padding sweep for every shape, the others for shapes of at most LONG_MAX_ELEMS elements
const READ_TYPES_SWEPT_FOR_EVERY_SHAPE: usize = 6;

/// boundary values of an integer type: the extremes of every width that fit (longest tokens first, so the first
/// rotation starts with a minus sign and many digits where the type has them), then short ones
fn int_vals<T: TryFrom<i128>>() -> Vec<T> {
    let mut c: Vec<i128> = vec![];
    for bits in [64u32, 63, 32, 31, 16, 15, 8, 7] {
        let p = 1i128 << bits;
        c.extend([-p, p - 1, 1 - p, p]);
    }
    c.extend([0, 1, -1, 9, 10, -10, 99, 100, -100]);
    c.into_iter().filter_map(|x| T::try_from(x).ok()).collect()
}

fn tuple_vals() -> Vec<(String, i128)> {
    let s = str_vals();
    i128_vals().into_iter().enumerate().map(|(k, x)| (s[k % s.len()].clone(), x)).collect()
}

/// `$f(list, args)` with the value list of the element kind named `$ty` (`$f` is generic in the element type and
/// returns a Result<_, String>)
macro_rules! by_read_type {
    ($ty:expr, $f:ident ( $($a:expr),* )) => {
        match $ty {
            "i32" => $f(I32_VALS, $($a),*),
            "u64" => $f(U64_VALS, $($a),*),
            "u128" => $f(&u128_vals(), $($a),*),
            "i128" => $f(&i128_vals(), $($a),*),
            "String" => $f(&str_vals(), $($a),*),
            TUPLE_TYPE => $f(&tuple_vals(), $($a),*),
            "i8" => $f(&int_vals::<i8>(), $($a),*),
            "i16" => $f(&int_vals::<i16>(), $($a),*),
            "i64" => $f(&int_vals::<i64>(), $($a),*),
            "isize" => $f(&int_vals::<isize>(), $($a),*),
            "u8" => $f(&int_vals::<u8>(), $($a),*),
            "u16" => $f(&int_vals::<u16>(), $($a),*),
            "u32" => $f(&int_vals::<u32>(), $($a),*),
            "usize" => $f(&int_vals::<usize>(), $($a),*),
            other => Err(format!("unknown element type {other}")),
        }
    };
}

/// One case of the Reader-side families besides the shape: tensor A holds rotation `rot` of the element kind's
/// value list and tensor B continues the list where A stops; see atom_read_stream for pad / first / piece.
#[derive(Clone, Copy)]
struct ReadCase<'a> {
    ty: &'a str,
    rot: usize,
    pad: usize,
    first: usize,
    piece: usize,
}

impl ReadCase<'_> {
    fn on<T: Clone + PartialEq + Debug + Readable + Writable, const D: usize>(&self, dims: [usize; D], list: &[T]) -> Result<ReadObs, String> {
        let n = product(&dims);
        atom_read_stream(dims, &rotated(list, n, self.rot), &rotated(list, n, self.rot + n), self.pad, self.first, self.piece)
    }

    fn run<const D: usize>(&self, dims: [usize; D]) -> Result<ReadObs, String> {
        fn go<T: Clone + PartialEq + Debug + Readable + Writable, const D: usize>(list: &[T], c: &ReadCase, dims: [usize; D]) -> Result<ReadObs, String> {
            c.on(dims, list)
        }
        by_read_type!(self.ty, go(self, dims))
    }

    fn sig(&self, dims: &[usize]) -> String {
        let mut s = format!("{}:{}:rot={}", self.ty, cd(dims), self.rot);
        for (name, x) in [("pad", self.pad), ("cut", self.first), ("piece", self.piece)] {
            if x > 0 {
                s.push_str(&format!(":{name}={x}"));
            }
        }
        s
    }

    fn replay(&self, dims: &[usize]) -> Value {
        json!({"rank": dims.len(), "dims": dims, "ty": self.ty, "rot": self.rot, "pad": self.pad, "first": self.first, "piece": self.piece})
    }

    fn from_replay(v: &Value) -> Result<ReadCase<'_>, String> {
        let num = |k: &str| v[k].as_u64().map(|x| x as usize).ok_or(format!("replay: {k}"));
        let c = ReadCase { ty: v["ty"].as_str().ok_or("replay: ty")?, rot: num("rot")?, pad: num("pad")?, first: num("first")?, piece: num("piece")? };
        if c.pad > 1 << 24 {
            return Err("replay: implausible padding".into());
        }
        Ok(c)
    }
}

/// how far the Reader-side families go (by tier)
struct ReadPlan {
    /// access-history families run on shapes of at most this many elements
    history_max_elems: usize,
    /// observed Reader buffer size (0: could not be observed, io_reader_refill is left out and the run cannot end
    /// with a clean verdict)
    rb: usize,
    /// positions at the head and at the tail of a long text that get a cut of a two-piece source
    window: usize,
    /// positions at the head and at the tail of a long text that get the Reader's refill (longer than the longest
    /// integer token with its separators)
    refill_window: usize,
    /// texts up to this length are cut in two at EVERY position
    all_cuts_up_to: usize,
    /// uniform piece sizes 1..=max_piece
    max_piece: usize,
}

/// positions 0..=len of a text: all of them if len <= all_up_to, else the first and the last `window` ones
fn positions(len: usize, window: usize, all_up_to: usize) -> Vec<usize> {
    if len <= all_up_to.max(2 * window) {
        (0..=len).collect()
    } else {
        (0..=window).chain(len - window..=len).collect()
    }
}

/// where the Reader went back to its source, by what stands on either side of the place.  Keys, in order: strictly
/// inside an integer token, right behind an integer's minus sign, strictly inside a String token, right before
/// a token, right after a token, between two separator bytes.
type CutKeys = [&'static str; 6];
const SHORT_CUTS: CutKeys = [
    "short_reads_cut_inside_integer_token",
    "short_reads_cut_behind_minus_sign",
    "short_reads_cut_inside_string_token",
    "short_reads_cut_right_before_token",
    "short_reads_cut_right_after_token",
    "short_reads_cut_between_separators",
];
const REFILL_CUTS: CutKeys = [
    "refill_inside_integer_token",
    "refill_behind_minus_sign",
    "refill_inside_string_token",
    "refill_right_before_token",
    "refill_right_after_token",
    "refill_between_separators",
];

fn classify_cuts(acc: &mut Acc, keys: &CutKeys, ty: &str, obs: &ReadObs) {
    let s = &obs.stream;
    let ws = |i: usize| s[i].is_ascii_whitespace();
    // one pass over the text along the (ascending) places: `started` = tokens of the text that start before `next`
    let (mut next, mut started) = (obs.tensor_at, 0usize);
    for &c in &obs.log.resumed_at {
        if c == 0 || c < obs.tensor_at || c >= s.len() {
            // inside the padding: not a place in the tensors' text
            continue;
        }
        while next < c {
            if !ws(next) && (next == 0 || ws(next - 1)) {
                started += 1;
            }
            next += 1;
        }
        let key = match (ws(c - 1), ws(c)) {
            (true, true) => keys[5],
            (true, false) => keys[3],
            (false, true) => keys[4],
            (false, false) => {
                // the token around the place is number started-1; in the tuple kind tokens alternate String, integer
                let integer = ty != "String" && (ty != TUPLE_TYPE || (started - 1) % 2 == 1);
                match (integer, s[c - 1]) {
                    (true, b'-') => keys[1],
                    (true, _) => keys[0],
                    (false, _) => keys[2],
                }
            }
        };
        acc.add(key, 1);
    }
}

/// both Reader-side families for one shape and one element kind
fn sweep_reads<T: Clone + PartialEq + Debug + Readable + Writable, const D: usize>(list: &[T], acc: &mut Acc, dims: [usize; D], ty: &'static str, sweep_pad: bool, plan: &ReadPlan) -> Result<(), String> {
    let n = product(&dims);
    let evals = 4 * n as u64 + 5;
    let run = |acc: &mut Acc, fam: &'static str, keys: &CutKeys, c: ReadCase| -> Option<ReadObs> {
        let r = c.on(dims, list);
        if let Ok(obs) = &r {
            classify_cuts(acc, keys, ty, obs);
        }
        let obs = match r {
            Ok(o) => (Some(o), Ok(())),
            Err(m) => (None, Err(m)),
        };
        acc.check(fam, evals, obs.1, || c.sig(&dims), || c.replay(&dims));
        obs.0
    };
    let case = |rot: usize, pad: usize, first: usize, piece: usize| ReadCase { ty, rot, pad, first, piece };
    acc.add("read_type_shape_combinations", 1);

    // the whole text in one read
    let Some(plain) = run(acc, "io_short_reads", &SHORT_CUTS, case(0, 0, 0, 0)) else { return Ok(()) };
    let len = plain.stream.len();
    if plan.rb > 0 && plain.log.first_request != plan.rb {
        acc.add("reader_offered_another_buffer_size_than_observed", 1);
    }

    // two pieces, cut at every position (long texts: at every position near the head and near the tail)
    for cut in positions(len, plan.window, plan.all_cuts_up_to) {
        if cut > 0 && cut < len {
            acc.add("short_reads_two_piece_cases", 1);
            run(acc, "io_short_reads", &SHORT_CUTS, case(0, 0, cut, 0));
        }
    }
    // k bytes per read
    for piece in 1..=plan.max_piece {
        run(acc, "io_short_reads", &SHORT_CUTS, case(0, 0, 0, piece));
    }
    // small shapes: every value of the list at every position, 1, 2, 3 bytes per read
    if n <= LONG_MAX_ELEMS {
        for rot in 1..list.len() {
            for piece in 1..=3 {
                run(acc, "io_short_reads", &SHORT_CUTS, case(rot, 0, 0, piece));
            }
        }
    }

    // a source that fills the Reader's buffer: a padding token before the tensors puts the Reader's first refill
    // at position p of the tensors' text (p = len: the input ends exactly where the buffer does)
    if sweep_pad && plan.rb > 0 {
        for p in positions(len, plan.refill_window, 0) {
            if p + 2 > plan.rb {
                continue;
            }
            let pad = plan.rb - 1 - p;
            acc.add("reader_refill_cases", 1);
            if let Some(obs) = run(acc, "io_reader_refill", &REFILL_CUTS, case(0, pad, 0, 0)) {
                if p == len && obs.stream.len() == plan.rb && obs.log.resumed_at.is_empty() {
                    acc.add("refill_met_end_of_input", 1);
                } else if obs.log.resumed_at == [pad + 1 + p] {
                    acc.add("refill_at_the_planned_position", 1);
                }
            }
        }
    }
    Ok(())
}

/// equal shape and equal elements (built three different ways) must compare equal
fn atom_eq_same<const D: usize>(dims: [usize; D]) -> Result<(), String> {
    let n = product(&dims);
    let vals: Vec<E> = (0..n).map(val).collect();
    let a = build(dims)?;
    let b = catch(|| Tensor::<E, D>::from_slice(dims, &vals)).map_err(|p| format!("from_slice panicked: {p}"))?;
    let c = build_new_writes(dims)?;
    let d = a.clone();
    let r = catch(|| [a == b, b == a, a == c, c == a, a == d, !(a != b)]).map_err(|p| format!("== panicked: {p}"))?;
    if r.iter().all(|&x| x) {
        Ok(())
    } else {
        Err(format!(
            "shape {}: tensors with the same shape and the same elements must be equal; [from_vec==from_slice, from_slice==from_vec, from_vec==new+writes, new+writes==from_vec, t==t.clone(), !(a!=b)] = {r:?}",
            cd(&dims)
        ))
    }
}

/// same shape, exactly storage element k different: must compare unequal
fn atom_eq_changed<const D: usize>(dims: [usize; D], k: usize) -> Result<(), String> {
    let n = product(&dims);
    let a = build(dims)?;
    let mut v: Vec<E> = (0..n).map(val).collect();
    v[k] = SENTINEL;
    let b = catch(|| Tensor::<E, D>::from_vec(dims, v)).map_err(|p| format!("from_vec panicked: {p}"))?;
    match catch(|| (a == b, b == a)) {
        Ok((false, false)) => Ok(()),
        other => Err(format!("shape {}: two tensors that differ in storage element #{k} only: (a==b, b==a) = {other:?}, expected both false", cd(&dims))),
    }
}

/// same rank, different shape: must compare unequal (interesting when the element counts are equal and
/// the elements are the same)
fn atom_eq_shape<const D: usize>(da: [usize; D], db: [usize; D]) -> Result<(), String> {
    let a = build(da)?;
    let b = build(db)?;
    match catch(|| (a == b, b == a)) {
        Ok((false, false)) => Ok(()),
        other => Err(format!(
            "Tensor::from_vec({}, 10,11,…) and Tensor::from_vec({}, 10,11,…) have different shapes ({} and {} elements, identical element sequence where the counts agree) and must not be equal; (a==b, b==a) = {other:?}",
            cd(&da),
            cd(&db),
            product(&da),
            product(&db)
        )),
    }
}

// ---------------------------------------------------------------------------------------------
// copies: tensors obtained through Clone::clone / Clone::clone_from

/// what a clone_from target holds before the call: distinct values, none of them a source value 10+k
fn stale(k: usize) -> E {
    5000 + k as E
}

/// number of comparisons `examine_copy` makes for a copy of this shape
fn copy_evals<const D: usize>(dims: &[usize; D]) -> u64 {
    let n = product(dims);
    let oob: usize = dims.iter().map(|d| n / d).sum();
    (1 + D + 3 * n + oob + 2 + (n + 2) + (n + 1)) as u64
}

/// `c` is supposed to be an exact copy of `src` = from_vec(dims, 10,11,…).  Everything the property says of a
/// tensor of shape `dims` is demanded of it: dims()/dim(i); iter() and every valid index (Index, get_index)
/// give the row-major sequence; every index with one coordinate equal to its extent (the others over all
/// valid values) is rejected; `==` with the source both ways; write -> Tensor::read with the source's shape
/// gives a tensor equal to the source; a write through IndexMut at the last index changes exactly the last
/// storage element.
fn examine_copy<const D: usize>(mut c: Tensor<E, D>, src: &Tensor<E, D>, dims: &[usize; D], how: &str) -> Result<(), String> {
    let n = product(dims);
    match catch(|| *c.dims()) {
        Ok(d) if d == *dims => {}
        other => return Err(format!("{how}: dims() of the copy gives {other:?}, the source has shape {}", cd(dims))),
    }
    for i in 0..D {
        match catch(|| c.dim(i)) {
            Ok(d) if d == dims[i] => {}
            other => return Err(format!("{how}: dim({i}) of the copy gives {other:?}, the source has shape {}", cd(dims))),
        }
    }
    expect_all(&c, dims, how, &val)?;
    let idxs = all_indices(dims);
    for (k, idx) in idxs.iter().enumerate() {
        atom_get_index(&c, dims, *idx, k).map_err(|m| format!("{how}: {m}"))?;
    }
    for j in 0..D {
        let mut others = *dims;
        others[j] = 1;
        for r in all_indices(&others) {
            let mut idx = r;
            idx[j] = dims[j];
            if catch(|| c[idx]).is_ok() {
                // the plain atom words the failure (and says which element is aliased)
                return Err(format!("{how}: {}", atom_oob(&c, dims, "index", idx).err().unwrap_or_else(|| "an out-of-range index was accepted".into())));
            }
        }
    }
    match catch(|| (c == *src, *src == c)) {
        Ok((true, true)) => {}
        other => return Err(format!("{how}: the copy has the source's shape {} and elements, but (copy == source, source == copy) = {other:?}", cd(dims))),
    }
    let text = write_one(&c).map_err(|m| format!("{how}: writing the copy: {m}"))?;
    let back = catch(|| {
        let mut r = Reader::new(Box::new(&text[..]));
        Tensor::<E, D>::read(*dims, &mut r)
    })
    .map_err(|p| format!("{how}: Tensor::read of the text written from the copy, {}, panicked: {p}", show(&text)))?;
    let got = data_of(&back);
    if got.len() != n || got.iter().enumerate().any(|(k, x)| *x != val(k)) || !matches!(catch(|| back == *src), Ok(true)) {
        return Err(format!("{how}: the copy was written as {} and read back with shape {}: not equal to the source (elements read: {} of {n})", show(&text), cd(dims), got.len()));
    }
    let last = idxs[n - 1];
    catch(|| {
        c[last] = SENTINEL;
    })
    .map_err(|p| format!("{how}: copy[{}] = x panicked on a valid index: {p}", cd(&last)))?;
    let got = data_of(&c);
    if got.len() != n || got.iter().enumerate().any(|(k, x)| *x != if k == n - 1 { SENTINEL } else { val(k) }) {
        let changed: Vec<usize> = (0..got.len().min(n)).filter(|&k| got[k] != val(k)).collect();
        return Err(format!("{how}: copy[{}] = {SENTINEL} must change exactly storage element #{}; elements changed: {changed:?} (storage length {})", cd(&last), n - 1, got.len()));
    }
    Ok(())
}

fn atom_clone<const D: usize>(dims: [usize; D]) -> Result<(), String> {
    let src = build(dims)?;
    let how = format!("Tensor::from_vec({}, 10,11,…).clone()", cd(&dims));
    let c = catch(|| src.clone()).map_err(|p| format!("{how} panicked: {p}"))?;
    examine_copy(c, &src, &dims, &how)
}

/// `dst.clone_from(&src)`: afterwards dst must be what `src.clone()` is, whatever dst was before
fn atom_clone_from<const D: usize>(dst_dims: [usize; D], src_dims: [usize; D]) -> Result<(), String> {
    let src = build(src_dims)?;
    let nd = product(&dst_dims);
    let how = format!("dst = from_vec({}, 5000,5001,…); dst.clone_from(&from_vec({}, 10,11,…))", cd(&dst_dims), cd(&src_dims));
    let mut dst = catch(|| Tensor::<E, D>::from_vec(dst_dims, (0..nd).map(stale).collect())).map_err(|p| format!("shape {}: from_vec panicked: {p}", cd(&dst_dims)))?;
    catch(|| dst.clone_from(&src)).map_err(|p| format!("{how} panicked: {p}"))?;
    examine_copy(dst, &src, &src_dims, &how)
}

// ---------------------------------------------------------------------------------------------
// element types: the clauses that need no IO, for degenerate instantiations of T

/// An element type for the families elem_*.  Tensors are built of nth(0), nth(1), …; `alt(k)` is what a changed
/// element k (and a clone_from target before the call) holds.
trait Elem: Clone + PartialEq + Debug {
    const NAME: &'static str;
    fn nth(k: usize) -> Self;
    /// a value different from nth(k); None if the type has a single value
    fn alt(k: usize) -> Option<Self>;
}

/// zero-sized like `()`, but a user-defined type with derived impls
#[derive(Clone, PartialEq, Debug)]
struct Unit;

/// 24 bytes; nth and alt differ in the LAST field only
#[derive(Clone, PartialEq, Debug)]
struct Wide {
    a: u64,
    b: u64,
    c: u64,
}

const _: () = assert!(std::mem::size_of::<()>() == 0 && std::mem::size_of::<Unit>() == 0 && std::mem::size_of::<Wide>() == 24);

impl Elem for () {
    const NAME: &'static str = "()";
    fn nth(_: usize) {}
    fn alt(_: usize) -> Option<()> {
        None
    }
}
impl Elem for Unit {
    const NAME: &'static str = "Unit";
    fn nth(_: usize) -> Unit {
        Unit
    }
    fn alt(_: usize) -> Option<Unit> {
        None
    }
}
impl Elem for bool {
    const NAME: &'static str = "bool";
    fn nth(k: usize) -> bool {
        k % 3 == 0
    }
    fn alt(k: usize) -> Option<bool> {
        Some(k % 3 != 0)
    }
}
impl Elem for u8 {
    const NAME: &'static str = "u8";
    /// 255, 254, …, 0, 255, …
    fn nth(k: usize) -> u8 {
        255 - (k % 256) as u8
    }
    fn alt(k: usize) -> Option<u8> {
        Some(Self::nth(k) ^ 0x80)
    }
}
impl Elem for Wide {
    const NAME: &'static str = "Wide24";
    fn nth(k: usize) -> Wide {
        Wide { a: k as u64, b: !(k as u64), c: 7 }
    }
    fn alt(k: usize) -> Option<Wide> {
        Some(Wide { c: 8, ..Self::nth(k) })
    }
}
impl Elem for String {
    const NAME: &'static str = "String";
    fn nth(k: usize) -> String {
        format!("s{k}")
    }
    fn alt(k: usize) -> Option<String> {
        Some(format!("s{k}'"))
    }
}

const ELEM_TYPES: &[&str] = &["()", "Unit", "bool", "u8", "Wide24", "String"];

/// `$f::<T, $d>(args)` for the element type named `$ty` (`$f` returns a Result<_, String>)
macro_rules! by_elem {
    ($ty:expr, $f:ident, $d:ident ( $($a:expr),* )) => {
        match $ty {
            "()" => $f::<(), $d>($($a),*),
            "Unit" => $f::<Unit, $d>($($a),*),
            "bool" => $f::<bool, $d>($($a),*),
            "u8" => $f::<u8, $d>($($a),*),
            "Wide24" => $f::<Wide, $d>($($a),*),
            "String" => $f::<String, $d>($($a),*),
            other => Err(format!("unknown element type {other}")),
        }
    };
}

fn elem_seq<T: Elem>(n: usize) -> Vec<T> {
    (0..n).map(T::nth).collect()
}

/// what a changed tensor / a clone_from target holds: alt(k) where the type has a second value
fn elem_alt_seq<T: Elem>(n: usize) -> Vec<T> {
    (0..n).map(|k| T::alt(k).unwrap_or_else(|| T::nth(k))).collect()
}

fn elem_build<T: Elem, const D: usize>(dims: [usize; D], data: Vec<T>) -> Result<Tensor<T, D>, String> {
    let len = data.len();
    catch(|| Tensor::from_vec(dims, data)).map_err(|p| format!("Tensor::<{}, {D}>::from_vec({}, {len} values) panicked: {p}", T::NAME, cd(&dims)))
}

/// every index with exactly one coordinate out of range (= its extent, or usize::MAX), the others over all
/// valid values
fn oob_probes<const D: usize>(dims: &[usize; D]) -> Vec<[usize; D]> {
    let mut out = vec![];
    for j in 0..D {
        let mut others = *dims;
        others[j] = 1;
        for r in all_indices(&others) {
            for bad in [dims[j], usize::MAX] {
                let mut idx = r;
                idx[j] = bad;
                out.push(idx);
            }
        }
    }
    out
}

/// `t` is supposed to have shape `dims` and hold `want` row-major: dims(); iter(); every valid index through
/// Index and get_index; with `probes`, every index of `oob_probes` is rejected by Index and get_index.
/// Returns the number of comparisons made.
fn elem_examine<T: Elem, const D: usize>(t: &Tensor<T, D>, dims: &[usize; D], want: &[T], probes: bool, how: &str) -> Result<u64, String> {
    match catch(|| *t.dims()) {
        Ok(d) if d == *dims => {}
        other => return Err(format!("{how}: dims() gives {other:?}, expected {}", cd(dims))),
    }
    let got = catch(|| data_of(t)).map_err(|p| format!("{how}: iter() panicked: {p}"))?;
    if got != want {
        let k = first_diff(&got, want);
        return Err(format!("{how}: iter() gives {} elements, expected {}; element #{k} is {:?}, expected {:?}", got.len(), want.len(), got.get(k), want.get(k)));
    }
    let mut evals = 2;
    for (k, idx) in all_indices(dims).into_iter().enumerate() {
        match catch(|| t[idx].clone()) {
            Ok(v) if v == want[k] => {}
            other => return Err(format!("{how}: t[{}] gives {other:?}, expected row-major element #{k} = {:?}", cd(&idx), want[k])),
        }
        match catch(|| t.get_index(idx)) {
            Ok(o) if o == k => {}
            other => return Err(format!("{how}: get_index({}) gives {other:?}, expected {k}", cd(&idx))),
        }
        evals += 2;
    }
    if probes {
        for idx in oob_probes(dims) {
            if let Ok(v) = catch(|| t[idx].clone()) {
                return Err(format!("{how}: index {} is out of range in one dimension of shape {} but t[idx] read {v:?} instead of panicking", cd(&idx), cd(dims)));
            }
            if let Ok(o) = catch(|| t.get_index(idx)) {
                return Err(format!("{how}: index {} is out of range in one dimension of shape {} but get_index returned {o} instead of panicking", cd(&idx), cd(dims)));
            }
            evals += 2;
        }
    }
    Ok(evals)
}

const ELEM_CTORS: &[&str] = &["from_vec", "from_slice", "new_writes"];

/// construct one of three ways, examine, then writes through IndexMut: rejected at every out-of-range probe,
/// and at every valid index changing exactly that element (types with a second value)
fn atom_elem_index<T: Elem, const D: usize>(dims: [usize; D], ctor: &str) -> Result<u64, String> {
    let n = product(&dims);
    let want: Vec<T> = elem_seq(n);
    let idxs = all_indices(&dims);
    let how = format!("Tensor<{}, {D}> of shape {} built by {ctor}", T::NAME, cd(&dims));
    let mut t = match ctor {
        "from_vec" => elem_build(dims, want.clone())?,
        "from_slice" => catch(|| Tensor::<T, D>::from_slice(dims, &want)).map_err(|p| format!("{how}: from_slice with {n} values panicked: {p}"))?,
        "new_writes" => {
            let init = T::alt(0).unwrap_or_else(|| T::nth(0));
            let mut t = catch(|| Tensor::<T, D>::new(dims, init.clone())).map_err(|p| format!("{how}: new panicked on a valid shape: {p}"))?;
            elem_examine(&t, &dims, &vec![init; n], false, &format!("{how}, before the writes"))?;
            // written in REVERSE index order, so the result does not depend on the order of writes
            for (k, idx) in idxs.iter().enumerate().rev() {
                catch(|| t[*idx] = T::nth(k)).map_err(|p| format!("{how}: t[{}] = x panicked on a valid index: {p}", cd(idx)))?;
            }
            t
        }
        _ => return Err(format!("unknown constructor {ctor}")),
    };
    let mut evals = elem_examine(&t, &dims, &want, true, &how)?;
    for idx in oob_probes(&dims) {
        if catch(|| t[idx] = T::nth(0)).is_ok() {
            return Err(format!("{how}: index {} is out of range in one dimension but t[idx] = x did not panic", cd(&idx)));
        }
        evals += 1;
    }
    if data_of(&t) != want {
        return Err(format!("{how}: the rejected out-of-range writes changed the tensor"));
    }
    for (k, idx) in idxs.iter().enumerate() {
        let Some(x) = T::alt(k) else { break };
        let mut c = t.clone();
        catch(|| c[*idx] = x.clone()).map_err(|p| format!("{how}: t[{}] = x panicked on a valid index: {p}", cd(idx)))?;
        let got = data_of(&c);
        if got.len() != n || (0..n).any(|j| got[j] != *if j == k { &x } else { &want[j] }) {
            let changed: Vec<usize> = (0..got.len().min(n)).filter(|&j| got[j] != want[j]).collect();
            return Err(format!("{how}: t[{}] = {x:?} must change exactly storage element #{k}; elements changed: {changed:?} (storage length {})", cd(idx), got.len()));
        }
        evals += n as u64;
    }
    Ok(evals)
}

/// equal shape and equal elements: a tensor and itself, its clone, one rebuilt from a slice
fn atom_elem_eq_same<T: Elem, const D: usize>(dims: [usize; D]) -> Result<u64, String> {
    let seq: Vec<T> = elem_seq(product(&dims));
    let a = elem_build(dims, seq.clone())?;
    let b = catch(|| Tensor::<T, D>::from_slice(dims, &seq)).map_err(|p| format!("from_slice panicked: {p}"))?;
    let c = catch(|| a.clone()).map_err(|p| format!("clone panicked: {p}"))?;
    #[allow(clippy::eq_op)]
    let r = catch(|| [a == a, !(a != a), a == b, b == a, a == c, c == a, !(a != b)]).map_err(|p| format!("== panicked: {p}"))?;
    if r.iter().all(|&x| x) {
        Ok(r.len() as u64)
    } else {
        Err(format!(
            "Tensor<{}, {D}> of shape {}: tensors with the same shape and the same elements must be equal; [t==t, !(t!=t), from_vec==from_slice, from_slice==from_vec, t==t.clone(), t.clone()==t, !(from_vec!=from_slice)] = {r:?}",
            T::NAME,
            cd(&dims)
        ))
    }
}

/// same shape, exactly storage element k different (types with a second value)
fn atom_elem_eq_changed<T: Elem, const D: usize>(dims: [usize; D], k: usize) -> Result<u64, String> {
    let x = T::alt(k).ok_or_else(|| format!("replay: {} has a single value", T::NAME))?;
    let a = elem_build(dims, elem_seq::<T>(product(&dims)))?;
    let mut v: Vec<T> = elem_seq(product(&dims));
    v[k] = x;
    let b = elem_build(dims, v)?;
    match catch(|| (a == b, b == a, a != b)) {
        Ok((false, false, true)) => Ok(3),
        other => Err(format!("Tensor<{}, {D}> of shape {}: two tensors that differ in storage element #{k} only: (a==b, b==a, a!=b) = {other:?}, expected (false, false, true)", T::NAME, cd(&dims))),
    }
}

/// same rank, different shape, the same element sequence (as far as the shorter one goes): never equal.  Also
/// reports whether the two live tensors' element storage had the SAME address (zero-sized elements).
fn atom_elem_eq_shape<T: Elem, const D: usize>(da: [usize; D], db: [usize; D]) -> Result<(u64, bool), String> {
    let a = elem_build(da, elem_seq::<T>(product(&da)))?;
    let b = elem_build(db, elem_seq::<T>(product(&db)))?;
    let same_address = a.iter().as_slice().as_ptr() == b.iter().as_slice().as_ptr();
    match catch(|| (a == b, b == a, a != b)) {
        Ok((false, false, true)) => Ok((3, same_address)),
        other => Err(format!(
            "Tensor<{}, {D}> of shape {} ({} elements) and of shape {} ({} elements) have different shapes and must not be equal; (a==b, b==a, a!=b) = {other:?}, expected (false, false, true)",
            T::NAME,
            cd(&da),
            product(&da),
            cd(&db),
            product(&db)
        )),
    }
}

/// `c` is supposed to be an independent copy of `src` (shape `dims`, elements nth(0), nth(1), …): it is examined
/// like a constructed tensor, equals the source both ways, and a write into it (types with a second value)
/// makes the two unequal and leaves the source as it was
fn elem_examine_copy<T: Elem, const D: usize>(mut c: Tensor<T, D>, src: &Tensor<T, D>, dims: &[usize; D], probes: bool, how: &str) -> Result<u64, String> {
    let n = product(dims);
    let want: Vec<T> = elem_seq(n);
    let mut evals = elem_examine(&c, dims, &want, probes, how)?;
    match catch(|| (c == *src, *src == c)) {
        Ok((true, true)) => {}
        other => return Err(format!("{how}: the copy has the source's shape {} and elements, but (copy == source, source == copy) = {other:?}", cd(dims))),
    }
    evals += 2;
    if let Some(x) = T::alt(n - 1) {
        let last = all_indices(dims)[n - 1];
        catch(|| c[last] = x).map_err(|p| format!("{how}: copy[{}] = x panicked on a valid index: {p}", cd(&last)))?;
        if data_of(src) != want {
            return Err(format!("{how}: a write into the copy at {} changed the source", cd(&last)));
        }
        match catch(|| (c == *src, *src == c)) {
            Ok((false, false)) => {}
            other => return Err(format!("{how}: after the copy's last element was changed, (copy == source, source == copy) = {other:?}")),
        }
        evals += 3;
    }
    Ok(evals)
}

fn atom_elem_clone<T: Elem, const D: usize>(dims: [usize; D]) -> Result<u64, String> {
    let src = elem_build(dims, elem_seq::<T>(product(&dims)))?;
    let how = format!("Tensor<{}, {D}> of shape {}: t.clone()", T::NAME, cd(&dims));
    let c = catch(|| src.clone()).map_err(|p| format!("{how} panicked: {p}"))?;
    elem_examine_copy(c, &src, &dims, true, &how)
}

/// `dst.clone_from(&src)` for a target of any shape of the same rank (the bounds checks of copies are examined
/// in elem_clone and, for every ordered pair, in clone_from; here: shape, elements, equality, independence)
fn atom_elem_clone_from<T: Elem, const D: usize>(dst_dims: [usize; D], src_dims: [usize; D]) -> Result<u64, String> {
    let src = elem_build(src_dims, elem_seq::<T>(product(&src_dims)))?;
    let mut dst = elem_build(dst_dims, elem_alt_seq::<T>(product(&dst_dims)))?;
    let how = format!("Tensor<{}, {D}>: dst of shape {} (other values); dst.clone_from(&src of shape {})", T::NAME, cd(&dst_dims), cd(&src_dims));
    catch(|| dst.clone_from(&src)).map_err(|p| format!("{how} panicked: {p}"))?;
    elem_examine_copy(dst, &src, &src_dims, false, &how)
}

/// the elem_* families of one shape for one element type
fn check_elem<T: Elem, const D: usize>(acc: &mut Acc, dv: &[usize], peers: &[Vec<usize>], me: usize) {
    let dims: [usize; D] = to_arr(dv);
    let n = product(&dims);
    let ty = T::NAME;
    let rp = |extra: Value| -> Value {
        let mut v = json!({"rank": D, "dims": dv, "ty": ty});
        v.as_object_mut().unwrap().extend(extra.as_object().cloned().unwrap_or_default());
        v
    };
    acc.add("elem_type_shape_combinations", 1);
    for ctor in ELEM_CTORS {
        acc.check_counted("elem_index", atom_elem_index::<T, D>(dims, ctor), || format!("{ty}:{ctor}:{}", cd(dv)), || rp(json!({"ctor": ctor})));
    }
    acc.check_counted("elem_eq", atom_elem_eq_same::<T, D>(dims), || format!("{ty}:same:{}", cd(dv)), || rp(json!({"kind": "same"})));
    if T::alt(0).is_some() {
        for k in 0..n {
            acc.check_counted("elem_eq", atom_elem_eq_changed::<T, D>(dims, k), || format!("{ty}:changed:{}:#{k}", cd(dv)), || rp(json!({"kind": "changed", "k": k})));
        }
    } else {
        acc.add("elem_eq_changed_skipped_single_valued_type", n as u64);
    }
    for other in &peers[me + 1..] {
        let r = atom_elem_eq_shape::<T, D>(dims, to_arr(other));
        if matches!(r, Ok((_, true))) {
            acc.add("elem_eq_shape_pairs_with_the_same_storage_address", 1);
        }
        acc.add(if product(other) == n { "elem_eq_shape_pairs_equal_count" } else { "elem_eq_shape_pairs_different_count" }, 1);
        acc.check_counted("elem_eq", r.map(|(e, _)| e), || format!("{ty}:shape:{}vs{}", cd(dv), cd(other)), || rp(json!({"kind": "shape", "other": other})));
    }
    acc.check_counted("elem_clone", atom_elem_clone::<T, D>(dims), || format!("{ty}:{}", cd(dv)), || rp(json!({})));
    for target in peers {
        acc.check_counted(
            "elem_clone_from",
            atom_elem_clone_from::<T, D>(to_arr(target), dims),
            || format!("{ty}:{}<-{}", cd(target), cd(dv)),
            || rp(json!({"dst": target})),
        );
    }
}

// ---------------------------------------------------------------------------------------------
// accumulator

#[derive(Default)]
struct Acc {
    n: BTreeMap<&'static str, u64>,
    firsts: Vec<(&'static str, Violation)>,
    texts: BTreeSet<u64>,
    samples: Vec<Value>,
    flags: BTreeSet<&'static str>,
}

impl Acc {
    fn add(&mut self, k: &'static str, v: u64) {
        *self.n.entry(k).or_insert(0) += v;
    }
    fn get(&self, k: &str) -> u64 {
        self.n.get(k).copied().unwrap_or(0)
    }
    fn has(&self, fam: &str) -> bool {
        self.firsts.iter().any(|(f, _)| *f == fam)
    }
    /// evaluate one atom result: count it, record the family's first failure
    fn check(&mut self, fam: &'static str, evals: u64, r: Result<(), String>, sig: impl FnOnce() -> String, replay: impl FnOnce() -> Value) {
        self.add("evaluations", evals);
        self.add(fam, 1);
        if let Err(m) = r {
            self.add("failed_cases", 1);
            if !self.has(fam) {
                let mut rp = replay();
                rp["family"] = json!(fam);
                self.firsts.push((fam, Violation::new(format!("{fam}:{}", sig()), m, rp)));
            }
        }
    }
    /// `check` for an atom that returns the number of comparisons it made
    fn check_counted(&mut self, fam: &'static str, r: Result<u64, String>, sig: impl FnOnce() -> String, replay: impl FnOnce() -> Value) {
        self.check(fam, *r.as_ref().unwrap_or(&1), r.map(|_| ()), sig, replay)
    }
    fn merge(&mut self, o: Acc) {
        for (k, v) in o.n {
            *self.n.entry(k).or_insert(0) += v;
        }
        for (f, v) in o.firsts {
            if !self.has(f) {
                self.firsts.push((f, v));
            }
        }
        self.texts.extend(o.texts);
        self.samples.extend(o.samples);
        self.flags.extend(o.flags);
    }
}

// ---------------------------------------------------------------------------------------------
// enumeration for one shape

fn to_arr<const D: usize>(v: &[usize]) -> [usize; D] {
    let mut a = [0usize; D];
    a.copy_from_slice(v);
    a
}

fn check_shape<const D: usize>(dv: &[usize], peers: &[Vec<usize>], me: usize, fills: &Fills, plan: &ReadPlan) -> Acc {
    let mut acc = Acc::default();
    let dims: [usize; D] = to_arr(dv);
    let n = product(&dims);
    let st = strides(&dims);
    let idxs = all_indices(&dims);
    acc.add("shapes", 1);
    // reference self-check: odometer position == sum idx*stride, and the odometer is complete
    if idxs.len() != n || idxs.iter().enumerate().any(|(k, i)| flat(i, &st) != k) {
        acc.add("reference_selfcheck_failures", 1);
    }
    let rp = |extra: Value| -> Value {
        let mut v = json!({"rank": D, "dims": dv});
        if let (Some(o), Some(e)) = (v.as_object_mut(), extra.as_object()) {
            for (k, x) in e {
                o.insert(k.clone(), x.clone());
            }
        }
        v
    };

    // from_vec on the valid shape
    let built = build(dims);
    let base = match built {
        Ok(t) => {
            acc.check("from_vec_valid", 1, Ok(()), String::new, || json!(null));
            t
        }
        Err(m) => {
            acc.check("from_vec_valid", 1, Err(m), || cd(dv), || rp(json!({})));
            return acc;
        }
    };

    // every atom below gets a tensor nothing has touched yet (exactly what its replay builds)
    let fresh = || build(dims);

    // index_row_major, get_index (value k for the k-th index => distinct indices address distinct elements)
    for (k, idx) in idxs.iter().enumerate() {
        acc.check("index_row_major", 1, fresh().and_then(|t| atom_index(&t, &dims, *idx, k)), || format!("{}:{}", cd(dv), cd(idx)), || rp(json!({"idx": idx.to_vec()})));
        acc.check("get_index", 1, fresh().and_then(|t| atom_get_index(&t, &dims, *idx, k)), || format!("{}:{}", cd(dv), cd(idx)), || rp(json!({"idx": idx.to_vec()})));
        if flat_colmajor(idx, &dims) != k {
            acc.add("valid_indices_layout_sensitive", 1);
        }
    }
    acc.add("valid_indices", n as u64);

    // other constructors, iteration
    acc.check("from_slice", 2 * n as u64 + 1, atom_from_slice(dims), || cd(dv), || rp(json!({})));
    acc.check("new_writes", 5 * n as u64 + 1, atom_new_writes(dims), || cd(dv), || rp(json!({})));
    for which in ITER_KINDS {
        let ev = if *which == "iter_mut" { 3 * n as u64 } else { n as u64 };
        acc.check("iter_order", ev, atom_iter(&base, &dims, which), || format!("{which}:{}", cd(dv)), || rp(json!({"which": which})));
    }

    // a write through IndexMut changes exactly that element
    for (k, idx) in idxs.iter().enumerate() {
        acc.check(
            "index_mut_writes_one",
            n as u64 + 2,
            fresh().and_then(|t| atom_write_one(&t, &dims, *idx, k)),
            || format!("{}:{}", cd(dv), cd(idx)),
            || rp(json!({"idx": idx.to_vec()})),
        );
    }

    // out of range in exactly one dimension
    let mut first_inside: Option<[usize; D]> = None;
    let mut first_inside_outcomes: Vec<String> = vec![];
    for j in 0..D {
        let mut others = dims;
        others[j] = 1;
        let rest = all_indices(&others);
        for bad in [dims[j], dims[j] + 1, usize::MAX] {
            for r in &rest {
                let mut idx = *r;
                idx[j] = bad;
                let inside = flat(&idx, &st) < n;
                acc.add("oob_indices", 1);
                if inside {
                    acc.add("oob_indices_flat_offset_inside_storage", 1);
                    if bad == usize::MAX {
                        acc.add("oob_indices_inside_storage_by_wraparound", 1);
                    }
                    if first_inside.is_none() {
                        first_inside = Some(idx);
                    }
                }
                for op in OOB_OPS {
                    let r = fresh().and_then(|t| atom_oob(&t, &dims, op, idx));
                    if first_inside == Some(idx) {
                        first_inside_outcomes.push(format!("{op}: {}", if r.is_ok() { "panicked" } else { "DID NOT PANIC" }));
                    }
                    acc.check(
                        "oob_panics",
                        1,
                        r,
                        || format!("{op}:{}:{}", cd(dv), cd(&idx)),
                        || rp(json!({"op": op, "idx": idx.to_vec()})),
                    );
                    if inside {
                        acc.add("oob_panics_checked_with_offset_inside_storage", 1);
                    }
                }
            }
        }
    }

    // access history: the same out-of-range probes as the second access on one object
    let with_history = n <= plan.history_max_elems;
    if with_history {
        acc.add("shapes_with_access_history", 1);
    }
    let seq = |acc: &mut Acc, fam: &'static str, steps: &[Step<D>]| {
        acc.check(fam, steps.len() as u64, atom_seq(&dims, steps), || format!("{}:{}", cd(dv), steps_sig(steps)), || rp(json!({"steps": steps_json(steps)})));
    };
    let mut corner_oob: Vec<[usize; D]> = vec![];
    for j in 0..D {
        let mut c = [0usize; D];
        c[j] = dims[j];
        corner_oob.push(c);
    }
    for j in 0..D {
        let mut others = dims;
        others[j] = 1;
        let rest = if with_history { all_indices(&others) } else { vec![] };
        for bad in [dims[j], dims[j] + 1, usize::MAX] {
            for r in &rest {
                let mut idx = *r;
                idx[j] = bad;
                for op in OOB_OPS {
                    let Some(op) = route_name(op) else { continue };
                    let probe = Step { op, idx };
                    // (b) after each single valid access, through each route
                    for prior in &idxs {
                        for route in ROUTES {
                            seq(&mut acc, "oob_after_access", &[Step { op: route, idx: *prior }, probe]);
                        }
                        if prior[..D - 1] == idx[..D - 1] {
                            acc.add("oob_after_access_same_row", ROUTES.len() as u64);
                        }
                    }
                    // (c) after a rejected attempt: the same index again, and each corner probe, through each route
                    for pop in OOB_OPS {
                        let Some(pop) = route_name(pop) else { continue };
                        seq(&mut acc, "oob_after_rejected", &[Step { op: pop, idx }, probe]);
                        for c in &corner_oob {
                            seq(&mut acc, "oob_after_rejected", &[Step { op: pop, idx: *c }, probe]);
                        }
                    }
                }
            }
        }
    }
    // bijection with history: every ordered pair of valid indices (equal ones too), every pair of routes
    for a in idxs.iter().filter(|_| with_history) {
        for b in &idxs {
            for ra in ROUTES {
                for rb in ROUTES {
                    seq(&mut acc, "access_pairs", &[Step { op: ra, idx: *a }, Step { op: rb, idx: *b }]);
                }
            }
        }
    }

    // wrong data length
    let mut lens = vec![0usize, n - 1, n + 1];
    lens.sort();
    lens.dedup();
    lens.retain(|&l| l != n);
    for len in lens {
        for op in LEN_OPS {
            acc.check(
                "ctor_rejects_bad_len",
                1,
                atom_bad_len(op, dims, len),
                || format!("{op}:{}:len={len}", cd(dv)),
                || rp(json!({"op": op, "len": len})),
            );
        }
    }

    // IO round trip + text layout through a fresh Writer
    let mut sample_text = None;
    for ty in IO_TYPES {
        for rot in 0..IoCase::list_len(ty) {
            if let Some(w) = check_io(&mut acc, dims, IoCase { ty, rot, fill: 0, b: 0 }) {
                let text = &w.text;
                acc.texts.insert(fnv(text));
                if text.windows(3).any(|w| w == b"\n\n\n") {
                    acc.flags.insert("text_with_three_newlines");
                }
                if text.windows(2).any(|w| w == b"\n\n") {
                    acc.flags.insert("text_with_two_newlines");
                }
                let s = String::from_utf8_lossy(text);
                if s.contains("-2147483648") {
                    acc.flags.insert("wrote_i32_min");
                }
                if s.contains("18446744073709551615") {
                    acc.flags.insert("wrote_u64_max");
                }
                if *ty == "i32" && rot == 0 {
                    sample_text = Some(show(text));
                }
            }
        }
    }
    // the same with earlier output pending in the Writer (first rotation of every list)
    for ty in IO_TYPES {
        for &fill in &fills.levels {
            acc.add("io_cases_with_pending_output", 1);
            let Some(w) = check_io(&mut acc, dims, IoCase { ty, rot: 0, fill, b: 0 }) else { continue };
            if let Some(p) = w.boundary(fill) {
                // the piece of the tensor's text that did not fit any more and forced the flush
                if w.first_write == fills.b {
                    acc.add("flush_found_buffer_exactly_full", 1);
                }
                acc.add(
                    match w.text[p] {
                        b' ' => "flush_forced_by_space",
                        b'\n' => "flush_forced_by_newline",
                        b'-' if *ty != "String" => "flush_forced_by_minus_sign",
                        _ => "flush_forced_by_element",
                    },
                    1,
                );
            }
        }
    }
    // small shapes: elements as long as the Writer's buffer, at every position
    if n <= LONG_MAX_ELEMS {
        for rot in 0..IoCase::list_len(LONG_TYPE) {
            acc.add("io_cases_with_buffer_sized_elements", 1);
            if let Some(w) = check_io(&mut acc, dims, IoCase { ty: LONG_TYPE, rot, fill: 0, b: fills.b }) {
                if w.first_write == fills.b && w.text.len() > fills.b {
                    acc.add("buffer_sized_element_texts_delivered_in_several_writes", 1);
                }
            }
        }
    }
    // the Reader's side: short reads of the source, and the Reader's own refill, at every place of the text
    for (k, ty) in READ_TYPES.iter().enumerate() {
        let sweep_pad = k < READ_TYPES_SWEPT_FOR_EVERY_SHAPE || n <= LONG_MAX_ELEMS;
        if let Err(m) = by_read_type!(*ty, sweep_reads(&mut acc, dims, ty, sweep_pad, plan)) {
            panic!("{m}");
        }
    }
    acc.add("skipped_out_of_domain", STR_CANDIDATES.iter().filter(|s| !str_in_domain(s)).count() as u64);

    // equality
    acc.check("eq_data", 6, atom_eq_same(dims), || format!("same:{}", cd(dv)), || rp(json!({"kind": "same"})));
    for k in 0..n {
        acc.check("eq_data", 2, atom_eq_changed(dims, k), || format!("changed:{}:#{k}", cd(dv)), || rp(json!({"kind": "changed", "k": k})));
    }
    for other in &peers[me + 1..] {
        let db: [usize; D] = to_arr(other);
        let same_count = product(&db) == n;
        acc.check("eq_shape", 2, atom_eq_shape(dims, db), || format!("{}vs{}", cd(dv), cd(other)), || rp(json!({"other": other})));
        acc.add(if same_count { "eq_shape_pairs_equal_count_equal_data" } else { "eq_shape_pairs_different_count" }, 1);
    }

    // copies: clone of this shape; clone_from of this shape INTO every shape of the same rank (itself included)
    acc.check("clone", 1 + copy_evals(&dims), atom_clone(dims), || cd(dv), || rp(json!({})));
    for target in peers {
        let dd: [usize; D] = to_arr(target);
        acc.check("clone_from", 1 + copy_evals(&dims), atom_clone_from(dd, dims), || format!("{}<-{}", cd(target), cd(dv)), || rp(json!({"dst": target})));
        let nd = product(&dd);
        acc.add(
            if dd == dims {
                "clone_from_target_same_shape"
            } else if nd == n {
                "clone_from_target_other_shape_equal_count"
            } else if nd > n {
                "clone_from_target_more_elements"
            } else {
                "clone_from_target_fewer_elements"
            },
            1,
        );
    }

    // the clauses that need no IO, for the degenerate element types (simplest type first)
    check_elem::<(), D>(&mut acc, dv, peers, me);
    check_elem::<Unit, D>(&mut acc, dv, peers, me);
    check_elem::<bool, D>(&mut acc, dv, peers, me);
    check_elem::<u8, D>(&mut acc, dv, peers, me);
    check_elem::<Wide, D>(&mut acc, dv, peers, me);
    check_elem::<String, D>(&mut acc, dv, peers, me);

    let last = idxs[n - 1];
    acc.samples.push(json!({
        "shape": dv,
        "elements": n,
        "last_valid_index": last.to_vec(),
        "reads_storage_element": n - 1,
        "first_out_of_range_index_with_offset_inside_storage": first_inside.map(|i| cd(&i)),
        "its_observed_outcomes": first_inside_outcomes,
        "written_text_i32": sample_text,
    }));
    acc
}

/// every shape of rank D with extents 0..=e that contains a zero extent
fn check_zero<const D: usize>(e: usize) -> Acc {
    let mut acc = Acc::default();
    // the odometer over a box of side e+1 yields every D-tuple with coordinates 0..=e
    for dims in all_indices(&[e + 1; D]) {
        if !dims.contains(&0) {
            continue;
        }
        acc.add("zero_extent_shapes", 1);
        for op in ZERO_OPS {
            acc.check(
                "ctor_rejects_zero_extent",
                1,
                atom_ctor_zero(op, dims),
                || format!("{op}:{}", cd(&dims)),
                || json!({"rank": D, "dims": dims.to_vec(), "op": op}),
            );
        }
    }
    acc
}

macro_rules! by_rank {
    ($d:expr, $f:ident ( $($a:expr),* )) => {
        match $d {
            1 => $f::<1>($($a),*),
            2 => $f::<2>($($a),*),
            3 => $f::<3>($($a),*),
            4 => $f::<4>($($a),*),
            r => panic!("rank {r} is not instantiated"),
        }
    };
}

// ---------------------------------------------------------------------------------------------
// plain re-execution of one recorded case

fn usizes(v: &Value) -> Result<Vec<usize>, String> {
    v.as_array().ok_or("replay: expected an array")?.iter().map(|x| x.as_u64().map(|u| u as usize).ok_or_else(|| "replay: expected an integer".to_string())).collect()
}

fn confirm_d<const D: usize>(v: &Value) -> Result<(), String> {
    let fam = v["family"].as_str().unwrap_or("");
    let dv = usizes(&v["dims"])?;
    if dv.len() != D {
        return Err("replay: dims do not match the rank".into());
    }
    let dims: [usize; D] = to_arr(&dv);
    let op = v["op"].as_str().unwrap_or("");
    let idx = || -> Result<[usize; D], String> {
        let i = usizes(&v["idx"])?;
        if i.len() != D {
            return Err("replay: idx does not match the rank".into());
        }
        Ok(to_arr(&i))
    };
    if fam == "ctor_rejects_zero_extent" {
        return atom_ctor_zero(op, dims);
    }
    if dims.contains(&0) {
        return Err("replay: zero extent in a case that needs a valid shape".into());
    }
    let st = strides(&dims);
    match fam {
        "from_vec_valid" => build(dims).map(|_| ()),
        "index_row_major" => {
            let i = idx()?;
            atom_index(&build(dims)?, &dims, i, flat(&i, &st))
        }
        "get_index" => {
            let i = idx()?;
            atom_get_index(&build(dims)?, &dims, i, flat(&i, &st))
        }
        "from_slice" => atom_from_slice(dims),
        "new_writes" => atom_new_writes(dims),
        "iter_order" => atom_iter(&build(dims)?, &dims, v["which"].as_str().unwrap_or("")),
        "index_mut_writes_one" => {
            let i = idx()?;
            atom_write_one(&build(dims)?, &dims, i, flat(&i, &st))
        }
        "oob_panics" => atom_oob(&build(dims)?, &dims, op, idx()?),
        "oob_after_access" | "oob_after_rejected" | "access_pairs" => {
            let mut steps: Vec<Step<D>> = vec![];
            for sv in v["steps"].as_array().ok_or("replay: steps")? {
                let i = usizes(&sv["idx"])?;
                if i.len() != D {
                    return Err("replay: step idx does not match the rank".into());
                }
                steps.push(Step { op: route_name(sv["op"].as_str().unwrap_or("")).ok_or("replay: unknown route")?, idx: to_arr(&i) });
            }
            atom_seq(&dims, &steps)
        }
        "ctor_rejects_bad_len" => atom_bad_len(op, dims, v["len"].as_u64().ok_or("replay: len")? as usize),
        "io_roundtrip" | "write_format" => IoCase::from_replay(v)?.run(dims, fam == "write_format").map(|_| ()),
        "io_short_reads" | "io_reader_refill" => ReadCase::from_replay(v)?.run(dims).map(|_| ()),
        "eq_data" => match v["kind"].as_str() {
            Some("same") => atom_eq_same(dims),
            _ => atom_eq_changed(dims, v["k"].as_u64().ok_or("replay: k")? as usize),
        },
        "eq_shape" => {
            let o = usizes(&v["other"])?;
            if o.len() != D || o.contains(&0) {
                return Err("replay: bad second shape".into());
            }
            atom_eq_shape(dims, to_arr(&o))
        }
        "clone" => atom_clone(dims),
        "clone_from" => {
            let o = usizes(&v["dst"])?;
            if o.len() != D || o.contains(&0) {
                return Err("replay: bad target shape".into());
            }
            atom_clone_from(to_arr(&o), dims)
        }
        "elem_index" | "elem_eq" | "elem_clone" | "elem_clone_from" => by_elem!(v["ty"].as_str().unwrap_or(""), confirm_elem, D(v, dims)),
        other => Err(format!("replay: unknown family {other:?}")),
    }
}

fn confirm_elem<T: Elem, const D: usize>(v: &Value, dims: [usize; D]) -> Result<(), String> {
    let shape = |key: &str| -> Result<[usize; D], String> {
        let o = usizes(&v[key])?;
        if o.len() != D || o.contains(&0) {
            return Err(format!("replay: bad shape in {key:?}"));
        }
        Ok(to_arr(&o))
    };
    match (v["family"].as_str().unwrap_or(""), v["kind"].as_str().unwrap_or("")) {
        ("elem_index", _) => atom_elem_index::<T, D>(dims, v["ctor"].as_str().unwrap_or("")),
        ("elem_eq", "same") => atom_elem_eq_same::<T, D>(dims),
        ("elem_eq", "changed") => {
            let k = v["k"].as_u64().ok_or("replay: k")? as usize;
            if k >= product(&dims) {
                return Err("replay: k is not a storage position".into());
            }
            atom_elem_eq_changed::<T, D>(dims, k)
        }
        ("elem_eq", "shape") => atom_elem_eq_shape::<T, D>(dims, shape("other")?).map(|(e, _)| e),
        ("elem_clone", _) => atom_elem_clone::<T, D>(dims),
        ("elem_clone_from", _) => atom_elem_clone_from::<T, D>(shape("dst")?, dims),
        (f, k) => Err(format!("replay: unknown case {f:?} {k:?}")),
    }
    .map(|_| ())
}

fn confirm(v: &Value) -> Result<(), String> {
    let rank = v["rank"].as_u64().unwrap_or(0) as usize;
    if !(1..=4).contains(&rank) {
        return Err(format!("replay: rank {rank} is not instantiated"));
    }
    by_rank!(rank, confirm_d(v))
}

// ---------------------------------------------------------------------------------------------

const FAMILIES: &[&str] = &[
    "from_vec_valid",
    "index_row_major",
    "get_index",
    "from_slice",
    "new_writes",
    "iter_order",
    "index_mut_writes_one",
    "oob_panics",
    "oob_after_access",
    "oob_after_rejected",
    "access_pairs",
    "ctor_rejects_zero_extent",
    "ctor_rejects_bad_len",
    "io_roundtrip",
    "write_format",
    "io_short_reads",
    "io_reader_refill",
    "eq_data",
    "eq_shape",
    "clone",
    "clone_from",
    "elem_index",
    "elem_eq",
    "elem_clone",
    "elem_clone_from",
];

fn main() {
    let args = Args::parse();
    quiet_panics();
    if args.replay.is_some() {
        Run::replay_main(&args, &confirm);
    }
    let mut run = Run::new(&args, "tensor", "exploration");
    let max_extent: usize = args.tier.pick(4, 5);
    const MAX_RANK: usize = 4;

    if catch(|| panic!("probe")).is_ok() {
        run.machinery_failure("catch() does not observe panics");
    }

    // the Writer's buffer size, observed (twice: the Writer has no state outside the object)
    let fills = match (observe_buffer_size(), observe_buffer_size()) {
        (Some(b), Some(b2)) if b == b2 && b >= 2 * FILL_WINDOW_MAX => Fills::new(b, args.tier.pick(64, FILL_WINDOW_MAX)),
        other => run.machinery_failure(&format!(
            "could not observe a plausible Writer buffer size by feeding single bytes until the sink receives a write: {other:?} (a build that flushes after every write? this engine is built without debug assertions)"
        )),
    };

    // the Reader's buffer size, observed the same way
    // (a Reader that does not even ask its source plausibly is for the round-trip families to judge, not for this
    // observation: the run goes on without io_reader_refill and may end with a violation, never with OK)
    let observed_rb = (observe_reader_buffer(), observe_reader_buffer());
    let rb = match observed_rb {
        (Some(rb), Some(rb2)) if rb == rb2 && rb >= 4 * FILL_WINDOW_MAX => rb,
        _ => 0,
    };
    let plan = ReadPlan { history_max_elems: args.tier.pick(36, usize::MAX), rb, window: args.tier.pick(64, 128), refill_window: args.tier.pick(48, 128), all_cuts_up_to: args.tier.pick(512, 2048), max_piece: args.tier.pick(44, 64) };

    // shapes, simplest first: rank, element count, lexicographic
    let mut per_rank: Vec<Vec<Vec<usize>>> = vec![];
    for d in 1..=MAX_RANK {
        let mut v: Vec<Vec<usize>> = vec![];
        let total = max_extent.pow(d as u32);
        for code in 0..total {
            let mut c = code;
            let mut s = vec![0usize; d];
            for j in (0..d).rev() {
                s[j] = 1 + c % max_extent;
                c /= max_extent;
            }
            v.push(s);
        }
        v.sort_by(|a, b| (product(a), a).cmp(&(product(b), b)));
        per_rank.push(v);
    }
    let jobs: Vec<(usize, usize)> = per_rank.iter().enumerate().flat_map(|(r, v)| (0..v.len()).map(move |i| (r, i))).collect();
    let expected_shapes: u64 = (1..=MAX_RANK).map(|d| max_extent.pow(d as u32) as u64).sum();

    // one accumulator per shape, computed in parallel, merged in enumeration order
    let accs: Vec<Acc> = jobs
        .par_iter()
        .map(|&(r, i)| {
            let peers = &per_rank[r];
            by_rank!(r + 1, check_shape(&peers[i], peers, i, &fills, &plan))
        })
        .collect();
    let mut total = Acc::default();
    let mut per_rank_inside = vec![0u64; MAX_RANK];
    let mut per_rank_eqpairs = vec![0u64; MAX_RANK];
    const TARGET_CLASSES: [&str; 4] =
        ["clone_from_target_same_shape", "clone_from_target_other_shape_equal_count", "clone_from_target_more_elements", "clone_from_target_fewer_elements"];
    let mut per_rank_targets = vec![[0u64; 4]; MAX_RANK];
    for (a, &(r, _)) in accs.into_iter().zip(jobs.iter()) {
        per_rank_inside[r] += a.get("oob_indices_flat_offset_inside_storage");
        per_rank_eqpairs[r] += a.get("eq_shape_pairs_equal_count_equal_data");
        for (c, name) in TARGET_CLASSES.iter().enumerate() {
            per_rank_targets[r][c] += a.get(name);
        }
        total.merge(a);
    }
    let mut expected_zero = 0u64;
    for d in 1..=MAX_RANK {
        total.merge(by_rank!(d, check_zero(max_extent)));
        expected_zero += ((max_extent + 1).pow(d as u32) - max_extent.pow(d as u32)) as u64;
    }

    // violations: first per family, families in a fixed order
    for fam in FAMILIES {
        if let Some((_, v)) = total.firsts.iter().find(|(f, _)| f == fam) {
            run.violation(v.clone());
        }
    }

    // coverage
    for (k, v) in &total.n {
        run.cov(k, *v);
    }
    let nontrivial = total.get("oob_indices_flat_offset_inside_storage") + total.get("valid_indices_layout_sensitive");
    run.cov("distinct_nontrivial", nontrivial);
    run.cov("distinct_written_texts", total.texts.len() as u64);
    run.cov("oob_inside_storage_by_rank", json!(per_rank_inside));
    run.cov("eq_shape_equal_count_pairs_by_rank", json!(per_rank_eqpairs));
    run.cov("clone_from_targets_by_rank_same_shape_equal_count_more_fewer", json!(per_rank_targets));
    run.cov("observed_writer_buffer_size", fills.b as u64);
    run.cov("writer_fill_levels", json!({"besides_0_from": fills.levels[0], "to": fills.levels[fills.levels.len() - 1], "count": fills.levels.len()}));
    run.cov("elem_types", json!(ELEM_TYPES));
    run.cov("observed_reader_buffer_size", plan.rb as u64);
    run.cov("read_types", json!(READ_TYPES));
    run.cov(
        "read_plan",
        json!({"two_piece_cut_at_every_position_of_texts_up_to": plan.all_cuts_up_to.max(2 * plan.window), "else_head_and_tail_positions": plan.window, "bytes_per_read_from_1_to": plan.max_piece, "refill_at_every_position_of_texts_up_to": 2 * plan.refill_window, "else_refill_head_and_tail_positions": plan.refill_window}),
    );
    run.cov("max_rank", MAX_RANK as u64);
    run.cov("history_max_elems", if plan.history_max_elems == usize::MAX { json!("unbounded") } else { json!(plan.history_max_elems) });
    run.cov("max_extent", max_extent as u64);
    run.cov("families", json!(FAMILIES));
    run.cov(
        "rule",
        "every shape of rank 1..=4 with extents 1..=max_extent (ordered by rank, element count, lexicographic); per shape: every valid multi-index (odometer, last coordinate fastest; the k-th must address storage element k of from_vec(10,11,…)) for Index, get_index and a write through IndexMut; from_slice, new + one write per index, iter/iter_mut/into_iter; every index with exactly one coordinate set to extent, extent+1 or usize::MAX and all other coordinates over all valid values, for get_index, Index and IndexMut (must panic), each on a tensor nothing has accessed before (every single-access case builds its own tensor); ACCESS HISTORY on the same object, for every shape of at most history_max_elems elements (36 quick, all shapes thorough; shapes_with_access_history counts them) (families oob_after_access, oob_after_rejected, access_pairs; counts under those keys, oob_after_access_same_row = those whose earlier access addressed the probe's row): a sequence of two accesses on ONE fresh tensor is judged step by step against a shadow copy of the storage - every one of those out-of-range probes through each of the three routes is repeated after EVERY single earlier valid access (every valid index, through each of the routes Index, IndexMut, get_index, write-then-read) and after an earlier rejected attempt (the same index and, per dimension, the index with that coordinate = extent and the others 0, through each route; the panic is caught), and must still panic and leave the storage unchanged; and every ORDERED pair of valid indices (equal ones included) x every ordered pair of routes is run as two consecutive accesses: each read sees what the shadow holds, get_index the row-major offset, each write changes exactly its own element; the replay carries the whole sequence and runs it on a fresh tensor; data lengths 0, n-1, n+1 for from_vec/from_slice (must panic); every shape with extents 0..=max_extent containing a 0 for new, from_vec(empty), from_slice(empty), Tensor::read (must panic); write→Tensor::read round trip and text layout for i32, u64, u128, i128 and String elements with every rotation of a boundary value list (the 128-bit lists hold every power of ten with its neighbours and values with zeros directly below a digit-group boundary); == for same shape same data, same shape one element changed (every position), and every unordered pair of distinct shapes of the same rank; copies: t.clone() for every shape and target.clone_from(&source) for every ORDERED pair of same-rank shapes (target of the same shape, of another shape with the same element count, with more elements, with fewer elements; the target holds 5000,5001,… before the call), the copy being examined like a constructed tensor: dims()/dim(i) are the source's, iter() and every valid index through Index and get_index give the row-major sequence, every index with one coordinate = its extent (others over all valid values) panics, copy == source both ways, write → Tensor::read with the source's shape gives the source back, a write through IndexMut at the last index changes exactly the last element. Writer history: io_roundtrip and write_format also run, for every shape and element type with the first rotation of its list, with `fill` bytes of earlier output ('#' filler) pending in the same Writer, for every fill in observed_writer_buffer_size-W..=observed_writer_buffer_size+1 (W = 64 quick, 256 thorough; the buffer size is observed by feeding single bytes until the sink is offered its first write): the filler must arrive intact, and the text after it must read back (from where the tensor starts) as the tensor and be the documented layout; flush_forced_by_* count the cases in which the sink's first write ended inside the tensor's text, by the piece (space, newline, minus sign, element) that no longer fitted. Buffer-sized elements: for every shape of at most 4 elements, io_roundtrip and write_format with every rotation of a String list that alternates short tokens with tokens of observed_writer_buffer_size-1, exactly that, and +1 bytes, so an element that cannot share the buffer with what was written before it stands at every position. Reader side (io_short_reads, io_reader_refill): for every shape and every element kind of read_types (i32, u64, u128, i128, String, a tuple (String, i128), and the other integer widths i8, i16, i64, isize, u8, u16, u32, usize with the extremes of every width that fit), tensor A (first rotation of the kind's list) and tensor B of the same shape (the list continued) go through ONE Writer, separated by a newline, and are read back through ONE Reader with Tensor::read twice; both must come back exactly. io_short_reads: the Reader's source is a `Read` that delivers the text in pieces: all at once; two pieces cut at EVERY position of the text (texts longer than read_plan.two_piece_cut_at_every_position_of_texts_up_to: every position among the first and the last else_head_and_tail_positions); k bytes per read for every k in 1..=bytes_per_read_from_1_to; and for shapes of at most 4 elements every rotation of the list with 1, 2 and 3 bytes per read, so every listed value is split behind every one of its bytes. io_reader_refill: the source fills the Reader's buffer completely, and a padding token ('#' filler, written through the same Writer and read as a String through the same Reader, must come back intact) and a newline before the tensors are sized from the OBSERVED Reader buffer size (length of the buffer a fresh Reader offers its source) so that the Reader's first refill falls at position p of the tensors' text, for every p in 0..=length (longer texts: the first and last else_refill_head_and_tail_positions; p = length: the input ends exactly where the buffer does); the first six kinds for every shape, the other widths for shapes of at most 4 elements. short_reads_cut_* / refill_* count the places where the Reader actually went back to its source (recorded by the source), by what stands on either side: strictly inside an integer token, right behind a minus sign, inside a String token, right before / right after a token, between two separator bytes. Element types (elem_*): for T in (), a unit struct, bool, u8, a 24-byte struct (values differ in the last field) and String, per shape: from_vec / from_slice / new + one write per index examined (dims(), iter(), every valid index through Index and get_index, every index with one coordinate = extent or usize::MAX rejected by Index, get_index and IndexMut without changing the tensor, a write at every valid index changes exactly that element); == of a tensor with itself, with its clone, with one rebuilt from a slice (true), with one element changed at every position (false; types with a second value), with every other shape of the same rank holding the same element sequence, equal or different element count (false, both ways, != true); clone() examined the same way and independent of its source; target.clone_from(&source) for every ORDERED pair of same-rank shapes (dims, elements, equality both ways, independence). distinct_nontrivial = MEASURED number of distinct (shape, out-of-range index) cases whose flattened offset sum idx*stride is still inside the storage (aliasing is possible without the per-dimension check) + distinct (shape, valid index) cases whose row-major offset differs from the column-major offset (a stride-order error is observable)",
    );
    run.cov("exhaustive", true);
    run.cov(
        "io_values_note",
        "the IO round trip cannot enumerate all element values: it uses boundary lists (16 i32 incl. MIN/MAX/negatives, 12 u64 incl. MAX and 10^19, about 190 u128 and 370 i128 values with every decimal digit structure, 11 ASCII tokens), every rotation of each list over every shape, so every listed value is written at every position of every shape; String elements as long as the Writer's buffer (B-1, B, B+1 bytes for the observed B) only in shapes of at most 4 elements; at the fill levels near the buffer boundary only the first rotation of each list",
    );

    // samples: rotate by VERIF_SEED
    let ns = total.samples.len();
    if ns > 0 {
        let step = (ns / 6).max(1);
        let start = (args.seed as usize) % ns;
        for k in 0..6 {
            run.sample(total.samples[(start + k * step + step / 2) % ns].clone());
        }
    }

    // non-vacuity self-checks
    if total.get("reference_selfcheck_failures") != 0 {
        run.machinery_failure("the reference odometer disagrees with sum idx*stride");
    }
    if total.get("shapes") != expected_shapes {
        run.machinery_failure("not all shapes were enumerated");
    }
    if total.get("zero_extent_shapes") != expected_zero {
        run.machinery_failure("not all zero-extent shapes were enumerated");
    }
    for r in 1..MAX_RANK {
        if per_rank_inside[r] == 0 {
            run.machinery_failure(&format!("rank {}: no out-of-range index with its flattened offset inside the storage was exercised", r + 1));
        }
        if per_rank_eqpairs[r] == 0 {
            run.machinery_failure(&format!("rank {}: no pair of different shapes with equal element count was compared", r + 1));
        }
    }
    let expected_pairs: u64 = per_rank.iter().map(|v| (v.len() * v.len()) as u64).sum();
    if total.get("clone_from") != expected_pairs || total.get("clone") != expected_shapes {
        run.machinery_failure("not every shape was cloned / not every ordered pair of same-rank shapes went through clone_from");
    }
    for r in 0..MAX_RANK {
        for (c, name) in TARGET_CLASSES.iter().enumerate() {
            // rank 1: two different shapes never have the same element count
            if per_rank_targets[r][c] == 0 && !(r == 0 && c == 1) {
                run.machinery_failure(&format!("rank {}: no clone_from case of class {name}", r + 1));
            }
        }
    }
    if total.get("oob_indices_inside_storage_by_wraparound") == 0 || total.get("valid_indices_layout_sensitive") == 0 {
        run.machinery_failure("no wrap-around probe / no layout-sensitive valid index was exercised");
    }
    if !total.has("io_roundtrip") && !total.has("write_format") {
        for f in ["text_with_three_newlines", "text_with_two_newlines", "wrote_i32_min", "wrote_u64_max"] {
            if !total.flags.contains(f) {
                run.machinery_failure(&format!("IO round trip never produced: {f}"));
            }
        }
        if total.texts.len() < 100 {
            run.machinery_failure("implausibly few distinct written texts");
        }
    }
    if !total.has("io_roundtrip") && !total.has("write_format") {
        for f in ["flush_forced_by_space", "flush_forced_by_newline", "flush_forced_by_minus_sign", "flush_forced_by_element", "flush_found_buffer_exactly_full"] {
            if total.get(f) == 0 {
                run.machinery_failure(&format!("no tensor written at a fill level near the buffer boundary had its text split there: {f} = 0"));
            }
        }
    }
    if !total.has("io_roundtrip") && !total.has("write_format") && total.get("buffer_sized_element_texts_delivered_in_several_writes") == 0 {
        run.machinery_failure("no text with a buffer-sized element reached the sink in several writes");
    }
    if total.get("read_type_shape_combinations") != expected_shapes * READ_TYPES.len() as u64 {
        run.machinery_failure("not every element kind of READ_TYPES went through the Reader-side families for every shape");
    }
    if total.get("reader_offered_another_buffer_size_than_observed") != 0 {
        run.machinery_failure("a Reader offered its source a first buffer of another length than the observed Reader buffer size");
    }
    if !total.has("io_short_reads") {
        for f in SHORT_CUTS {
            if total.get(f) == 0 {
                run.machinery_failure(&format!("no source with short reads made the Reader come back for more at such a place: {f} = 0"));
            }
        }
    }
    if plan.rb == 0 && total.firsts.is_empty() {
        run.machinery_failure(&format!("could not observe a plausible Reader buffer size (the length of the buffer a fresh Reader offers its source in the first read): {observed_rb:?}"));
    }
    // (the refill sweep of a shape and kind is skipped when its plain two-tensor round trip already fails)
    if plan.rb > 0 && !total.has("io_reader_refill") && !total.has("io_short_reads") {
        for f in REFILL_CUTS.iter().chain(&["refill_met_end_of_input", "refill_at_the_planned_position"]) {
            if total.get(f) == 0 {
                run.machinery_failure(&format!("no padded input made the Reader refill its full buffer at such a place of the tensors' text: {f} = 0"));
            }
        }
    }
    if total.get("io_cases_with_pending_output") != expected_shapes * (IO_TYPES.len() * fills.levels.len()) as u64 {
        run.machinery_failure("not every shape and element type was written at every fill level");
    }
    if total.get("elem_type_shape_combinations") != expected_shapes * ELEM_TYPES.len() as u64 {
        run.machinery_failure("not every element type of ELEM_TYPES went through the elem_* families for every shape");
    }
    if !total.has("elem_eq") && (total.get("elem_eq_shape_pairs_with_the_same_storage_address") == 0 || total.get("elem_eq_shape_pairs_equal_count") == 0) {
        run.machinery_failure("elem_eq: no pair of different tensors whose element storage has the same address (zero-sized elements) / no pair with equal element count");
    }
    if nontrivial < 2 {
        run.machinery_failure("no non-trivial case");
    }

    run.assume("write_format: the 'documented separators' are taken from the crate's own `output` test ([2,2,3] of 0..12 is written as \"0 1 2\\n3 4 5\\n\\n6 7 8\\n9 10 11\") and the property's anchor (spaces inside the last dimension, one more newline per outer dimension): elements of the last dimension joined by ' ', sub-blocks of a rank-k block joined by k-1 '\\n', nothing after the last element; each element's own text is whatever the real Writer delivers for that element written into an empty buffer and flushed. The property statement itself only demands the round trip (family io_roundtrip); write_format is a separate family");
    run.assume("io_roundtrip: String elements are restricted to non-empty tokens of printable non-space ASCII (the Reader is whitespace-separated and byte-oriented); empty, whitespace-containing and non-ASCII candidates are skipped and counted in skipped_out_of_domain");
    run.assume("clone / clone_from: the statement does not name Clone; a tensor obtained through the type's public Clone impl is taken to be a tensor in the statement's sense (it has a shape, dims(), and must index it row-major with per-dimension checks, iterate, write and read back, and compare accordingly), and `a.clone_from(&b)` is taken, per the std contract of Clone, to leave `a` equal to `b.clone()` — so the copy is held to the source's shape and elements. Nothing else about Clone (capacity reuse, allocation) is demanded");
    run.assume("equality across shapes can only be expressed for equal rank (different ranks are different types)");
    run.assume("Writer history: the statement's round trip is taken to hold wherever in a Writer's output the tensor is written (several results written through one Writer is the library's normal use); the text is read back from the position where the tensor starts, the filler itself is not parsed. Fill levels are enumerated only near the observed buffer boundary (and 0) and only for the first rotation of each value list; the Writer's own behaviour at all fill levels is C09's subject. This engine is built without debug assertions only (in a debug-assertions build the Writer flushes after every item and has no fill level)");
    run.assume("Reader side: the statement's round trip is taken to hold wherever in a Reader's input the tensor's text lies (several inputs read through one Reader is the library's normal use) and however the source delivers it: `std::io::Read` allows a read to return fewer bytes than asked for (pipes, sockets), and only a return of 0 means end of input; the piecewise source used here never returns 0 before the end and never fails. Two tensors and the padding token are separated by a single newline written with write_char, as a program printing several results would");
    run.assume("elem_*: the statement does not restrict the element type; T is taken to range over any type with the bounds the API asks for (Clone for new/from_slice, PartialEq for ==), including zero-sized ones. 'elements agree' is judged by T's own ==, and only element types with a reflexive == are used (no NaN-like values), so a tensor must equal itself and its clone. The IO round trip is not part of these families ((), the structs and bool have no Readable/Writable impl)");
    run.assume("a panic from the Vec bounds check counts as 'rejected with a panic' for out-of-range indices whose flattened offset is outside the storage; for offsets inside the storage only the per-dimension check can produce it");
    run.finish(&confirm)
}
