//! History: the same call after an EARLIER x87 operation on the same thread.
//!
//! f80 operations are pure functions of their operands, but the x87 they run on keeps per-thread state that
//! outlives an instruction: the six STICKY exception flags of the status word (invalid operation IE, denormal
//! operand DE, divide by zero ZE, overflow OE, underflow UE, inexact PE — set by an instruction, cleared only by
//! fnclex / fninit) and the condition bits C0..C3 left behind by the last compare.  None of it may reach a
//! result.  A call that takes part of its answer from that state is right on a thread that has not yet raised the
//! flag and wrong ever after; which cases a parallel enumeration then sees failing depends on what its worker
//! threads happened to run before, and a plain re-execution on a fresh thread never fails.  Here the history is
//! an explicit, enumerated dimension: every judged call is made on a fresh thread (fninit + the library's
//! f80_init()) after each member of a small alphabet of histories, and a replay record carries the history.
//!
//! The alphabet: (a) calls of the library itself that raise each exception class (`inf - inf`, `0 * inf`, `0 / 0`,
//! `NaN < 1`, `1 / 0`, `1 / 3`, overflow, underflow, denormal operands, the f64 conversions of such values) — what
//! a program using f80 does anyway; which flags each call leaves behind is read with fnstsw and reported, not
//! demanded (a library that clears the flags after itself is as correct as one that does not); (b) each of the six
//! flags, all six together, and the four condition bits, OR-ed into the status word by the engine's own
//! fnstenv / fldenv — independent of the code under test, and verified with fnstsw (a machinery failure if the
//! bits are not there), so the dimension is never vacuous.

use crate::engine::{execute, Op, Opd, Place};
use vcore::{catch, json, Value};

pub const IE: u16 = 0x0001;
pub const DE: u16 = 0x0002;
pub const ZE: u16 = 0x0004;
pub const OE: u16 = 0x0008;
pub const UE: u16 = 0x0010;
pub const PE: u16 = 0x0020;
pub const ALL_FLAGS: u16 = 0x003f;
/// C0, C1, C2, C3
pub const CONDITION_BITS: u16 = 0x4700;

/// The x87 status word of the calling thread.
pub fn status_word() -> u16 {
    let sw: u16;
    unsafe {
        core::arch::asm!("fnstsw ax", out("ax") sw, options(nomem, nostack));
    }
    sw
}

fn control_word() -> u16 {
    let mut cw: u16 = 0;
    unsafe {
        core::arch::asm!("fnstcw word ptr [{0}]", in(reg) &mut cw as *mut u16, options(nostack));
    }
    cw
}

/// OR `bits` into the status word of the calling thread (fnstenv, edit, fldenv); nothing else of the x87
/// environment changes.  Only done while all six exceptions are masked (a pending unmasked exception would trap at
/// the next x87 instruction); returns whether it was done.
fn or_into_status_word(bits: u16) -> bool {
    if control_word() & 0x3f != 0x3f {
        return false;
    }
    // the 28-byte protected-mode environment: control word at offset 0, status word at offset 4
    let mut env = [0u32; 7];
    unsafe {
        core::arch::asm!("fnstenv [{0}]", in(reg) env.as_mut_ptr(), options(nostack));
        env[1] |= bits as u32;
        // fnstenv masked every exception in the live control word; fldenv restores the stored one
        core::arch::asm!("fldenv [{0}]", in(reg) env.as_ptr(), options(nostack));
    }
    true
}

/// One history: what ran on the thread before the judged call.
#[derive(Clone, Copy, Debug, PartialEq, Eq)]
pub enum Prefix {
    /// one call of the library (its result is dropped)
    Call { op: Op, a: Opd, b: Opd },
    /// these bits of the status word are set (by the engine's own fnstenv / fldenv)
    Flags(u16),
}

fn raw(se: u16, sig: u64) -> Opd {
    let mut b = [0u8; 10];
    b[0..8].copy_from_slice(&sig.to_le_bytes());
    b[8..10].copy_from_slice(&se.to_le_bytes());
    Opd::Raw(b)
}

/// The alphabet, simplest first: library calls, then bare flags.
pub fn alphabet() -> Vec<Prefix> {
    let f = |x: f64| Opd::F64(x.to_bits());
    let (inf, nan) = (f(f64::INFINITY), f(f64::NAN));
    let max80 = raw(0x7ffe, u64::MAX); // the largest finite f80
    let tiny80 = raw(0x0001, 0x8000_0000_0000_0001); // the second smallest normal f80
    let den80 = raw(0x0000, 1); // the smallest f80 denormal
    let call = |op, a, b| Prefix::Call { op, a, b };
    vec![
        call(Op::Sub, inf, inf),           // invalid
        call(Op::Mul, f(0.0), inf),        // invalid
        call(Op::Div, f(0.0), f(0.0)),     // invalid
        call(Op::Lt, nan, f(1.0)),         // invalid (an ordered compare with a NaN)
        call(Op::Div, f(1.0), f(0.0)),     // divide by zero
        call(Op::Div, f(1.0), f(3.0)),     // inexact
        call(Op::Mul, max80, max80),       // overflow
        call(Op::Mul, tiny80, f(0.5)),     // underflow (tiny and inexact)
        call(Op::Add, den80, f(1.0)),      // denormal operand
        call(Op::FromF64, Opd::F64(1), Opd::F64(1)), // denormal operand (a subnormal f64 is loaded)
        call(Op::ToF64, max80, max80),     // overflow in the conversion to f64
        call(Op::ToF64, tiny80, tiny80),   // underflow in the conversion to f64
        Prefix::Flags(IE),
        Prefix::Flags(DE),
        Prefix::Flags(ZE),
        Prefix::Flags(OE),
        Prefix::Flags(UE),
        Prefix::Flags(PE),
        Prefix::Flags(ALL_FLAGS),
        Prefix::Flags(CONDITION_BITS),
    ]
}

impl Prefix {
    /// Make the history happen on the calling thread.  `false`: not applicable here (exceptions are unmasked).
    pub fn run(&self) -> bool {
        match *self {
            Prefix::Call { op, a, b } => {
                let _ = catch(|| std::hint::black_box(execute(op, &a, &b, Place::Separate)));
                true
            }
            Prefix::Flags(bits) => or_into_status_word(bits),
        }
    }

    /// compact, deterministic text used in signatures
    pub fn sig(&self) -> String {
        match self {
            Prefix::Call { op, a, b } if op.binary() => format!("{}({},{})", op.name(), a.sig(), b.sig()),
            Prefix::Call { op, a, .. } => format!("{}({})", op.name(), a.sig()),
            Prefix::Flags(bits) => format!("x87_status_bits(0x{bits:04x})"),
        }
    }

    pub fn describe(&self) -> String {
        match self {
            Prefix::Call { op, a, b } if op.binary() => format!("the f80 call {}(a, b) with a = {}; b = {}", op.name(), a.describe(), b.describe()),
            Prefix::Call { op, a, .. } => format!("the f80 call {}(a) with a = {}", op.name(), a.describe()),
            Prefix::Flags(bits) => {
                let names: Vec<&str> = [(IE, "IE invalid operation"), (DE, "DE denormal operand"), (ZE, "ZE divide by zero"), (OE, "OE overflow"), (UE, "UE underflow"), (PE, "PE inexact"), (0x0100, "C0"), (0x0200, "C1"), (0x0400, "C2"), (0x4000, "C3")]
                    .iter()
                    .filter(|(b, _)| bits & b != 0)
                    .map(|(_, n)| *n)
                    .collect();
                format!("some x87 instruction that left the status-word bits 0x{bits:04x} ({}) set — here the engine's own fnstenv / fldenv, no f80 call", names.join(", "))
            }
        }
    }

    pub fn to_json(&self) -> Value {
        match self {
            Prefix::Call { op, a, b } if op.binary() => json!({"op": op.name(), "a": a.to_json(), "b": b.to_json()}),
            Prefix::Call { op, a, .. } => json!({"op": op.name(), "a": a.to_json()}),
            Prefix::Flags(bits) => json!({"x87_status_bits_set": format!("0x{bits:04x}")}),
        }
    }

    pub fn from_json(v: &Value) -> Result<Prefix, String> {
        if let Some(s) = v.get("x87_status_bits_set").and_then(|s| s.as_str()) {
            let bits = u16::from_str_radix(s.trim_start_matches("0x"), 16).map_err(|e| format!("replay: bad status bits {s}: {e}"))?;
            if bits & !(ALL_FLAGS | CONDITION_BITS) != 0 {
                return Err(format!("replay: status bits {s} are not sticky exception flags / condition bits"));
            }
            return Ok(Prefix::Flags(bits));
        }
        let op = v["op"].as_str().and_then(Op::from_name).ok_or_else(|| format!("replay: unknown op in the history {v}"))?;
        let a = Opd::from_json(&v["a"])?;
        let b = if op.binary() { Opd::from_json(&v["b"])? } else { a };
        Ok(Prefix::Call { op, a, b })
    }
}
