//! C18 — f80 arithmetic correctly rounded, IEEE comparisons.
//!
//! Exhaustive input enumeration (form I): every pair of a boundary set B of f64 bit patterns through every
//! operation of `rlib_f80::f80`, then every pair of a fixed subset of the first-level RESULTS (full 64-bit
//! significands), each compared with a software model of x87 double-extended arithmetic (`soft.rs`).
//! Plus "dependent sequences" (`seq.rs`): small optimised loops in which ONE variable is compared, updated in
//! place and compared again, judged against the model running the same sequence.
//! Every binary operation is also called with both operands being ONE object and with the operands in adjacent
//! array elements (`Place` in `engine.rs`), and every operation is repeated a few hundred thousand times while
//! other threads compute on other operands (`interfere.rs`), and called on a fresh thread after each member of an
//! alphabet of earlier x87 operations that leave sticky status-word flags behind (`history.rs`): f80 operations
//! are pure, so none of this may matter.

#[cfg(target_arch = "x86_64")]
mod engine;
#[cfg(target_arch = "x86_64")]
mod history;
#[cfg(target_arch = "x86_64")]
mod interfere;
#[cfg(target_arch = "x86_64")]
mod seq;
#[cfg(target_arch = "x86_64")]
mod soft;

#[cfg(target_arch = "x86_64")]
fn main() {
    engine::main()
}

#[cfg(not(target_arch = "x86_64"))]
fn main() {
    let args = vcore::Args::parse();
    let run = vcore::Run::new(&args, "f80", "exploration");
    run.machinery_failure("rlib_f80 is x87 inline assembly; this engine can only run on x86-64")
}
