//! Reference model of x87 double-extended arithmetic (round-to-nearest-even, 64-bit significand).
//!
//! Pure integer arithmetic (u128 with sticky bits); no floating-point instruction decides anything here.
//! Started from the prototype that agreed bit-for-bit with the hardware on 685k checks; the only
//! extension is the `Info` record that says which rounding path a result took (used for coverage
//! counters and for the "outside the f80 exponent range" skip, never for the expected value).

#[derive(Clone, Copy, Debug, PartialEq, Eq)]
pub enum X {
    Nan,
    Inf(bool),
    /// value = (-1)^neg * sig * 2^exp; sig may be 0 (zero) and need not be normalised
    Fin { neg: bool, sig: u64, exp: i32 },
}

pub const X_EMIN: i32 = -16445; // exponent of the LSB of denormals / of biased exponent 1
pub const X_P: u32 = 64;
pub const X_EMAX_BIASED: i32 = 32767;

/// Which path the last rounding took.
#[derive(Clone, Copy, Debug, Default, PartialEq, Eq)]
pub struct Info {
    /// the exact result was not representable: bits were discarded
    pub inexact: bool,
    /// the discarded part was exactly one half of the last place (ties-to-even decided)
    pub tie: bool,
    /// the magnitude was rounded up (away from zero)
    pub up: bool,
    /// the result is non-zero and below the normal range of the target format
    pub denormal: bool,
    /// the rounded result exceeded the largest finite value of the target format
    pub overflow: bool,
}

pub fn decode80(b: &[u8; 10]) -> X {
    let sig = u64::from_le_bytes(b[0..8].try_into().unwrap());
    let se = u16::from_le_bytes([b[8], b[9]]);
    let neg = se >> 15 == 1;
    let be = (se & 0x7fff) as i32;
    if be == 0x7fff {
        if sig << 1 == 0 {
            X::Inf(neg)
        } else {
            X::Nan
        }
    } else if be == 0 {
        X::Fin { neg, sig, exp: X_EMIN }
    } else {
        X::Fin { neg, sig, exp: be - 16383 - 63 }
    }
}

pub fn from_f64(f: f64) -> X {
    let b = f.to_bits();
    let neg = b >> 63 == 1;
    let be = ((b >> 52) & 0x7ff) as i32;
    let m = b & ((1u64 << 52) - 1);
    if be == 0x7ff {
        if m == 0 {
            X::Inf(neg)
        } else {
            X::Nan
        }
    } else if be == 0 {
        X::Fin { neg, sig: m, exp: -1074 }
    } else {
        X::Fin { neg, sig: m | (1u64 << 52), exp: be - 1075 }
    }
}

/// Round the magnitude `mag * 2^exp` (+ sticky = some non-zero bits below mag's LSB) to `p` bits with
/// the LSB exponent >= emin.  Returns (sig, exp) with sig < 2^p.
pub fn round(mag: u128, exp: i32, sticky: bool, p: u32, emin: i32, info: &mut Info) -> (u128, i32) {
    if mag == 0 {
        return (0, emin);
    }
    let msb = 127 - mag.leading_zeros() as i32; // position of the top bit
    let mut sh = msb - (p as i32 - 1); // right shift needed to keep p bits
    if exp + sh < emin {
        sh = emin - exp; // denormal range: shift more
    }
    if sh <= 0 {
        // exact (left shift), but not below emin
        let l = (-sh).min(exp - emin).max(0);
        assert!(!sticky || l == 0, "sticky with left shift");
        let q = mag << l;
        info.inexact |= sticky;
        info.denormal = q >> (p - 1) == 0;
        return (q, exp - l);
    }
    let (q, up);
    if sh >= 129 {
        q = 0u128;
        up = false;
        info.inexact = true;
    } else if sh == 128 {
        q = 0;
        let half = 1u128 << 127;
        up = mag > half || (mag == half && sticky);
        info.inexact = true;
        info.tie = mag == half && !sticky;
    } else {
        let qq = mag >> sh;
        let rem = mag & ((1u128 << sh) - 1);
        let half = 1u128 << (sh - 1);
        q = qq;
        up = rem > half || (rem == half && (sticky || (qq & 1) == 1));
        info.inexact = rem != 0 || sticky;
        info.tie = rem == half && !sticky;
    }
    info.up = up;
    let mut q = q + up as u128;
    let mut e = exp + sh;
    if q >> p != 0 {
        q >>= 1;
        e += 1;
    }
    info.denormal = q != 0 && q >> (p - 1) == 0;
    (q, e)
}

fn pack_x(neg: bool, q: u128, e: i32, info: &mut Info) -> X {
    if q == 0 {
        return X::Fin { neg, sig: 0, exp: X_EMIN };
    }
    if q >> 63 != 0 {
        let be = e + 16383 + 63;
        if be >= X_EMAX_BIASED {
            info.overflow = true;
            return X::Inf(neg);
        }
    }
    X::Fin { neg, sig: q as u64, exp: e }
}

fn norm(sig: u64, exp: i32) -> (u64, i32) {
    if sig == 0 {
        (0, exp)
    } else {
        let l = sig.leading_zeros() as i32;
        (sig << l, exp - l)
    }
}

fn rnd(neg: bool, mag: u128, exp: i32, sticky: bool, info: &mut Info) -> X {
    let (q, e) = round(mag, exp, sticky, X_P, X_EMIN, info);
    pack_x(neg, q, e, info)
}

pub fn neg(a: X) -> X {
    match a {
        X::Nan => X::Nan,
        X::Inf(s) => X::Inf(!s),
        X::Fin { neg, sig, exp } => X::Fin { neg: !neg, sig, exp },
    }
}

pub fn add(a: X, b: X, info: &mut Info) -> X {
    match (a, b) {
        (X::Nan, _) | (_, X::Nan) => X::Nan,
        (X::Inf(s), X::Inf(t)) => {
            if s == t {
                X::Inf(s)
            } else {
                X::Nan
            }
        }
        (X::Inf(s), _) | (_, X::Inf(s)) => X::Inf(s),
        (X::Fin { neg: na, sig: sa, exp: ea }, X::Fin { neg: nb, sig: sb, exp: eb }) => {
            if sa == 0 && sb == 0 {
                return X::Fin { neg: na && nb, sig: 0, exp: X_EMIN };
            }
            if sa == 0 {
                return rnd(nb, sb as u128, eb, false, info);
            }
            if sb == 0 {
                return rnd(na, sa as u128, ea, false, info);
            }
            let (sa, ea) = norm(sa, ea);
            let (sb, eb) = norm(sb, eb);
            // big = the operand with the larger exponent
            let ((nbig, sbig, ebig), (nsm, ssm, esm)) = if ea >= eb { ((na, sa, ea), (nb, sb, eb)) } else { ((nb, sb, eb), (na, sa, ea)) };
            let d = ebig - esm;
            let e = ebig - 62;
            let big = (sbig as u128) << 62;
            let small = if d <= 62 {
                (ssm as u128) << (62 - d)
            } else {
                let r = d - 62;
                if r >= 64 {
                    1
                } else {
                    let x = (ssm as u128) >> r;
                    let lost = (ssm as u128) & ((1u128 << r) - 1) != 0;
                    x | lost as u128
                }
            };
            if nbig == nsm {
                rnd(nbig, big + small, e, false, info)
            } else if big > small {
                rnd(nbig, big - small, e, false, info)
            } else if small > big {
                rnd(nsm, small - big, e, false, info)
            } else {
                X::Fin { neg: false, sig: 0, exp: X_EMIN }
            }
        }
    }
}

pub fn sub(a: X, b: X, info: &mut Info) -> X {
    add(a, neg(b), info)
}

pub fn mul(a: X, b: X, info: &mut Info) -> X {
    match (a, b) {
        (X::Nan, _) | (_, X::Nan) => X::Nan,
        (X::Inf(s), X::Inf(t)) => X::Inf(s != t),
        (X::Inf(s), X::Fin { neg, sig, .. }) | (X::Fin { neg, sig, .. }, X::Inf(s)) => {
            if sig == 0 {
                X::Nan
            } else {
                X::Inf(s != neg)
            }
        }
        (X::Fin { neg: na, sig: sa, exp: ea }, X::Fin { neg: nb, sig: sb, exp: eb }) => {
            if sa == 0 || sb == 0 {
                return X::Fin { neg: na != nb, sig: 0, exp: X_EMIN };
            }
            rnd(na != nb, sa as u128 * sb as u128, ea + eb, false, info)
        }
    }
}

pub fn div(a: X, b: X, info: &mut Info) -> X {
    match (a, b) {
        (X::Nan, _) | (_, X::Nan) => X::Nan,
        (X::Inf(_), X::Inf(_)) => X::Nan,
        (X::Inf(s), X::Fin { neg, .. }) => X::Inf(s != neg),
        (X::Fin { neg, .. }, X::Inf(s)) => X::Fin { neg: neg != s, sig: 0, exp: X_EMIN },
        (X::Fin { neg: na, sig: sa, exp: ea }, X::Fin { neg: nb, sig: sb, exp: eb }) => {
            if sb == 0 {
                return if sa == 0 { X::Nan } else { X::Inf(na != nb) };
            }
            if sa == 0 {
                return X::Fin { neg: na != nb, sig: 0, exp: X_EMIN };
            }
            let (sa, ea) = norm(sa, ea);
            let (sb, eb) = norm(sb, eb);
            let num = (sa as u128) << 64;
            let q1 = num / sb as u128;
            let r1 = num % sb as u128;
            let n2 = r1 << 2;
            let q2 = n2 / sb as u128;
            let r2 = n2 % sb as u128;
            rnd(na != nb, (q1 << 2) | q2, ea - eb - 66, r2 != 0, info)
        }
    }
}

/// IEEE comparison of the exact values: None if unordered.
pub fn cmp(a: X, b: X) -> Option<std::cmp::Ordering> {
    use std::cmp::Ordering::*;
    let key = |x: X| -> Option<(i32, i64, u64)> {
        match x {
            X::Nan => None,
            X::Inf(s) => Some((if s { -1 } else { 1 }, i64::MAX, 0)),
            X::Fin { neg, sig, exp } => {
                if sig == 0 {
                    Some((0, 0, 0))
                } else {
                    let (s, e) = norm(sig, exp);
                    Some((if neg { -1 } else { 1 }, e as i64, s))
                }
            }
        }
    };
    let (ka, kb) = (key(a)?, key(b)?);
    Some(if ka.0 != kb.0 {
        ka.0.cmp(&kb.0)
    } else if ka.0 == 0 {
        Equal
    } else {
        let m = (ka.1, ka.2).cmp(&(kb.1, kb.2));
        if ka.0 > 0 {
            m
        } else {
            m.reverse()
        }
    })
}

/// x87 value -> f64 (round to nearest even at 53 bits, gradual underflow, overflow to infinity);
/// NaN -> the canonical NaN.
pub fn to_f64(a: X, info: &mut Info) -> f64 {
    match a {
        X::Nan => f64::NAN,
        X::Inf(s) => {
            if s {
                f64::NEG_INFINITY
            } else {
                f64::INFINITY
            }
        }
        X::Fin { neg, sig, exp } => {
            let (q, e) = round(sig as u128, exp, false, 53, -1074, info);
            let v = if q == 0 {
                0.0
            } else if q >> 52 != 0 {
                let be = e + 1075;
                if be >= 0x7ff {
                    info.overflow = true;
                    f64::INFINITY
                } else {
                    f64::from_bits(((be as u64) << 52) | (q as u64 & ((1u64 << 52) - 1)))
                }
            } else {
                f64::from_bits(q as u64)
            };
            if neg {
                -v
            } else {
                v
            }
        }
    }
}

/// Same datum: any NaN = any NaN; infinities by sign; finite values by sign and exact value (zeros by sign).
pub fn same(a: X, b: X) -> bool {
    match (a, b) {
        (X::Nan, X::Nan) => true,
        (X::Inf(s), X::Inf(t)) => s == t,
        (X::Fin { neg: na, sig: sa, exp: ea }, X::Fin { neg: nb, sig: sb, exp: eb }) => na == nb && ((sa == 0 && sb == 0) || norm_d(sa, ea) == norm_d(sb, eb)),
        _ => false,
    }
}

/// normalise, but not below EMIN
fn norm_d(sig: u64, exp: i32) -> (u64, i32) {
    if sig == 0 {
        return (0, X_EMIN);
    }
    let l = (sig.leading_zeros() as i32).min(exp - X_EMIN).max(0);
    (sig << l, exp - l)
}

pub fn is_nan(a: X) -> bool {
    matches!(a, X::Nan)
}

pub fn is_zero(a: X) -> bool {
    matches!(a, X::Fin { sig: 0, .. })
}

pub fn sign(a: X) -> Option<bool> {
    match a {
        X::Nan => None,
        X::Inf(s) => Some(s),
        X::Fin { neg, .. } => Some(neg),
    }
}

/// |a| by value
pub fn abs(a: X) -> X {
    match a {
        X::Nan => X::Nan,
        X::Inf(_) => X::Inf(false),
        X::Fin { sig, exp, .. } => X::Fin { neg: false, sig, exp },
    }
}

/// exponent of the leading bit of a finite non-zero value (value in [2^k, 2^(k+1)))
pub fn top_exp(a: X) -> Option<i32> {
    match a {
        X::Fin { sig, exp, .. } if sig != 0 => Some(exp + 63 - sig.leading_zeros() as i32),
        _ => None,
    }
}

/// Human-readable rendering for summaries.
pub fn show(a: X) -> String {
    match a {
        X::Nan => "NaN".to_string(),
        X::Inf(s) => (if s { "-inf" } else { "+inf" }).to_string(),
        X::Fin { neg, sig, exp } => {
            let s = if neg { "-" } else { "+" };
            if sig == 0 {
                format!("{s}0")
            } else {
                let (m, e) = norm_d(sig, exp);
                format!("{s}0x{m:016x}p{e}")
            }
        }
    }
}
