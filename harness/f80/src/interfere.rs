//! Interference: the same call repeated while OTHER threads execute every f80 operation on other operands.
//!
//! f80 operations are pure functions of their operands (the type is `Copy`, `Send` and `Sync`, the operators take
//! their operands by value, nothing in the API mentions a thread), so what another thread computes at the same
//! time cannot change a result — on correct code this pass observes, a few hundred thousand times per case,
//! exactly what the call returns when the thread runs alone.  A result that travels through state shared by all
//! threads (a process-wide `static mut` scratch slot, a shared cache) is exact in every single-threaded history
//! and wrong only in the window in which another thread writes the same state; the parallel enumeration may or
//! may not hit that window, and a plain re-execution on one thread never does.  Here the window is hit on purpose,
//! and the replay of such a case re-creates the interference, so it reproduces.
//!
//! No clock decides anything.  The repetitions are counted in slices of `SLICE` consecutive calls; a slice counts
//! only if some interfering thread completed calls of its own while the slice ran (every interfering thread
//! publishes how many calls it has made), so the interference is known to have been there — on a loaded machine
//! the loop simply runs longer.  A judged loop ends after `REPS` repetitions in such slices, or at the first
//! repetition that returns something else.

use crate::engine::{execute, fresh_x87_thread_init, Op, Opd, Place, ALL_OPS};
use std::sync::atomic::{AtomicBool, AtomicU64, Ordering};
use std::sync::Arc;
use std::thread::JoinHandle;
use vcore::catch;

/// repetitions of the judged call that must have been made in slices during which the interference was running
pub const REPS: u64 = 200_000;
/// consecutive repetitions between two looks at the progress of the interfering threads
pub const SLICE: u64 = 1000;
/// a judged loop that has not collected `REPS` repetitions under interference after this many repetitions gives
/// up (the machine does not run the threads at the same time): no verdict from it
const MAX_REPS: u64 = REPS * 400;

/// f64 bit patterns the interfering threads compute on: every ordered pair, every operation
const CROWD_VALUES: [f64; 8] = [1000.0, 0.5, -7.25, 1.0e-3, 3.0e10, 0.142_857_142_857_142_85, 65_537.0, -1.0e-200];

pub struct Crowd {
    stop: Arc<AtomicBool>,
    /// calls of the code under test each interfering thread has completed
    calls: Vec<Arc<AtomicU64>>,
    handles: Vec<JoinHandle<()>>,
}

pub enum Judged<T> {
    /// every repetition returned what the call returns alone (`reps` of them in slices under interference)
    Same { reps: u64 },
    /// repetition number `rep` (from 1) returned `got`
    Differs { rep: u64, got: T },
    /// the interfering threads did not run while the loop ran
    NoInterference,
}

impl Crowd {
    /// Start the interfering threads (three where the machine has four processors or more, else one) and wait
    /// until each of them has completed a call.
    pub fn start() -> Crowd {
        let n = if std::thread::available_parallelism().map_or(1, |p| p.get()) >= 4 { 3 } else { 1 };
        let stop = Arc::new(AtomicBool::new(false));
        let calls: Vec<Arc<AtomicU64>> = (0..n).map(|_| Arc::new(AtomicU64::new(0))).collect();
        let table: Vec<(Op, Opd, Opd)> = {
            let v: Vec<Opd> = CROWD_VALUES.iter().map(|f| Opd::F64(f.to_bits())).collect();
            let mut t = vec![];
            for &a in &v {
                for &b in &v {
                    for op in ALL_OPS {
                        t.push((op, a, b));
                    }
                }
            }
            t
        };
        let handles = calls
            .iter()
            .enumerate()
            .map(|(k, r)| {
                let (stop, r, table) = (stop.clone(), r.clone(), table.clone());
                std::thread::spawn(move || {
                    fresh_x87_thread_init();
                    // every thread starts at another place of the table
                    let shift = k * table.len() / 3;
                    let mut made = 0u64;
                    while !stop.load(Ordering::Relaxed) {
                        for i in 0..table.len() {
                            let (op, a, b) = table[(i + shift) % table.len()];
                            let _ = catch(|| std::hint::black_box(execute(op, &a, &b, Place::Separate)));
                            made += 1;
                            r.store(made, Ordering::Relaxed); // this thread is the only writer
                        }
                    }
                })
            })
            .collect();
        let c = Crowd { stop, calls, handles };
        while c.calls.iter().any(|r| r.load(Ordering::Relaxed) == 0) {
            std::thread::yield_now();
        }
        c
    }

    pub fn threads(&self) -> usize {
        self.calls.len()
    }

    /// Calls of the code under test the interfering threads have completed so far.
    pub fn calls(&self) -> u64 {
        self.calls.iter().map(|r| r.load(Ordering::Relaxed)).sum()
    }

    /// Repeat `f` on the calling thread while the crowd runs; every result must equal `alone`.
    pub fn judge<T: PartialEq>(&self, alone: &T, f: impl Fn() -> T) -> Judged<T> {
        let (mut rep, mut under) = (0u64, 0u64);
        let mut before = self.calls();
        loop {
            rep += 1;
            let got = f();
            if got != *alone {
                return Judged::Differs { rep, got };
            }
            if rep % SLICE == 0 {
                let now = self.calls();
                if now != before {
                    under += SLICE;
                }
                before = now;
                if under >= REPS {
                    return Judged::Same { reps: under };
                }
                if rep >= MAX_REPS {
                    return Judged::NoInterference;
                }
            }
        }
    }

}

impl Drop for Crowd {
    /// the threads are stopped and joined: nothing computes in the background after a crowd is gone
    fn drop(&mut self) {
        self.stop.store(true, Ordering::Relaxed);
        for h in self.handles.drain(..) {
            let _ = h.join();
        }
    }
}
