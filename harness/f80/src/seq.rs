//! "Dependent sequences": comparisons of ONE variable that is updated in place between them.
//!
//! Every other family of this engine judges a call on fresh temporaries.  Here a local `x` lives in one stack
//! slot for a whole small loop, `x R lim` is evaluated, `x op= step` follows, and the comparison is evaluated
//! again on the SAME variable; nothing hides the loop from the optimiser (no black_box, the relation and the
//! update are the library's own inlinable operators).  The engine is an optimised build, so this is where a
//! comparison / operator whose inline assembly promises the compiler more than it keeps (`pure`, `nomem`,
//! missing clobbers …) can be hoisted out of the loop, merged with an earlier evaluation, or have its operand
//! stores dropped.  Such an annotation is only caught when the optimiser happens to exploit it in one of the
//! loop shapes below; the family proves nothing about shapes it does not contain.
//!
//! Space: (a, step) = every ordered pair of the boundary set, op= in {+=, -=, *=, /=}, lim = each distinct
//! value of the model's sequence x_0 = a, x_{i+1} = x_i op step (i < K; so the answer changes along the
//! sequence whenever the sequence moves), R in {<, <=, >, >=, ==, partial_cmp}, five loop shapes.

use crate::engine::{bytes_of, encode80, fresh_x87_thread_init, model_arith, Op, Opd};
use crate::soft::{self, Info, X};
use rayon::prelude::*;
use rlib_f80::f80;
use std::cmp::Ordering;
use vcore::{catch, json, Value};

/// updates per sequence
pub const K: usize = 4;

#[derive(Clone, Copy, Debug, PartialEq, Eq)]
pub enum Rel {
    Lt,
    Le,
    Gt,
    Ge,
    Eq,
    Pc,
}
pub const RELS: [Rel; 6] = [Rel::Lt, Rel::Le, Rel::Gt, Rel::Ge, Rel::Eq, Rel::Pc];
pub const ASSIGN_OPS: [Op; 4] = [Op::AddAssign, Op::SubAssign, Op::MulAssign, Op::DivAssign];

impl Rel {
    pub fn name(self) -> &'static str {
        match self {
            Rel::Lt => "lt",
            Rel::Le => "le",
            Rel::Gt => "gt",
            Rel::Ge => "ge",
            Rel::Eq => "eq",
            Rel::Pc => "partial_cmp",
        }
    }
    fn idx(self) -> usize {
        RELS.iter().position(|&r| r == self).unwrap()
    }
    fn from_name(s: &str) -> Option<Rel> {
        RELS.iter().copied().find(|r| r.name() == s)
    }
    pub fn family(self) -> String {
        format!("dependent_{}", self.name())
    }
    /// result code of the relation for an exact IEEE ordering (bool as 0/1, partial_cmp as 0..=3)
    fn code(self, c: Option<Ordering>) -> u8 {
        match self {
            Rel::Lt => (c == Some(Ordering::Less)) as u8,
            Rel::Le => matches!(c, Some(Ordering::Less) | Some(Ordering::Equal)) as u8,
            Rel::Gt => (c == Some(Ordering::Greater)) as u8,
            Rel::Ge => matches!(c, Some(Ordering::Greater) | Some(Ordering::Equal)) as u8,
            Rel::Eq => (c == Some(Ordering::Equal)) as u8,
            Rel::Pc => pc_code(c),
        }
    }
    fn show_code(self, c: u8) -> String {
        match self {
            Rel::Pc => format!("{:?}", [None, Some(Ordering::Less), Some(Ordering::Equal), Some(Ordering::Greater)][c as usize & 3]),
            _ => (c != 0).to_string(),
        }
    }
    fn symbol(self) -> &'static str {
        match self {
            Rel::Lt => "x < lim",
            Rel::Le => "x <= lim",
            Rel::Gt => "x > lim",
            Rel::Ge => "x >= lim",
            Rel::Eq => "x == lim",
            Rel::Pc => "x.partial_cmp(&lim)",
        }
    }
}

#[derive(Clone, Copy, Debug, PartialEq, Eq)]
pub enum Form {
    /// `for i in 0..k { r[i] = x R lim; x op= step }`, k not known at compile time
    For,
    /// the same, written out four times without a loop
    Unrolled,
    /// `(0..k).fold((a, 0), |(mut x, bits), i| { let c = x R lim; x op= step; (x, bits | c << 2i) })`
    Fold,
    /// `while (x R lim) && n < k { x op= step; n += 1 }` -> trip count
    WhileTrip,
    /// `for _ in 0..k { if x R lim { x op= step; n += 1 } }` -> number of updates
    CondUpdate,
}
pub const FORMS: [Form; 5] = [Form::For, Form::Unrolled, Form::Fold, Form::WhileTrip, Form::CondUpdate];

impl Form {
    pub fn name(self) -> &'static str {
        match self {
            Form::For => "for",
            Form::Unrolled => "unrolled",
            Form::Fold => "fold",
            Form::WhileTrip => "while",
            Form::CondUpdate => "cond_update",
        }
    }
    fn idx(self) -> usize {
        FORMS.iter().position(|&r| r == self).unwrap()
    }
    fn from_name(s: &str) -> Option<Form> {
        FORMS.iter().copied().find(|r| r.name() == s)
    }
    /// records every r_i (as opposed to counting how often the guard held)
    fn records(self) -> bool {
        matches!(self, Form::For | Form::Unrolled | Form::Fold)
    }
}

#[inline(always)]
fn pc_code(c: Option<Ordering>) -> u8 {
    match c {
        None => 0,
        Some(Ordering::Less) => 1,
        Some(Ordering::Equal) => 2,
        Some(Ordering::Greater) => 3,
    }
}

// ---------------------------------------------------------------------------------------------------
// the loops (real code).  One module per (relation, assigning operator); every function is
// #[inline(never)], so the enumeration and `--replay` execute the very same machine code.
// ---------------------------------------------------------------------------------------------------

/// (a, step, lim, k, r) -> (final x, trip count / packed result codes)
type SeqFn = fn(f80, f80, f80, usize, &mut [u8; K]) -> (f80, u32);

macro_rules! rel_code {
    (lt, $x:expr, $l:expr) => {
        ($x < $l) as u8
    };
    (le, $x:expr, $l:expr) => {
        ($x <= $l) as u8
    };
    (gt, $x:expr, $l:expr) => {
        ($x > $l) as u8
    };
    (ge, $x:expr, $l:expr) => {
        ($x >= $l) as u8
    };
    (eq, $x:expr, $l:expr) => {
        ($x == $l) as u8
    };
    (pc, $x:expr, $l:expr) => {
        pc_code($x.partial_cmp(&$l))
    };
}

/// the loop condition of the counting forms; for partial_cmp: "the ordering is still what it was at the start"
macro_rules! guard {
    (pc, $x:expr, $l:expr, $p0:expr) => {
        $x.partial_cmp(&$l) == $p0
    };
    ($rel:ident, $x:expr, $l:expr, $p0:expr) => {
        rel_code!($rel, $x, $l) != 0
    };
}

macro_rules! initial_ordering {
    (pc, $x:expr, $l:expr) => {
        $x.partial_cmp(&$l)
    };
    ($rel:ident, $x:expr, $l:expr) => {
        None::<Ordering>
    };
}

macro_rules! assign {
    (add, $x:ident, $s:expr) => {
        $x += $s
    };
    (sub, $x:ident, $s:expr) => {
        $x -= $s
    };
    (mul, $x:ident, $s:expr) => {
        $x *= $s
    };
    (div, $x:ident, $s:expr) => {
        $x /= $s
    };
}

macro_rules! seq_fns {
    ($m:ident, $rel:ident, $op:ident) => {
        mod $m {
            use super::*;
            #[inline(never)]
            fn for_loop(a: f80, step: f80, lim: f80, k: usize, r: &mut [u8; K]) -> (f80, u32) {
                let mut x = a;
                for i in 0..k.min(K) {
                    r[i] = rel_code!($rel, x, lim);
                    assign!($op, x, step);
                }
                (x, 0)
            }
            #[inline(never)]
            fn unrolled(a: f80, step: f80, lim: f80, _k: usize, r: &mut [u8; K]) -> (f80, u32) {
                let mut x = a;
                r[0] = rel_code!($rel, x, lim);
                assign!($op, x, step);
                r[1] = rel_code!($rel, x, lim);
                assign!($op, x, step);
                r[2] = rel_code!($rel, x, lim);
                assign!($op, x, step);
                r[3] = rel_code!($rel, x, lim);
                assign!($op, x, step);
                (x, 0)
            }
            #[inline(never)]
            fn fold(a: f80, step: f80, lim: f80, k: usize, _r: &mut [u8; K]) -> (f80, u32) {
                (0..k.min(K)).fold((a, 0u32), |(mut x, bits), i| {
                    let c = rel_code!($rel, x, lim) as u32;
                    assign!($op, x, step);
                    (x, bits | c << (2 * i))
                })
            }
            #[inline(never)]
            fn while_trip(a: f80, step: f80, lim: f80, k: usize, _r: &mut [u8; K]) -> (f80, u32) {
                let mut x = a;
                let mut n = 0u32;
                let p0 = initial_ordering!($rel, x, lim);
                let _ = &p0;
                while guard!($rel, x, lim, p0) && (n as usize) < k {
                    assign!($op, x, step);
                    n += 1;
                }
                (x, n)
            }
            #[inline(never)]
            fn cond_update(a: f80, step: f80, lim: f80, k: usize, _r: &mut [u8; K]) -> (f80, u32) {
                let mut x = a;
                let mut n = 0u32;
                let p0 = initial_ordering!($rel, x, lim);
                let _ = &p0;
                for _ in 0..k {
                    if guard!($rel, x, lim, p0) {
                        assign!($op, x, step);
                        n += 1;
                    }
                }
                (x, n)
            }
            pub const FNS: [SeqFn; 5] = [for_loop, unrolled, fold, while_trip, cond_update];
        }
    };
}

seq_fns!(lt_add, lt, add);
seq_fns!(lt_sub, lt, sub);
seq_fns!(lt_mul, lt, mul);
seq_fns!(lt_div, lt, div);
seq_fns!(le_add, le, add);
seq_fns!(le_sub, le, sub);
seq_fns!(le_mul, le, mul);
seq_fns!(le_div, le, div);
seq_fns!(gt_add, gt, add);
seq_fns!(gt_sub, gt, sub);
seq_fns!(gt_mul, gt, mul);
seq_fns!(gt_div, gt, div);
seq_fns!(ge_add, ge, add);
seq_fns!(ge_sub, ge, sub);
seq_fns!(ge_mul, ge, mul);
seq_fns!(ge_div, ge, div);
seq_fns!(eq_add, eq, add);
seq_fns!(eq_sub, eq, sub);
seq_fns!(eq_mul, eq, mul);
seq_fns!(eq_div, eq, div);
seq_fns!(pc_add, pc, add);
seq_fns!(pc_sub, pc, sub);
seq_fns!(pc_mul, pc, mul);
seq_fns!(pc_div, pc, div);

/// [relation][assigning operator][form], in the order of RELS, ASSIGN_OPS, FORMS
static TABLE: [[[SeqFn; 5]; 4]; 6] = [
    [lt_add::FNS, lt_sub::FNS, lt_mul::FNS, lt_div::FNS],
    [le_add::FNS, le_sub::FNS, le_mul::FNS, le_div::FNS],
    [gt_add::FNS, gt_sub::FNS, gt_mul::FNS, gt_div::FNS],
    [ge_add::FNS, ge_sub::FNS, ge_mul::FNS, ge_div::FNS],
    [eq_add::FNS, eq_sub::FNS, eq_mul::FNS, eq_div::FNS],
    [pc_add::FNS, pc_sub::FNS, pc_mul::FNS, pc_div::FNS],
];

fn op_idx(op: Op) -> usize {
    ASSIGN_OPS.iter().position(|&o| o == op).expect("dependent sequence needs an assigning operator")
}

// ---------------------------------------------------------------------------------------------------
// the model
// ---------------------------------------------------------------------------------------------------

/// x_0 ..= x_valid of the model; `valid` = number of leading updates whose result stays inside the exponent
/// range the property speaks about (no overflow, no gradual underflow) — the same domain rule as for the
/// single arithmetic operations.
#[derive(Clone, Copy)]
struct ModelSeq {
    xs: [X; K + 1],
    valid: usize,
}

fn model_seq(a: X, step: X, op: Op) -> ModelSeq {
    let base = op.arith_base().unwrap();
    let mut xs = [a; K + 1];
    let mut valid = 0;
    for i in 0..K {
        let mut info = Info::default();
        let y = model_arith(base, xs[i], step, &mut info);
        if info.overflow || info.denormal {
            break;
        }
        xs[i + 1] = y;
        valid = i + 1;
    }
    ModelSeq { xs, valid }
}

#[derive(Clone, Copy, Debug, PartialEq, Eq)]
enum Expect {
    /// result codes of the first `judged` comparisons; the final value when every update was in the domain
    Codes { codes: [u8; K], judged: usize, last: Option<X> },
    /// number of updates performed and the value x ends with
    Trips { n: u32, last: X },
    /// the loop would consume an out-of-domain arithmetic result before it ends: nothing is required
    OutOfDomain,
}

fn expect(m: &ModelSeq, lim: X, rel: Rel, form: Form) -> Expect {
    if form.records() {
        let judged = K.min(m.valid + 1);
        let mut codes = [0u8; K];
        for i in 0..judged {
            codes[i] = rel.code(soft::cmp(m.xs[i], lim));
        }
        Expect::Codes { codes, judged, last: if m.valid == K { Some(m.xs[K]) } else { None } }
    } else {
        let p0 = soft::cmp(m.xs[0], lim);
        let holds = |x: X| match rel {
            Rel::Pc => soft::cmp(x, lim) == p0,
            _ => rel.code(soft::cmp(x, lim)) != 0,
        };
        let mut n = 0usize;
        while holds(m.xs[n]) && n < K {
            if n == m.valid {
                return Expect::OutOfDomain;
            }
            n += 1;
        }
        Expect::Trips { n: n as u32, last: m.xs[n] }
    }
}

// ---------------------------------------------------------------------------------------------------
// one case
// ---------------------------------------------------------------------------------------------------

#[derive(Clone, Copy, Debug)]
pub struct Case {
    pub form: Form,
    pub rel: Rel,
    pub op: Op,
    pub a: Opd,
    pub step: Opd,
    pub lim: Opd,
}

impl Case {
    pub fn signature(&self) -> String {
        format!("{}:{}/{}(a={},step={},lim={})", self.rel.family(), self.form.name(), self.op.name(), self.a.sig(), self.step.sig(), self.lim.sig())
    }
    pub fn to_json(&self) -> Value {
        json!({
            "family": self.rel.family(), "kind": "dependent_sequence", "form": self.form.name(), "rel": self.rel.name(), "op": self.op.name(),
            "a": self.a.to_json(), "step": self.step.to_json(), "lim": self.lim.to_json(), "k": K,
        })
    }
    pub fn from_json(v: &Value) -> Result<Case, String> {
        let s = |k: &str| v[k].as_str().ok_or_else(|| format!("replay: missing {k} in {v}"));
        Ok(Case {
            form: Form::from_name(s("form")?).ok_or("replay: unknown form")?,
            rel: Rel::from_name(s("rel")?).ok_or("replay: unknown rel")?,
            op: Op::from_name(s("op")?).filter(|o| ASSIGN_OPS.contains(o)).ok_or("replay: unknown assigning op")?,
            a: Opd::from_json(&v["a"])?,
            step: Opd::from_json(&v["step"])?,
            lim: Opd::from_json(&v["lim"])?,
        })
    }
    pub fn describe(&self) -> String {
        let upd = match self.op {
            Op::AddAssign => "x += step",
            Op::SubAssign => "x -= step",
            Op::MulAssign => "x *= step",
            _ => "x /= step",
        };
        let code = match self.form {
            Form::For => format!("x = a; for i in 0..{K} {{ r[i] = {}; {upd}; }}", self.rel.symbol()),
            Form::Unrolled => format!("x = a; r[0] = {0}; {upd}; r[1] = {0}; {upd}; … (written out {K} times)", self.rel.symbol()),
            Form::Fold => format!("(0..{K}).fold((a, 0), |(mut x, bits), i| {{ let c = {}; {upd}; (x, bits | c << 2*i) }})", self.rel.symbol()),
            Form::WhileTrip => match self.rel {
                Rel::Pc => format!("x = a; p0 = x.partial_cmp(&lim); while x.partial_cmp(&lim) == p0 && n < {K} {{ {upd}; n += 1; }}"),
                _ => format!("x = a; while {} && n < {K} {{ {upd}; n += 1; }}", self.rel.symbol()),
            },
            Form::CondUpdate => match self.rel {
                Rel::Pc => format!("x = a; p0 = x.partial_cmp(&lim); for _ in 0..{K} {{ if x.partial_cmp(&lim) == p0 {{ {upd}; n += 1; }} }}"),
                _ => format!("x = a; for _ in 0..{K} {{ if {} {{ {upd}; n += 1; }} }}", self.rel.symbol()),
            },
        };
        format!("{code} with a = {}; step = {}; lim = {}", self.a.describe(), self.step.describe(), self.lim.describe())
    }
}

#[derive(Clone, Copy, Debug, PartialEq, Eq)]
pub enum Verdict {
    Pass,
    Skip,
    Fail,
}

pub struct Outcome {
    pub verdict: Verdict,
    /// number of comparisons of the real code that were compared with the model
    pub comparisons: u64,
    /// the expected answers are not all the same along the sequence (record forms) / the loop stops strictly
    /// between 0 and K updates (counting forms): a comparison evaluated once and reused would be wrong
    pub answer_changes: bool,
    pub summary: String,
}

/// Execute the loop of the real code (same machine code in enumeration and replay).
pub fn run_real(c: &Case) -> Result<([u8; K], u32, [u8; 10]), String> {
    let f = TABLE[c.rel.idx()][op_idx(c.op)][c.form.idx()];
    let (a, step, lim) = (c.a.real(), c.step.real(), c.lim.real());
    catch(move || {
        let mut r = [0u8; K];
        let (x, n) = f(a, step, lim, K, &mut r);
        if c.form == Form::Fold {
            for i in 0..K {
                r[i] = ((n >> (2 * i)) & 3) as u8;
            }
        }
        (r, n, bytes_of(x))
    })
}

fn check_with(c: &Case, m: &ModelSeq, ml: X) -> Outcome {
    let e = expect(m, ml, c.rel, c.form);
    if e == Expect::OutOfDomain {
        return Outcome { verdict: Verdict::Skip, comparisons: 0, answer_changes: false, summary: String::new() };
    }
    let (r, n, xb) = match run_real(c) {
        Ok(t) => t,
        Err(msg) => return Outcome { verdict: Verdict::Fail, comparisons: 0, answer_changes: false, summary: format!("[{}] panicked: {msg}; {}", c.rel.family(), c.describe()) },
    };
    let got_last = soft::decode80(&xb);
    let codes_text = |v: &[u8]| v.iter().map(|&x| c.rel.show_code(x)).collect::<Vec<_>>().join(", ");
    match e {
        Expect::Codes { codes, judged, last } => {
            let ok = r[..judged] == codes[..judged] && last.map_or(true, |l| soft::same(l, got_last));
            let answer_changes = codes[..judged].iter().any(|&x| x != codes[0]);
            let summary = if ok {
                String::new()
            } else {
                format!(
                    "[{}] comparisons of a variable updated in place: expected r = [{}]{}, observed r = [{}], x ends as {}; {}",
                    c.rel.family(),
                    codes_text(&codes[..judged]),
                    last.map_or(String::new(), |l| format!(" and x ends as {}", soft::show(l))),
                    codes_text(&r[..judged]),
                    soft::show(got_last),
                    c.describe()
                )
            };
            Outcome { verdict: if ok { Verdict::Pass } else { Verdict::Fail }, comparisons: judged as u64, answer_changes, summary }
        }
        Expect::Trips { n: want, last } => {
            let ok = n == want && soft::same(last, got_last);
            let summary = if ok {
                String::new()
            } else {
                format!(
                    "[{}] loop guarded by a comparison of a variable updated in place: expected {want} update(s) and x ends as {}, observed {n} update(s) and x ends as {}; {}",
                    c.rel.family(),
                    soft::show(last),
                    soft::show(got_last),
                    c.describe()
                )
            };
            // `while`: the guard is evaluated once more than it held; `cond_update`: once per iteration
            let comparisons = if c.form == Form::WhileTrip { want as u64 + 1 } else { K as u64 };
            Outcome { verdict: if ok { Verdict::Pass } else { Verdict::Fail }, comparisons, answer_changes: want > 0 && (want as usize) < K, summary }
        }
        Expect::OutOfDomain => unreachable!(),
    }
}

/// Plain execution of one recorded case (used by `--replay`, the samples and the enumeration alike).
pub fn check_case(c: &Case) -> Outcome {
    let m = model_seq(c.a.model(), c.step.model(), c.op);
    check_with(c, &m, c.lim.model())
}

pub fn sample_json(c: &Case) -> Value {
    let m = model_seq(c.a.model(), c.step.model(), c.op);
    let o = check_with(c, &m, c.lim.model());
    let real = run_real(c).ok();
    json!({
        "family": c.rel.family(), "case": c.describe(),
        "model_sequence": m.xs[..=m.valid].iter().map(|x| soft::show(*x)).collect::<Vec<_>>(),
        "expected": match expect(&m, c.lim.model(), c.rel, c.form) {
            Expect::Codes { codes, judged, last } => json!({"r": codes[..judged].to_vec(), "x": last.map(soft::show)}),
            Expect::Trips { n, last } => json!({"n": n, "x": soft::show(last)}),
            Expect::OutOfDomain => json!("no requirement: the loop runs into an arithmetic result outside the exponent range"),
        },
        "observed": real.map(|(r, n, x)| if c.form.records() { json!({"r": r.to_vec(), "x": soft::show(soft::decode80(&x))}) } else { json!({"n": n, "x": soft::show(soft::decode80(&x))}) }),
        "result_codes": "lt le gt ge eq: 0 false, 1 true; partial_cmp: 0 None, 1 Less, 2 Equal, 3 Greater",
        "answer_changes_along_the_sequence": o.answer_changes,
        "verdict": format!("{:?}", o.verdict),
    })
}

// ---------------------------------------------------------------------------------------------------
// enumeration
// ---------------------------------------------------------------------------------------------------

/// level of the operands, shell (larger operand index), smaller index, orientation, operator, limit, form:
/// simplest first
type Rank = (u8, u32, u32, u8, u8, u8, u8);

#[derive(Clone)]
pub struct FailRec {
    rank: Rank,
    pub case: Case,
    pub summary: String,
}

#[derive(Clone, Default)]
pub struct Acc {
    pub checked: [u64; 6],
    pub failed: [u64; 6],
    pub skipped: [u64; 6],
    pub first: [Option<FailRec>; 6],
    pub per_form: [u64; 5],
    pub failed_per_form: [u64; 5],
    pub sequences: u64,
    pub comparisons: u64,
    pub answer_changes: u64,
    pub answer_changes_per_form: [u64; 5],
    pub truncated_by_domain: u64,
    pub skipped_out_of_domain: u64,
    pub pairs: u64,
    pub limits: u64,
}

impl Acc {
    pub fn merge(&mut self, o: Acc) {
        for f in 0..6 {
            self.checked[f] += o.checked[f];
            self.failed[f] += o.failed[f];
            self.skipped[f] += o.skipped[f];
        }
        for (f, r) in o.first.into_iter().enumerate() {
            if let Some(r) = r {
                if self.first[f].as_ref().map_or(true, |cur| r.rank < cur.rank) {
                    self.first[f] = Some(r);
                }
            }
        }
        for f in 0..5 {
            self.per_form[f] += o.per_form[f];
            self.failed_per_form[f] += o.failed_per_form[f];
            self.answer_changes_per_form[f] += o.answer_changes_per_form[f];
        }
        self.sequences += o.sequences;
        self.comparisons += o.comparisons;
        self.answer_changes += o.answer_changes;
        self.truncated_by_domain += o.truncated_by_domain;
        self.skipped_out_of_domain += o.skipped_out_of_domain;
        self.pairs += o.pairs;
        self.limits += o.limits;
    }
}

/// Every (a, step) ordered pair of `opds`, every assigning operator, every distinct in-domain value of the
/// model sequence as the limit, every relation, every loop shape.
pub fn run(level: u8, opds: &[Opd]) -> Acc {
    let n = opds.len();
    let models: Vec<X> = opds.iter().map(|o| o.model()).collect();
    let parts: Vec<Acc> = (0..n)
        .into_par_iter()
        .map(|i| {
            // the history of every loop of this task is the task itself: see `run_level` in engine.rs
            fresh_x87_thread_init();
            let mut acc = Acc::default();
            for j in 0..n {
                acc.pairs += 1;
                let (hi, lo, orient) = (i.max(j) as u32, i.min(j) as u32, (i > j) as u8);
                for (oi, &op) in ASSIGN_OPS.iter().enumerate() {
                    let m = model_seq(models[i], models[j], op);
                    acc.truncated_by_domain += (m.valid < K) as u64;
                    // limits: the distinct values the variable takes (x_0 is written as the operand a itself)
                    let mut lims: Vec<(Opd, X)> = vec![(opds[i], m.xs[0])];
                    for t in 1..=m.valid {
                        if !lims.iter().any(|(_, x)| soft::same(*x, m.xs[t])) {
                            lims.push((Opd::Raw(encode80(m.xs[t])), m.xs[t]));
                        }
                    }
                    acc.limits += lims.len() as u64;
                    for (li, (lim, ml)) in lims.iter().enumerate() {
                        for rel in RELS {
                            for form in FORMS {
                                let case = Case { form, rel, op, a: opds[i], step: opds[j], lim: *lim };
                                let o = check_with(&case, &m, *ml);
                                let f = rel.idx();
                                match o.verdict {
                                    Verdict::Skip => {
                                        acc.skipped[f] += 1;
                                        acc.skipped_out_of_domain += 1;
                                        continue;
                                    }
                                    Verdict::Pass => {}
                                    Verdict::Fail => {
                                        acc.failed[f] += 1;
                                        acc.failed_per_form[form.idx()] += 1;
                                        let rank: Rank = (level, hi, lo, orient, oi as u8, li as u8, form.idx() as u8);
                                        if acc.first[f].as_ref().map_or(true, |cur| rank < cur.rank) {
                                            acc.first[f] = Some(FailRec { rank, case, summary: o.summary.clone() });
                                        }
                                    }
                                }
                                acc.checked[f] += 1;
                                acc.per_form[form.idx()] += 1;
                                acc.sequences += 1;
                                acc.comparisons += o.comparisons;
                                acc.answer_changes += o.answer_changes as u64;
                                acc.answer_changes_per_form[form.idx()] += o.answer_changes as u64;
                            }
                        }
                    }
                }
            }
            acc
        })
        .collect();
    let mut acc = Acc::default();
    for p in parts {
        acc.merge(p);
    }
    acc
}
