use crate::history::{self, Prefix};
use crate::interfere;
use crate::seq;
use crate::soft::{self, Info, X};
use rayon::prelude::*;
use rlib_f80::f80;
use std::cmp::Ordering;
use std::collections::HashSet;
use vcore::{catch, json, quiet_panics, Args, Run, Value, Violation};

// ---------------------------------------------------------------------------------------------------
// access to the real type
// ---------------------------------------------------------------------------------------------------

pub(crate) fn bytes_of(x: f80) -> [u8; 10] {
    // f80 is #[repr(align(16))] around a private [u8; 10] at offset 0
    unsafe { std::mem::transmute_copy::<f80, [u8; 10]>(&x) }
}

fn f80_from_bytes(b: [u8; 10]) -> f80 {
    let mut m = std::mem::MaybeUninit::<f80>::zeroed();
    unsafe {
        std::ptr::copy_nonoverlapping(b.as_ptr(), m.as_mut_ptr() as *mut u8, 10);
        m.assume_init()
    }
}

/// The x87 control word of the calling thread.
fn control_word() -> u16 {
    let mut cw: u16 = 0;
    unsafe {
        core::arch::asm!("fnstcw word ptr [{0}]", in(reg) &mut cw as *mut u16, options(nostack));
    }
    cw
}

/// 1 + 2^-63 computed by the engine's own x87 instructions; the ten result bytes.
fn hardware_one_plus_2_pow_minus_63() -> [u8; 10] {
    let tiny: f64 = f64::from_bits(pow2_bits(-63));
    let mut out = [0u8; 16];
    unsafe {
        core::arch::asm!(
            "fld1",
            "fld qword ptr [{0}]",
            "faddp st(1), st",
            "fstp tbyte ptr [{1}]",
            in(reg) &tiny as *const f64,
            in(reg) out.as_mut_ptr(),
            options(nostack)
        );
    }
    out[0..10].try_into().unwrap()
}

/// precision control = 64-bit significand (0b11) and rounding control = nearest (0b00)
fn control_word_ok(cw: u16) -> bool {
    (cw >> 8) & 3 == 3 && (cw >> 10) & 3 == 0
}

// ---------------------------------------------------------------------------------------------------
// operands
// ---------------------------------------------------------------------------------------------------

/// An operand: either an f64 bit pattern (first level: enters through the real `From<f64>`) or the ten
/// bytes of an f80 value the real code produced earlier (second level).
#[derive(Clone, Copy, Debug, PartialEq, Eq, Hash)]
pub(crate) enum Opd {
    F64(u64),
    Raw([u8; 10]),
}

impl Opd {
    pub(crate) fn real(&self) -> f80 {
        match *self {
            Opd::F64(b) => f80::from(f64::from_bits(b)),
            Opd::Raw(b) => f80_from_bytes(b),
        }
    }
    pub(crate) fn model(&self) -> X {
        match *self {
            Opd::F64(b) => soft::from_f64(f64::from_bits(b)),
            Opd::Raw(b) => soft::decode80(&b),
        }
    }
    /// compact, deterministic text used in signatures
    pub(crate) fn sig(&self) -> String {
        match *self {
            Opd::F64(b) => format!("f64:0x{b:016x}"),
            Opd::Raw(b) => format!("f80:{}", hex80(&b)),
        }
    }
    pub(crate) fn describe(&self) -> String {
        match *self {
            Opd::F64(b) => format!("{} = {:e} = {}", self.sig(), f64::from_bits(b), soft::show(self.model())),
            Opd::Raw(_) => format!("{} = {}", self.sig(), soft::show(self.model())),
        }
    }
    pub(crate) fn to_json(&self) -> Value {
        match *self {
            Opd::F64(b) => json!({ "f64": format!("0x{b:016x}") }),
            Opd::Raw(b) => json!({ "f80": hex80(&b) }),
        }
    }
    pub(crate) fn from_json(v: &Value) -> Result<Opd, String> {
        if let Some(s) = v.get("f64").and_then(|s| s.as_str()) {
            let s = s.trim_start_matches("0x");
            return u64::from_str_radix(s, 16).map(Opd::F64).map_err(|e| format!("bad f64 operand: {e}"));
        }
        if let Some(s) = v.get("f80").and_then(|s| s.as_str()) {
            return parse_hex80(s).map(Opd::Raw);
        }
        Err(format!("operand is neither f64 nor f80: {v}"))
    }
}

/// `seee_mmmmmmmmmmmmmmmm`: sign+exponent word, then the 64-bit significand
fn hex80(b: &[u8; 10]) -> String {
    let sig = u64::from_le_bytes(b[0..8].try_into().unwrap());
    let se = u16::from_le_bytes([b[8], b[9]]);
    format!("{se:04x}_{sig:016x}")
}

fn parse_hex80(s: &str) -> Result<[u8; 10], String> {
    let mut it = s.split('_');
    let (a, b) = (it.next().unwrap_or(""), it.next().unwrap_or(""));
    let se = u16::from_str_radix(a, 16).map_err(|e| format!("bad f80 operand {s}: {e}"))?;
    let sig = u64::from_str_radix(b, 16).map_err(|e| format!("bad f80 operand {s}: {e}"))?;
    let mut out = [0u8; 10];
    out[0..8].copy_from_slice(&sig.to_le_bytes());
    out[8..10].copy_from_slice(&se.to_le_bytes());
    Ok(out)
}

// ---------------------------------------------------------------------------------------------------
// operations and check families
// ---------------------------------------------------------------------------------------------------

#[derive(Clone, Copy, Debug, PartialEq, Eq)]
pub(crate) enum Op {
    Add,
    Sub,
    Mul,
    Div,
    AddAssign,
    SubAssign,
    MulAssign,
    DivAssign,
    Min,
    Max,
    Lt,
    Le,
    Gt,
    Ge,
    Eq,
    PartialCmp,
    EqVsPartialCmp,
    Neg,
    Abs,
    ToF64,
    FromF64,
    Roundtrip,
}

pub(crate) const ALL_OPS: [Op; 22] = [
    Op::Add,
    Op::Sub,
    Op::Mul,
    Op::Div,
    Op::AddAssign,
    Op::SubAssign,
    Op::MulAssign,
    Op::DivAssign,
    Op::Min,
    Op::Max,
    Op::Lt,
    Op::Le,
    Op::Gt,
    Op::Ge,
    Op::Eq,
    Op::PartialCmp,
    Op::EqVsPartialCmp,
    Op::Neg,
    Op::Abs,
    Op::ToF64,
    Op::FromF64,
    Op::Roundtrip,
];
/// applied to every ordered pair
const BIN_OPS: [Op; 17] = [
    Op::Add,
    Op::Sub,
    Op::Mul,
    Op::Div,
    Op::AddAssign,
    Op::SubAssign,
    Op::MulAssign,
    Op::DivAssign,
    Op::Min,
    Op::Max,
    Op::Lt,
    Op::Le,
    Op::Gt,
    Op::Ge,
    Op::Eq,
    Op::PartialCmp,
    Op::EqVsPartialCmp,
];
/// applied to every single operand (FromF64 and Roundtrip only to f64 operands)
const UN_OPS: [Op; 5] = [Op::FromF64, Op::Roundtrip, Op::Neg, Op::Abs, Op::ToF64];

impl Op {
    fn idx(self) -> usize {
        ALL_OPS.iter().position(|&o| o == self).unwrap()
    }
    pub(crate) fn name(self) -> &'static str {
        match self {
            Op::Add => "add",
            Op::Sub => "sub",
            Op::Mul => "mul",
            Op::Div => "div",
            Op::AddAssign => "add_assign",
            Op::SubAssign => "sub_assign",
            Op::MulAssign => "mul_assign",
            Op::DivAssign => "div_assign",
            Op::Min => "min",
            Op::Max => "max",
            Op::Lt => "lt",
            Op::Le => "le",
            Op::Gt => "gt",
            Op::Ge => "ge",
            Op::Eq => "eq",
            Op::PartialCmp => "partial_cmp",
            Op::EqVsPartialCmp => "eq_consistent_with_partial_cmp",
            Op::Neg => "neg",
            Op::Abs => "abs",
            Op::ToF64 => "to_f64",
            Op::FromF64 => "from_f64",
            Op::Roundtrip => "f64_roundtrip",
        }
    }
    pub(crate) fn from_name(s: &str) -> Option<Op> {
        ALL_OPS.iter().copied().find(|o| o.name() == s)
    }
    pub(crate) fn binary(self) -> bool {
        BIN_OPS.contains(&self)
    }
    /// the underlying arithmetic operation of an arithmetic / assigning form
    pub(crate) fn arith_base(self) -> Option<Op> {
        match self {
            Op::Add | Op::AddAssign => Some(Op::Add),
            Op::Sub | Op::SubAssign => Some(Op::Sub),
            Op::Mul | Op::MulAssign => Some(Op::Mul),
            Op::Div | Op::DivAssign => Some(Op::Div),
            _ => None,
        }
    }
}

/// Operand class of a relation check: families are split so that the NaN and the signed-zero behaviour
/// are reported separately from the ordinary ordering.
const CLASS_PLAIN: usize = 0;
const CLASS_NAN: usize = 1;
const CLASS_SIGNED_ZERO: usize = 2;
const CLASS_SUFFIX: [&str; 3] = ["", "_nan", "_signed_zero"];
const FAM_PANIC: usize = ALL_OPS.len() * 3;
const NFAM: usize = FAM_PANIC + 1;

fn fam_name(f: usize) -> String {
    if f == FAM_PANIC {
        return "panic".to_string();
    }
    format!("{}{}", ALL_OPS[f / 3].name(), CLASS_SUFFIX[f % 3])
}

#[derive(Clone, Copy, Debug, PartialEq)]
enum Val {
    /// an f80 datum, exact (sign, exponent, significand); NaN matches any NaN
    F80(X),
    /// an f80 datum required only by value (either zero accepted for zero)
    F80ByValue(X),
    Bool(bool),
    Pc(Option<Ordering>),
    F64(u64),
    EqAndPc(bool, Option<Ordering>),
    Text(&'static str),
}

fn show_val(v: &Val) -> String {
    match v {
        Val::F80(x) => soft::show(*x),
        Val::F80ByValue(x) => format!("a value equal to {}", soft::show(*x)),
        Val::Bool(b) => b.to_string(),
        Val::Pc(p) => format!("{p:?}"),
        Val::F64(b) => format!("f64 0x{b:016x} ({:e})", f64::from_bits(*b)),
        Val::EqAndPc(e, p) => format!("(a == b) = {e}, a.partial_cmp(b) = {p:?}"),
        Val::Text(t) => t.to_string(),
    }
}

#[derive(Clone, Copy, Debug, PartialEq, Eq)]
enum Verdict {
    Pass,
    /// no requirement in the property for this input (counted)
    Skip,
    Fail,
}

#[derive(Clone, Copy, Debug)]
struct Outcome {
    fam: usize,
    verdict: Verdict,
    expected: Val,
    observed: Val,
    /// which path the model's rounding took (arithmetic and to_f64 only)
    info: Info,
    /// the model's result of an arithmetic operation
    mres: Option<X>,
    /// bytes of the real result of an arithmetic operation
    result: Option<[u8; 10]>,
    /// exact IEEE relation of the operands (binary operations)
    rel: Option<Option<Ordering>>,
}

pub(crate) fn model_arith(base: Op, a: X, b: X, info: &mut Info) -> X {
    match base {
        Op::Add => soft::add(a, b, info),
        Op::Sub => soft::sub(a, b, info),
        Op::Mul => soft::mul(a, b, info),
        Op::Div => soft::div(a, b, info),
        _ => unreachable!(),
    }
}

fn same_f64(a: f64, b: f64) -> bool {
    a.to_bits() == b.to_bits() || (a.is_nan() && b.is_nan())
}

/// WHERE the two operands of a binary operation live when the real code is called.  f80 values are plain data and
/// the property speaks about operand VALUES, so none of this may change an answer; every family that judged a call
/// on two separate temporaries only left out the calls in which both operands are one object (`x == x`, `x != x`,
/// `x.partial_cmp(&x)`, `x.min(x)`, `x + x`, `x -= x` …: possible exactly when the two operand values are the
/// same) and the calls on neighbouring array elements.
#[derive(Clone, Copy, Debug, PartialEq, Eq)]
pub(crate) enum Place {
    /// two separate local variables (every case)
    Separate,
    /// both operands are ONE local variable: relations get the same reference twice, by-value operations read the
    /// same variable twice, the assigning forms are `x op= x` (cases whose two operands are the same operand)
    SameObject,
    /// the operands are the elements [0] and [1] of one `[f80; 2]` (adjacent in memory, a first)
    Array,
    /// the operands are the elements [1] and [0] of one `[f80; 2]` (adjacent in memory, b first)
    ArrayReversed,
    /// both operands are ONE element of a `[f80; 2]` whose other element holds a different value
    SameElement,
}

pub(crate) const PLACES: [Place; 5] = [Place::Separate, Place::SameObject, Place::Array, Place::ArrayReversed, Place::SameElement];

impl Place {
    pub(crate) fn idx(self) -> usize {
        PLACES.iter().position(|&p| p == self).unwrap()
    }
    pub(crate) fn name(self) -> &'static str {
        match self {
            Place::Separate => "separate",
            Place::SameObject => "same_object",
            Place::Array => "array_elements_0_1",
            Place::ArrayReversed => "array_elements_1_0",
            Place::SameElement => "same_array_element",
        }
    }
    pub(crate) fn from_name(s: &str) -> Option<Place> {
        PLACES.iter().copied().find(|p| p.name() == s)
    }
    /// needs the two operands to be the same operand
    fn aliases(self) -> bool {
        matches!(self, Place::SameObject | Place::SameElement)
    }
    fn describe(self) -> &'static str {
        match self {
            Place::Separate => "",
            Place::SameObject => " [both operands are the SAME object: one local variable x, called as `x == x`, `x.partial_cmp(&x)`, `x + x`, `x.min(x)`, `x -= x` …]",
            Place::Array => " [the operands are the adjacent elements v[0] (a) and v[1] (b) of one array]",
            Place::ArrayReversed => " [the operands are the adjacent elements v[1] (a) and v[0] (b) of one array]",
            Place::SameElement => " [both operands are the SAME element v[0] of an array: `v[0] == v[0]` …]",
        }
    }
}

/// What the real code handed back for one call — nothing of the model in it.
#[derive(Clone, Copy, Debug, PartialEq, Eq)]
pub(crate) enum Raw {
    F80([u8; 10]),
    Bool(bool),
    Pc(Option<Ordering>),
    EqAndPc(bool, Option<Ordering>),
    /// (a == b, a != b)
    EqNe(bool, bool),
    F64(u64),
}

/// Execute ONE operation of the real code on one operand tuple (no model involved).
#[inline(never)]
pub(crate) fn execute(op: Op, a: &Opd, b: &Opd, place: Place) -> Raw {
    if !op.binary() {
        return match op {
            Op::Neg => Raw::F80(bytes_of(-a.real())),
            Op::Abs => Raw::F80(bytes_of(a.real().abs())),
            Op::ToF64 => Raw::F64(f64::from(a.real()).to_bits()),
            Op::FromF64 => {
                let Opd::F64(bits) = *a else { panic!("from_f64 needs an f64 operand") };
                Raw::F80(bytes_of(f80::from(f64::from_bits(bits))))
            }
            Op::Roundtrip => {
                let Opd::F64(bits) = *a else { panic!("f64_roundtrip needs an f64 operand") };
                let back: f64 = f80::from(f64::from_bits(bits)).into();
                Raw::F64(back.to_bits())
            }
            _ => unreachable!(),
        };
    }
    assert!(!place.aliases() || a == b, "both operands can only be one object when they are the same operand");
    let (xa, xb) = (a.real(), b.real());
    // the other element of the array of `SameElement` holds a different value: the negation of the bits
    let other = f80_from_bytes(bytes_of(xa).map(|x| !x));
    let v: [f80; 2] = match place {
        Place::ArrayReversed => [xb, xa],
        Place::SameElement => [xa, other],
        _ => [xa, xb],
    };
    let (ra, rb): (&f80, &f80) = match place {
        Place::Separate => (&xa, &xb),
        Place::SameObject => (&xa, &xa),
        Place::Array => (&v[0], &v[1]),
        Place::ArrayReversed => (&v[1], &v[0]),
        Place::SameElement => (&v[0], &v[0]),
    };
    // the assigning forms need `&mut`: the left operand is a variable / an array element that is updated in place
    let assign = |f: fn(&mut f80, f80)| -> Raw {
        match place {
            Place::Separate => {
                let mut c = xa;
                f(&mut c, xb);
                Raw::F80(bytes_of(c))
            }
            Place::SameObject => {
                let mut c = xa;
                let rhs = c; // `c op= c`
                f(&mut c, rhs);
                Raw::F80(bytes_of(c))
            }
            Place::Array | Place::ArrayReversed | Place::SameElement => {
                let mut w = v;
                let (l, r) = match place {
                    Place::Array => (0, 1),
                    Place::ArrayReversed => (1, 0),
                    _ => (0, 0),
                };
                let rhs = w[r]; // `w[l] op= w[r]`
                f(&mut w[l], rhs);
                // the neighbour is not touched by the update
                if bytes_of(w[1 - l]) != bytes_of(v[1 - l]) {
                    return Raw::F80([0xEE; 10]);
                }
                Raw::F80(bytes_of(w[l]))
            }
        }
    };
    match op {
        Op::Add => Raw::F80(bytes_of(*ra + *rb)),
        Op::Sub => Raw::F80(bytes_of(*ra - *rb)),
        Op::Mul => Raw::F80(bytes_of(*ra * *rb)),
        Op::Div => Raw::F80(bytes_of(*ra / *rb)),
        Op::AddAssign => assign(|c, r| *c += r),
        Op::SubAssign => assign(|c, r| *c -= r),
        Op::MulAssign => assign(|c, r| *c *= r),
        Op::DivAssign => assign(|c, r| *c /= r),
        Op::Min => Raw::F80(bytes_of(ra.min(*rb))),
        Op::Max => Raw::F80(bytes_of(ra.max(*rb))),
        Op::Lt => Raw::Bool(*ra < *rb),
        Op::Le => Raw::Bool(*ra <= *rb),
        Op::Gt => Raw::Bool(*ra > *rb),
        Op::Ge => Raw::Bool(*ra >= *rb),
        // `!=` is the provided method `ne`, which a type may override: both are called
        Op::Eq => Raw::EqNe(*ra == *rb, *ra != *rb),
        Op::PartialCmp => Raw::Pc(ra.partial_cmp(rb)),
        Op::EqVsPartialCmp => Raw::EqAndPc(*ra == *rb, ra.partial_cmp(rb)),
        _ => unreachable!(),
    }
}

/// Ten bytes the x87 does not support as a value (exponent field non-zero, integer bit clear: unnormals,
/// pseudo-infinities, pseudo-NaNs).  No x87 instruction produces them and loading one is an invalid operation; the
/// decoder of the model would read them as the number / infinity they resemble.
fn unsupported_encoding(b: &[u8; 10]) -> bool {
    u16::from_le_bytes([b[8], b[9]]) & 0x7fff != 0 && b[7] & 0x80 == 0
}

/// THE oracle: what the real code returned for one operation on one operand tuple against the model.
fn judge(op: Op, a: &Opd, b: &Opd, raw: Raw) -> Outcome {
    let mut out = judge_value(op, a, b, raw);
    if let Raw::F80(bytes) = raw {
        // a result that passes by the value it resembles must also be a value
        if out.verdict == Verdict::Pass && unsupported_encoding(&bytes) {
            out.verdict = Verdict::Fail;
            out.observed = Val::Text("ten bytes that are not an encoding the x87 supports (exponent field non-zero, integer bit clear)");
        }
    }
    if let (Op::ToF64, Opd::Raw(bytes)) = (op, a) {
        // nothing is demanded about the conversion of something that is not an f80 value
        if unsupported_encoding(bytes) {
            out.verdict = Verdict::Skip;
        }
    }
    out
}

fn judge_value(op: Op, a: &Opd, b: &Opd, raw: Raw) -> Outcome {
    let ma = a.model();
    let mb = b.model();
    let mut info = Info::default();
    let mut out = Outcome { fam: op.idx() * 3, verdict: Verdict::Pass, expected: Val::Text(""), observed: Val::Text(""), info, mres: None, result: None, rel: None };
    let verdict = |ok: bool| if ok { Verdict::Pass } else { Verdict::Fail };
    let f80_of = |raw: Raw| match raw {
        Raw::F80(b) => b,
        other => panic!("engine: {op:?} returned {other:?}"),
    };
    match op {
        Op::Add | Op::Sub | Op::Mul | Op::Div | Op::AddAssign | Op::SubAssign | Op::MulAssign | Op::DivAssign => {
            let gb = f80_of(raw);
            let d = soft::decode80(&gb);
            let want = model_arith(op.arith_base().unwrap(), ma, mb, &mut info);
            out.info = info;
            out.mres = Some(want);
            out.result = Some(gb);
            out.expected = Val::F80(want);
            out.observed = if gb == [0xEE; 10] { Val::Text("the update of one array element changed its neighbour") } else { Val::F80(d) };
            // the statement speaks of "the exact result rounded to a 64-bit significand": results that leave
            // the exponent range of the format (overflow, gradual underflow) are outside it
            out.verdict = if gb == [0xEE; 10] {
                Verdict::Fail
            } else if info.overflow || info.denormal {
                Verdict::Skip
            } else {
                verdict(soft::same(d, want))
            };
        }
        Op::Min | Op::Max => {
            let d = soft::decode80(&f80_of(raw));
            let c = soft::cmp(ma, mb);
            out.rel = Some(c);
            out.observed = Val::F80(d);
            match c {
                None => {
                    out.verdict = Verdict::Skip;
                }
                Some(o) => {
                    let want = if op == Op::Min {
                        if o == Ordering::Greater {
                            mb
                        } else {
                            ma
                        }
                    } else if o == Ordering::Less {
                        mb
                    } else {
                        ma
                    };
                    out.expected = Val::F80ByValue(want);
                    out.verdict = verdict(soft::cmp(d, want) == Some(Ordering::Equal));
                }
            }
        }
        Op::Lt | Op::Le | Op::Gt | Op::Ge | Op::Eq | Op::PartialCmp | Op::EqVsPartialCmp => {
            let c = soft::cmp(ma, mb);
            out.rel = Some(c);
            let class = if c.is_none() {
                CLASS_NAN
            } else if soft::is_zero(ma) && soft::is_zero(mb) && soft::sign(ma) != soft::sign(mb) {
                CLASS_SIGNED_ZERO
            } else {
                CLASS_PLAIN
            };
            if op != Op::EqVsPartialCmp {
                out.fam = op.idx() * 3 + class;
            }
            match (op, raw) {
                (Op::PartialCmp, Raw::Pc(got)) => {
                    out.expected = Val::Pc(c);
                    out.observed = Val::Pc(got);
                    out.verdict = verdict(got == c);
                }
                (Op::EqVsPartialCmp, Raw::EqAndPc(e, p)) => {
                    out.expected = Val::Text("(a == b) exactly when a.partial_cmp(b) == Some(Equal)");
                    out.observed = Val::EqAndPc(e, p);
                    out.verdict = verdict(e == (p == Some(Ordering::Equal)));
                }
                (Op::Eq, Raw::EqNe(e, n)) => {
                    let want = c == Some(Ordering::Equal);
                    out.expected = Val::Bool(want);
                    out.observed = match (e, n) {
                        (true, true) => Val::Text("(a == b) = true, but (a != b) = true as well"),
                        (false, false) => Val::Text("(a == b) = false, but (a != b) = false as well"),
                        _ => Val::Bool(e),
                    };
                    out.verdict = verdict(e == want && n != want);
                }
                (_, Raw::Bool(got)) => {
                    let want = match op {
                        Op::Lt => c == Some(Ordering::Less),
                        Op::Le => matches!(c, Some(Ordering::Less) | Some(Ordering::Equal)),
                        Op::Gt => c == Some(Ordering::Greater),
                        Op::Ge => matches!(c, Some(Ordering::Greater) | Some(Ordering::Equal)),
                        _ => unreachable!(),
                    };
                    out.expected = Val::Bool(want);
                    out.observed = Val::Bool(got);
                    out.verdict = verdict(got == want);
                }
                (_, other) => panic!("engine: {op:?} returned {other:?}"),
            }
        }
        Op::Neg => {
            let d = soft::decode80(&f80_of(raw));
            let want = soft::neg(ma);
            out.expected = Val::F80(want);
            out.observed = Val::F80(d);
            out.verdict = verdict(soft::same(d, want));
        }
        Op::Abs => {
            let d = soft::decode80(&f80_of(raw));
            let want = soft::abs(ma);
            out.observed = Val::F80(d);
            if soft::is_nan(ma) {
                out.fam = op.idx() * 3 + CLASS_NAN;
                out.expected = Val::F80(X::Nan);
                out.verdict = verdict(soft::is_nan(d));
            } else {
                out.expected = Val::F80ByValue(want);
                out.verdict = verdict(soft::cmp(d, want) == Some(Ordering::Equal));
            }
        }
        Op::ToF64 => {
            let Raw::F64(got) = raw else { panic!("engine: to_f64 returned {raw:?}") };
            let got = f64::from_bits(got);
            let want = soft::to_f64(ma, &mut info);
            out.info = info;
            out.expected = Val::F64(want.to_bits());
            out.observed = Val::F64(got.to_bits());
            out.verdict = verdict(same_f64(got, want));
        }
        Op::FromF64 => {
            let d = soft::decode80(&f80_of(raw));
            out.expected = Val::F80(ma);
            out.observed = Val::F80(d);
            out.verdict = verdict(soft::same(d, ma));
        }
        Op::Roundtrip => {
            let Opd::F64(bits) = *a else { panic!("f64_roundtrip needs an f64 operand") };
            let Raw::F64(back) = raw else { panic!("engine: f64_roundtrip returned {raw:?}") };
            let (f, back) = (f64::from_bits(bits), f64::from_bits(back));
            out.expected = Val::F64(bits);
            out.observed = Val::F64(back.to_bits());
            out.verdict = verdict(same_f64(back, f));
        }
    }
    out
}

fn check_one(op: Op, a: &Opd, b: &Opd, place: Place) -> Outcome {
    judge(op, a, b, execute(op, a, b, place))
}

/// check_one with a panic of the code under test turned into a failure of the family `panic`.
fn check_caught(op: Op, a: &Opd, b: &Opd, place: Place) -> (Outcome, Option<String>) {
    match catch(|| check_one(op, a, b, place)) {
        Ok(o) => (o, None),
        Err(msg) => (
            Outcome { fam: FAM_PANIC, verdict: Verdict::Fail, expected: Val::Text("no panic"), observed: Val::Text("panic"), info: Info::default(), mres: None, result: None, rel: None },
            Some(msg),
        ),
    }
}

fn case_text(op: Op, a: &Opd, b: &Opd, place: Place) -> String {
    if op.binary() && place != Place::Separate {
        format!("{}({},{})@{}", op.name(), a.sig(), b.sig(), place.name())
    } else if op.binary() {
        format!("{}({},{})", op.name(), a.sig(), b.sig())
    } else {
        format!("{}({})", op.name(), a.sig())
    }
}

fn case_json(fam: usize, op: Op, a: &Opd, b: &Opd, place: Place) -> Value {
    if op.binary() {
        json!({"family": fam_name(fam), "op": op.name(), "a": a.to_json(), "b": b.to_json(), "operands_live_in": place.name()})
    } else {
        json!({"family": fam_name(fam), "op": op.name(), "a": a.to_json()})
    }
}

fn summary(op: Op, a: &Opd, b: &Opd, place: Place, o: &Outcome, panic_msg: &Option<String>) -> String {
    let operands = if op.binary() { format!("a = {}; b = {}{}", a.describe(), b.describe(), place.describe()) } else { format!("a = {}", a.describe()) };
    match panic_msg {
        Some(m) => format!("[{}] {} panicked: {m}; {operands}", fam_name(o.fam), op.name()),
        None => format!("[{}] {}: expected {}, observed {}; {operands}", fam_name(o.fam), op.name(), show_val(&o.expected), show_val(&o.observed)),
    }
}

/// What every thread that executes code under test outside the rayon pool does first: start from the
/// architectural x87 state, then the library's f80_init().
/// A new thread inherits the x87 control word of the thread that spawned it, and that one has already run the
/// library's f80_init(): start from the architectural default (fninit: 64-bit precision, round to nearest,
/// empty register stack), as a program's main thread does.
pub(crate) fn fresh_x87_thread_init() {
    unsafe {
        core::arch::asm!("fninit", options(nomem, nostack));
    }
    if !control_word_ok(control_word()) {
        eprintln!("replay: x87 control word after fninit is not 64-bit precision / round-to-nearest");
        std::process::exit(2);
    }
    rlib_f80::f80_init();
}

/// Run `f` on a fresh thread that starts from the architectural x87 state, after the library's f80_init().
/// f80 operations must be pure, but a defect that leaks x87 register-stack slots (or any other per-thread
/// state) only shows after some calls on one thread; a fresh thread starts from a clean FPU state, so the two
/// confirming runs see the same thing.
fn on_fresh_thread<R: Send + 'static>(f: impl FnOnce() -> R + Send + 'static) -> Result<R, String> {
    std::thread::spawn(move || {
        fresh_x87_thread_init();
        f()
    })
    .join()
    .map_err(|_| "replay thread panicked".to_string())
}

/// One recorded case: a single operation or a dependent sequence.
#[derive(Clone, Copy)]
enum Recorded {
    Single { op: Op, a: Opd, b: Opd, place: Place },
    Sequence(seq::Case),
}

impl Recorded {
    fn from_json(v: &Value) -> Result<Recorded, String> {
        if v["kind"] == "dependent_sequence" {
            return Ok(Recorded::Sequence(seq::Case::from_json(v)?));
        }
        let op = v["op"].as_str().and_then(Op::from_name).ok_or_else(|| format!("replay: unknown op in {v}"))?;
        let a = Opd::from_json(&v["a"])?;
        let b = if op.binary() { Opd::from_json(&v["b"])? } else { a };
        let place = match v["operands_live_in"].as_str() {
            None => Place::Separate,
            Some(s) => Place::from_name(s).ok_or_else(|| format!("replay: unknown placement of the operands {s}"))?,
        };
        if place.aliases() && a != b {
            return Err("replay: both operands can only be one object when they are the same operand".into());
        }
        Ok(Recorded::Single { op, a, b, place })
    }

    /// The plain re-execution on the CURRENT thread: the recorded call 16 times, with every other operation on
    /// the same operands between the repetitions.  Err(summary) if something fails.
    fn alone(&self) -> Result<(), String> {
        match *self {
            Recorded::Sequence(case) => {
                // the loop is the same #[inline(never)] function the enumeration called: same machine code
                for rep in 0..16 {
                    let o = seq::check_case(&case);
                    if o.verdict == seq::Verdict::Fail {
                        return Err(if rep == 0 { o.summary } else { format!("{} [on repetition {rep} on one fresh thread: the result depends on earlier f80 calls]", o.summary) });
                    }
                }
                Ok(())
            }
            Recorded::Single { op, a, b, place } => {
                for rep in 0..16 {
                    let (o, pm) = check_caught(op, &a, &b, place);
                    if let Verdict::Fail = o.verdict {
                        let s = summary(op, &a, &b, place, &o, &pm);
                        return Err(if rep == 0 { s } else { format!("{s} [on repetition {rep} on one fresh thread, after the other f80 operations were called on the same operands: the result depends on earlier f80 calls]") });
                    }
                    // interference: every other operation on the same operands (an f80 -> f64 conversion, a
                    // comparison …); f80 has no state, so none of this may change what the recorded call returns
                    for other in ALL_OPS {
                        if other == op || matches!(other, Op::FromF64 | Op::Roundtrip) && !matches!(a, Opd::F64(_)) {
                            continue;
                        }
                        let bb = if other.binary() { b } else { a };
                        let (o2, pm2) = check_caught(other, &a, &bb, place);
                        if let Verdict::Fail = o2.verdict {
                            return Err(format!("{} [called on one fresh thread after {} round(s) of all f80 operations on the same operands: the result depends on earlier f80 calls]", summary(other, &a, &bb, place, &o2, &pm2), rep + 1));
                        }
                    }
                }
                Ok(())
            }
        }
    }

    fn call_text(&self) -> String {
        match self {
            Recorded::Single { op, a, b, place } => case_text(*op, a, b, *place),
            Recorded::Sequence(c) => c.signature(),
        }
    }

    fn operands_text(&self) -> String {
        match self {
            Recorded::Single { op, a, b, place } if op.binary() => format!("a = {}; b = {}{}", a.describe(), b.describe(), place.describe()),
            Recorded::Single { a, .. } => format!("a = {}", a.describe()),
            Recorded::Sequence(c) => c.describe(),
        }
    }

    /// what the real code returns, as text (for a summary; never compared)
    fn show(r: &Result<Observed, String>) -> String {
        match r {
            Ok(Observed::Single(Raw::F80(b))) => soft::show(soft::decode80(b)),
            Ok(Observed::Single(Raw::F64(b))) => format!("f64 0x{b:016x} ({:e})", f64::from_bits(*b)),
            Ok(Observed::Single(other)) => format!("{other:?}"),
            Ok(Observed::Sequence(r, n, x)) => format!("result codes {r:?}, count {n}, x ends as {}", soft::show(soft::decode80(x))),
            Err(p) => format!("a panic: {p}"),
        }
    }

    /// the real code only
    fn observe(&self) -> Result<Observed, String> {
        match self {
            Recorded::Single { op, a, b, place } => catch(|| Observed::Single(execute(*op, a, b, *place))),
            Recorded::Sequence(c) => seq::run_real(c).map(|(r, n, x)| Observed::Sequence(r, n, x)),
        }
    }
}

#[derive(Clone, Copy, PartialEq, Eq, Debug)]
enum Observed {
    Single(Raw),
    Sequence([u8; seq::K], u32, [u8; 10]),
}

/// What re-executing a case under interference found.
enum UnderInterference {
    /// it already fails when the thread runs alone: a plain violation, reported as such
    FailsAlone(String),
    /// alone it is right (and the model agrees), with other threads computing it came out different
    Depends { text: String, example: String },
    Independent { reps: u64 },
    /// the interfering threads did not get to run at the same time
    NoInterference,
}

/// The recorded case on the CURRENT (fresh) thread: alone first, then repeated under the crowd (started here
/// unless one is passed in, in which case `alone_value` must have been observed before it was started).
fn under_interference(case: &Recorded, crowd: Option<&interfere::Crowd>, alone_value: Option<Result<Observed, String>>) -> UnderInterference {
    let alone_value = match alone_value {
        Some(v) => v,
        None => {
            if let Err(s) = case.alone() {
                return UnderInterference::FailsAlone(s);
            }
            case.observe()
        }
    };
    let own;
    let crowd = match crowd {
        Some(c) => c,
        None => {
            own = interfere::Crowd::start();
            &own
        }
    };
    let n = crowd.threads();
    match crowd.judge(&alone_value, || case.observe()) {
        interfere::Judged::Same { reps } => UnderInterference::Independent { reps },
        interfere::Judged::NoInterference => UnderInterference::NoInterference,
        interfere::Judged::Differs { rep, got } => UnderInterference::Depends {
            // the text of the verdict carries nothing that varies between two runs (which repetition, which foreign value)
            text: format!(
                "[interference] {}: on a thread that runs alone the call returns {} (16 of 16 calls, and that is what the model demands), but repeated up to {} times while {n} other thread(s) execute f80 operations on OTHER operands, some repetition returns something else: the result depends on what other threads are computing at the same time; {}",
                case.call_text(),
                Recorded::show(&alone_value),
                interfere::REPS,
                case.operands_text()
            ),
            example: format!("repetition {rep} returned {}", Recorded::show(&got)),
        },
    }
}

/// Plain re-execution of one recorded case.
fn confirm(v: &Value) -> Result<(), String> {
    let case = Recorded::from_json(v)?;
    if !v["history"].is_null() {
        // the recorded history first, then the recorded case, all on one fresh thread
        let prefix = Prefix::from_json(&v["history"])?;
        return on_fresh_thread(move || {
            if !prefix.run() {
                eprintln!("replay: the recorded history cannot be re-created (x87 exceptions are unmasked on a fresh thread): no verdict");
                std::process::exit(2)
            }
            case.alone().map_err(|s| history_text(&case, &prefix, &s))
        })?;
    }
    if v["interference"] == true {
        return on_fresh_thread(move || match under_interference(&case, None, None) {
            UnderInterference::FailsAlone(s) => Err(s),
            UnderInterference::Depends { text, .. } => Err(text),
            UnderInterference::Independent { .. } => Ok(()),
            UnderInterference::NoInterference => {
                eprintln!("replay: the interfering threads did not run while the recorded call was repeated (overloaded machine?): no verdict");
                std::process::exit(2)
            }
        })?;
    }
    on_fresh_thread(move || case.alone())?
}

// ---------------------------------------------------------------------------------------------------
// the boundary set
// ---------------------------------------------------------------------------------------------------

fn pow2_bits(k: i32) -> u64 {
    if k >= -1022 {
        ((k + 1023) as u64) << 52
    } else {
        1u64 << (k + 1074)
    }
}

/// Boundary set B of f64 bit patterns, simplest first; every pattern is followed by its negation.
fn boundary_set() -> Vec<u64> {
    let eps = f64::EPSILON;
    let inf = f64::INFINITY.to_bits();
    let mut v: Vec<u64> = vec![];
    for f in [0.0, 1.0, 2.0, 3.0, 0.5, 10.0, 0.1, 1.0 / 3.0, 2.0 / 3.0, 123.456, 100.1, 1e17, f64::INFINITY, f64::NAN] {
        v.push(f64::to_bits(f));
    }
    for f in [1.0 + eps, 1.0 - eps / 2.0, 2.0 - eps, f64::MAX, f64::MIN_POSITIVE] {
        v.push(f.to_bits());
    }
    // smallest / largest subnormal, 3 * smallest subnormal, MAX / 3
    v.extend([1u64, (1u64 << 52) - 1, 3u64, (f64::MAX / 3.0).to_bits()]);
    // 2^k and its two neighbours, 22 exponents
    for k in [0i32, 1, -1, 2, 52, -52, 53, -53, 54, 63, -63, 64, -64, 65, 512, -537, 1022, -1021, -1022, 1023, -1073, -1074] {
        let b = pow2_bits(k);
        v.push(b);
        if b > 0 {
            v.push(b - 1);
        }
        if b + 1 < inf {
            v.push(b + 1);
        }
    }
    // long carry chains: all-ones / alternating / single-bit significands at five exponents
    for m in [0xFFFFFFFFFFFFFu64, 0xAAAAAAAAAAAAA, 0x5555555555555, 0x8000000000001, 0x7FFFFFFFFFFFF, 0x0000000000001] {
        for e in [1023u64, 1022, 1024, 1, 2046] {
            v.push((e << 52) | m);
        }
    }
    let mut out = vec![];
    let mut seen = HashSet::new();
    for b in v {
        for c in [b, b ^ (1u64 << 63)] {
            if seen.insert(c) {
                out.push(c);
            }
        }
    }
    out
}

// ---------------------------------------------------------------------------------------------------
// enumeration
// ---------------------------------------------------------------------------------------------------

/// Position of a case in the enumeration: level, where the operands live (separate temporaries first), then the
/// larger operand index ("shell"), then the smaller, then the orientation, then the operation.  The first failing
/// case of a family is the minimum.
type Rank = (u8, u8, u32, u32, u8, u8);

#[derive(Clone, Debug)]
struct FailRec {
    rank: Rank,
    op: Op,
    a: Opd,
    b: Opd,
    place: Place,
    summary: String,
}

const C_NAMES: [&str; 34] = [
    "arith_checked",
    "arith_inexact_rounding_decided",
    "arith_exact_ties_to_even",
    "arith_rounded_up",
    "arith_nan_results",
    "arith_inf_results",
    "arith_zero_results",
    "arith_cases_where_f64_routing_would_differ",
    "addsub_operands_within_64_binades",
    "addsub_cancellation",
    "subdiv_cases_where_swapped_operands_would_differ",
    "to_f64_checked",
    "to_f64_inexact",
    "to_f64_exact_ties",
    "to_f64_rounded_up_truncation_would_differ",
    "to_f64_subnormal_results",
    "to_f64_overflow_to_inf",
    "pairs_less",
    "pairs_equal",
    "pairs_greater",
    "pairs_unordered_nan",
    "pairs_signed_zero",
    "minmax_checked_operands_differ",
    "distinct_nontrivial",
    "arith_cases_with_full_width_operand",
    "skipped_out_of_domain",
    "skipped_minmax_nan_operand",
    "pairs",
    "arith_results_passing_but_not_canonical_bytes",
    "cases_operands_in_separate_variables",
    "cases_both_operands_the_same_object",
    "cases_operands_adjacent_array_elements_0_1",
    "cases_operands_adjacent_array_elements_1_0",
    "cases_both_operands_the_same_array_element",
];
const C_ARITH: usize = 0;
const C_INEXACT: usize = 1;
const C_TIE: usize = 2;
const C_UP: usize = 3;
const C_NANRES: usize = 4;
const C_INFRES: usize = 5;
const C_ZERORES: usize = 6;
const C_F64ROUTE: usize = 7;
const C_NEAR: usize = 8;
const C_CANCEL: usize = 9;
const C_SWAP: usize = 10;
const C_TOF: usize = 11;
const C_TOF_INEXACT: usize = 12;
const C_TOF_TIE: usize = 13;
const C_TOF_UP: usize = 14;
const C_TOF_SUB: usize = 15;
const C_TOF_OVF: usize = 16;
const C_LESS: usize = 17;
const C_EQUAL: usize = 18;
const C_GREATER: usize = 19;
const C_UNORD: usize = 20;
const C_SZERO: usize = 21;
const C_MINMAX: usize = 22;
const C_DISTINCT: usize = 23;
const C_WIDE: usize = 24;
const C_SKIP_DOMAIN: usize = 25;
const C_SKIP_MINMAX: usize = 26;
const C_PAIRS: usize = 27;
const C_NONCANON: usize = 28;
/// + Place::idx()
const C_PLACE: usize = 29;

#[derive(Clone)]
struct Acc {
    evals: Vec<u64>,
    fails: Vec<u64>,
    skips: Vec<u64>,
    first: Vec<Option<FailRec>>,
    c: [u64; C_NAMES.len()],
}

impl Acc {
    fn new() -> Acc {
        Acc { evals: vec![0; NFAM], fails: vec![0; NFAM], skips: vec![0; NFAM], first: vec![None; NFAM], c: [0; C_NAMES.len()] }
    }
    fn merge(&mut self, o: Acc) {
        for f in 0..NFAM {
            self.evals[f] += o.evals[f];
            self.fails[f] += o.fails[f];
            self.skips[f] += o.skips[f];
        }
        for (f, r) in o.first.into_iter().enumerate() {
            if let Some(r) = r {
                if self.first[f].as_ref().map_or(true, |cur| r.rank < cur.rank) {
                    self.first[f] = Some(r);
                }
            }
        }
        for i in 0..self.c.len() {
            self.c[i] += o.c[i];
        }
    }
    fn record(&mut self, rank: Rank, op: Op, a: &Opd, b: &Opd, place: Place, o: &Outcome, pm: &Option<String>) {
        match o.verdict {
            Verdict::Pass => self.evals[o.fam] += 1,
            Verdict::Skip => self.skips[o.fam] += 1,
            Verdict::Fail => {
                self.evals[o.fam] += 1;
                self.fails[o.fam] += 1;
                if self.first[o.fam].as_ref().map_or(true, |cur| rank < cur.rank) {
                    self.first[o.fam] = Some(FailRec { rank, op, a: *a, b: *b, place, summary: summary(op, a, b, place, o, pm) });
                }
            }
        }
    }
}

fn is_wide(x: X) -> bool {
    matches!(x, X::Fin { sig, .. } if sig != 0 && { let s = sig << sig.leading_zeros(); s & 0x7ff != 0 })
}

/// the answer an implementation routed through f64 would give (coverage counter only)
fn f64_routed(base: Op, a: X, b: X) -> X {
    let mut i = Info::default();
    let (fa, fb) = (soft::to_f64(a, &mut i), soft::to_f64(b, &mut i));
    let r = match base {
        Op::Add => fa + fb,
        Op::Sub => fa - fb,
        Op::Mul => fa * fb,
        Op::Div => fa / fb,
        _ => unreachable!(),
    };
    soft::from_f64(r)
}

struct LevelOut {
    acc: Acc,
    /// the model's results of add, sub, mul, div in enumeration order, in x87 encoding (only when asked for)
    results: Vec<[u8; 10]>,
}

/// All unary operations on every operand and all binary operations on every ordered pair of `opds`.
/// `dup_of_lower_level[i]`: operand i also occurs at a lower level, so a pair of two such operands repeats an
/// earlier case and is not counted as distinct.
/// `arrays`: every ordered pair is also judged with the operands living in adjacent array elements (both
/// orders); the pairs (x, x) are judged with both operands being ONE object at every level.
fn run_level(level: u8, opds: &[Opd], dup_of_lower_level: &[bool], collect: bool, arrays: bool) -> LevelOut {
    let n = opds.len();
    let models: Vec<X> = opds.iter().map(|o| o.model()).collect();
    let parts: Vec<(Acc, Vec<[u8; 10]>)> = (0..n)
        .into_par_iter()
        .map(|i| {
            // Every task starts from the state of a fresh thread (fninit + the library's f80_init()), so the x87
            // history of each of its cases is the task's own cases before it and nothing else: what the pool's
            // worker thread ran earlier (which is up to the scheduler) cannot decide which cases fail.
            fresh_x87_thread_init();
            let mut acc = Acc::new();
            let mut results = vec![];
            let a = opds[i];
            let ma = models[i];
            // unary
            for (k, &op) in UN_OPS.iter().enumerate() {
                if matches!(op, Op::FromF64 | Op::Roundtrip) && !matches!(a, Opd::F64(_)) {
                    continue;
                }
                let rank: Rank = (level, 0, i as u32, i as u32, 2, k as u8);
                let (o, pm) = check_caught(op, &a, &a, Place::Separate);
                acc.record(rank, op, &a, &a, Place::Separate, &o, &pm);
                if op == Op::ToF64 && o.fam != FAM_PANIC {
                    count_to_f64(&mut acc, &o);
                }
            }
            // binary
            for j in 0..n {
                let b = opds[j];
                let mb = models[j];
                acc.c[C_PAIRS] += 1;
                let (hi, lo) = (i.max(j) as u32, i.min(j) as u32);
                let orient = (i > j) as u8;
                let repeats_lower_level = dup_of_lower_level[i] && dup_of_lower_level[j];
                // the other places the operands can live in: the verdicts only (the coverage counters below
                // describe the operand VALUES and are taken once, from the case on separate temporaries)
                for place in PLACES {
                    if place == Place::Separate || place.aliases() && i != j || !place.aliases() && !arrays {
                        continue;
                    }
                    for (k, &op) in BIN_OPS.iter().enumerate() {
                        let rank: Rank = (level, place.idx() as u8, hi, lo, orient, k as u8);
                        let (o, pm) = check_caught(op, &a, &b, place);
                        acc.record(rank, op, &a, &b, place, &o, &pm);
                        acc.c[C_PLACE + place.idx()] += 1;
                    }
                }
                for (k, &op) in BIN_OPS.iter().enumerate() {
                    let rank: Rank = (level, 0, hi, lo, orient, k as u8);
                    let (o, pm) = check_caught(op, &a, &b, Place::Separate);
                    acc.record(rank, op, &a, &b, Place::Separate, &o, &pm);
                    acc.c[C_PLACE] += 1;
                    if o.fam == FAM_PANIC {
                        continue;
                    }
                    if let Some(base) = op.arith_base() {
                        if o.verdict == Verdict::Skip {
                            acc.c[C_SKIP_DOMAIN] += 1;
                        }
                        let want = o.mres.unwrap();
                        acc.c[C_ARITH] += 1;
                        if o.verdict == Verdict::Pass && !soft::is_nan(want) && o.result.unwrap() != encode80(want) {
                            acc.c[C_NONCANON] += 1;
                        }
                        acc.c[C_INEXACT] += o.info.inexact as u64;
                        acc.c[C_TIE] += o.info.tie as u64;
                        acc.c[C_UP] += o.info.up as u64;
                        acc.c[C_NANRES] += soft::is_nan(want) as u64;
                        acc.c[C_INFRES] += matches!(want, X::Inf(_)) as u64;
                        acc.c[C_ZERORES] += soft::is_zero(want) as u64;
                        let wide = is_wide(ma) || is_wide(mb);
                        acc.c[C_WIDE] += wide as u64;
                        if o.info.inexact && !repeats_lower_level && o.verdict != Verdict::Skip {
                            acc.c[C_DISTINCT] += 1;
                        }
                        if op == base {
                            acc.c[C_F64ROUTE] += !soft::same(f64_routed(base, ma, mb), want) as u64;
                            if matches!(base, Op::Add | Op::Sub) {
                                if let (Some(ea), Some(eb)) = (soft::top_exp(ma), soft::top_exp(mb)) {
                                    acc.c[C_NEAR] += ((ea - eb).abs() <= 64) as u64;
                                    if let Some(er) = soft::top_exp(want) {
                                        acc.c[C_CANCEL] += (er < ea.max(eb) - 1) as u64;
                                    } else if soft::is_zero(want) {
                                        acc.c[C_CANCEL] += 1;
                                    }
                                }
                            }
                            if matches!(base, Op::Sub | Op::Div) {
                                let mut i2 = Info::default();
                                let sw = model_arith(base, mb, ma, &mut i2);
                                acc.c[C_SWAP] += !soft::same(sw, want) as u64;
                            }
                            if collect {
                                results.push(encode80(want));
                            }
                        }
                        // every result is also converted to f64 and compared with the model's 53-bit rounding (not a
                        // result that is already reported as wrong: its ten bytes need not even be an encoding the
                        // x87 supports, and the property speaks about f80 values)
                        if o.verdict != Verdict::Fail && !unsupported_encoding(&o.result.unwrap()) {
                            let r = Opd::Raw(o.result.unwrap());
                            let rank: Rank = (level, 0, hi, lo, orient, 100 + k as u8);
                            let (o2, pm2) = check_caught(Op::ToF64, &r, &r, Place::Separate);
                            acc.record(rank, Op::ToF64, &r, &r, Place::Separate, &o2, &pm2);
                            if o2.fam != FAM_PANIC {
                                count_to_f64(&mut acc, &o2);
                            }
                        }
                    } else if op == Op::PartialCmp {
                        match o.rel.unwrap() {
                            Some(Ordering::Less) => acc.c[C_LESS] += 1,
                            Some(Ordering::Equal) => acc.c[C_EQUAL] += 1,
                            Some(Ordering::Greater) => acc.c[C_GREATER] += 1,
                            None => acc.c[C_UNORD] += 1,
                        }
                        acc.c[C_SZERO] += (o.fam % 3 == CLASS_SIGNED_ZERO) as u64;
                    } else if matches!(op, Op::Min | Op::Max) {
                        match o.rel.unwrap() {
                            None => acc.c[C_SKIP_MINMAX] += 1,
                            Some(Ordering::Equal) => {}
                            Some(_) => acc.c[C_MINMAX] += 1,
                        }
                    }
                }
            }
            (acc, results)
        })
        .collect();
    let mut acc = Acc::new();
    let mut results = vec![];
    for (a, r) in parts {
        acc.merge(a);
        results.extend(r);
    }
    LevelOut { acc, results }
}

fn count_to_f64(acc: &mut Acc, o: &Outcome) {
    acc.c[C_TOF] += 1;
    acc.c[C_TOF_INEXACT] += o.info.inexact as u64;
    acc.c[C_TOF_TIE] += o.info.tie as u64;
    acc.c[C_TOF_UP] += o.info.up as u64;
    acc.c[C_TOF_SUB] += o.info.denormal as u64;
    acc.c[C_TOF_OVF] += o.info.overflow as u64;
}

/// Fixed deterministic subset of the first-level results (as the model computes them; level 1 verifies that
/// the real code returns the same values, so the subset does not depend on the tree under test): the first NaN, +inf, -inf, +0, -0, then evenly
/// spaced picks (in enumeration order, duplicates removed) — four fifths from the results that are not
/// representable in f64 (non-zero bits among the low 11 of the significand), the rest from the others.
fn select_subset(results: &[[u8; 10]], n: usize) -> (Vec<[u8; 10]>, usize) {
    let mut seen = HashSet::new();
    let mut distinct: Vec<[u8; 10]> = vec![];
    for r in results {
        if seen.insert(*r) {
            distinct.push(*r);
        }
    }
    let n_distinct = distinct.len();
    let mut chosen: Vec<usize> = vec![];
    let special: [fn(X) -> bool; 5] = [
        |x| soft::is_nan(x),
        |x| x == X::Inf(false),
        |x| x == X::Inf(true),
        |x| soft::is_zero(x) && soft::sign(x) == Some(false),
        |x| soft::is_zero(x) && soft::sign(x) == Some(true),
    ];
    for p in special {
        if let Some(i) = distinct.iter().position(|b| p(soft::decode80(b))) {
            chosen.push(i);
        }
    }
    let is_special = |x: X| !matches!(x, X::Fin { sig, .. } if sig != 0);
    let wide: Vec<usize> = (0..distinct.len()).filter(|&i| is_wide(soft::decode80(&distinct[i]))).collect();
    let narrow: Vec<usize> = (0..distinct.len()).filter(|&i| { let x = soft::decode80(&distinct[i]); !is_wide(x) && !is_special(x) }).collect();
    let rest = n.saturating_sub(chosen.len());
    let mut want_wide = (rest * 4 / 5).min(wide.len());
    let want_narrow = (rest - want_wide).min(narrow.len());
    want_wide = (rest - want_narrow).min(wide.len());
    let stride_pick = |pool: &Vec<usize>, k: usize, out: &mut Vec<usize>| {
        for t in 0..k {
            out.push(pool[t * pool.len() / k]);
        }
    };
    let mut body = vec![];
    if want_wide > 0 {
        stride_pick(&wide, want_wide, &mut body);
    }
    if want_narrow > 0 {
        stride_pick(&narrow, want_narrow, &mut body);
    }
    body.sort();
    body.dedup();
    chosen.extend(body);
    (chosen.into_iter().map(|i| distinct[i]).collect(), n_distinct)
}

impl Recorded {
    /// the family a dependence on other threads is reported under
    fn interference_family(&self) -> String {
        match self {
            Recorded::Single { op, .. } => format!("interference_{}", op.name()),
            Recorded::Sequence(c) => format!("interference_{}", c.rel.family()),
        }
    }

    /// the single operations a case consists of, as interference families: a case that does not reproduce alone is
    /// explained when one of them is known to depend on the other threads
    fn explained_by(&self) -> Vec<String> {
        match self {
            Recorded::Single { .. } => vec![self.interference_family()],
            Recorded::Sequence(c) => vec![format!("interference_{}", c.op.name()), format!("interference_{}", c.rel.name())],
        }
    }

    fn interference_replay(&self) -> Value {
        let mut v = match self {
            Recorded::Single { op, a, b, place } => case_json(0, *op, a, b, *place),
            Recorded::Sequence(c) => c.to_json(),
        };
        v["family"] = json!(self.interference_family());
        v["interference"] = json!(true);
        v
    }

    fn interference_violation(&self, text: &str, example: &str) -> Violation {
        Violation::new(format!("{}:{}", self.interference_family(), self.call_text()), format!("{text} (in this run: {example})"), self.interference_replay())
    }
}

struct InterferencePass {
    threads: usize,
    cases: u64,
    /// cases judged per family, in the order of the sample
    cases_per_family: Vec<(String, u64)>,
    cases_not_judged_because_they_fail_alone: u64,
    repetitions: u64,
    calls_of_the_interfering_threads: u64,
    /// (family, violation): the first case of every operation whose result depends on the other threads
    findings: Vec<(String, Violation)>,
    /// a judged loop during which the interfering threads did not run
    starved: bool,
}

/// The default interference pass: every operation on a few operand pairs, each call repeated `interfere::REPS`
/// times on one fresh thread while the crowd computes on other operands.  What each call returns alone is
/// observed (and judged against the model) BEFORE the crowd is started.
fn interference_pass(sample_pairs: &[(Opd, Opd)]) -> InterferencePass {
    let mut sample: Vec<Recorded> = vec![];
    for op in ALL_OPS {
        for &(a, b) in sample_pairs {
            sample.push(Recorded::Single { op, a, b: if op.binary() { b } else { a }, place: Place::Separate });
        }
    }
    let r = on_fresh_thread(move || {
        let mut out = InterferencePass { threads: 0, cases: 0, cases_per_family: vec![], cases_not_judged_because_they_fail_alone: 0, repetitions: 0, calls_of_the_interfering_threads: 0, findings: vec![], starved: false };
        let alone: Vec<Option<Result<Observed, String>>> = sample.iter().map(|c| c.alone().is_ok().then(|| c.observe())).collect();
        let crowd = interfere::Crowd::start();
        out.threads = crowd.threads();
        for (case, alone) in sample.iter().zip(alone) {
            let fam = case.interference_family();
            if out.findings.iter().any(|(f, _)| *f == fam) {
                continue; // the first case of an operation is enough
            }
            let Some(alone) = alone else {
                out.cases_not_judged_because_they_fail_alone += 1; // the enumeration reports it
                continue;
            };
            out.cases += 1;
            match out.cases_per_family.iter_mut().find(|(f, _)| *f == fam) {
                Some((_, n)) => *n += 1,
                None => out.cases_per_family.push((fam.clone(), 1)),
            }
            match under_interference(case, Some(&crowd), Some(alone)) {
                UnderInterference::Independent { reps } => out.repetitions += reps,
                UnderInterference::Depends { text, example } => out.findings.push((fam, case.interference_violation(&text, &example))),
                UnderInterference::NoInterference => out.starved = true,
                UnderInterference::FailsAlone(_) => unreachable!(),
            }
        }
        out.calls_of_the_interfering_threads = crowd.calls();
        drop(crowd);
        out
    });
    r.unwrap_or_else(|_| {
        println!("MACHINERY-FAILURE engine=f80 the thread of the interference pass panicked outside the code under test");
        std::process::exit(2)
    })
}

// ---------------------------------------------------------------------------------------------------
// history: the same call after an earlier x87 operation on the same thread (history.rs)
// ---------------------------------------------------------------------------------------------------

/// the text of a failure that shows after a recorded history (nothing in it varies between two runs)
fn history_text(case: &Recorded, prefix: &Prefix, s: &str) -> String {
    format!(
        "[history] {} made on a fresh thread AFTER an earlier x87 operation on the same thread — {} — fails: {s} [f80 operations are functions of their operands: per-thread x87 state left behind by earlier operations (sticky exception flags, condition bits of the status word) must not reach a result]",
        case.call_text(),
        prefix.describe()
    )
}

impl Recorded {
    /// the family a dependence on the thread's x87 history is reported under
    fn history_family(&self) -> String {
        match self {
            Recorded::Single { op, .. } => format!("history_{}", op.name()),
            Recorded::Sequence(c) => format!("history_{}", c.rel.family()),
        }
    }

    fn history_replay(&self, prefix: &Prefix) -> Value {
        let mut v = match self {
            Recorded::Single { op, a, b, place } => case_json(0, *op, a, b, *place),
            Recorded::Sequence(c) => c.to_json(),
        };
        v["family"] = json!(self.history_family());
        v["history"] = prefix.to_json();
        v
    }

    fn history_violation(&self, prefix: &Prefix, text: String) -> Violation {
        Violation::new(format!("{}:{}<-{}", self.history_family(), self.call_text(), prefix.sig()), text, self.history_replay(prefix))
    }

    /// The first history of the alphabet after which the case (right on a fresh thread without history) fails on a
    /// fresh thread: the violation, with a replay record that carries the history.
    fn first_history_that_breaks_it(&self, alphabet: &[Prefix]) -> Option<Violation> {
        alphabet.iter().find_map(|p| match confirm(&self.history_replay(p)) {
            Err(text) => Some(self.history_violation(p, format!("{text} (the same call on a fresh thread without that history is right)"))),
            Ok(()) => None,
        })
    }
}

#[derive(Default)]
struct HistoryPass {
    /// (operation, operand pair, history) calls judged against the model
    cases: u64,
    skipped_no_requirement: u64,
    /// (operation, operand pair) that already fail without a history: the enumeration reports them
    cases_not_judged_because_they_fail_without_history: u64,
    /// (family, judged, failed), in the order of the operations
    cases_per_family: Vec<(String, u64, u64)>,
    findings: Vec<(String, Violation)>,
    /// exception flags each history left in the status word (as read before the first judged call after it)
    flags_left: Vec<(String, u16)>,
    /// bare-flag histories whose bits were verified with fnstsw
    flag_histories_verified: u64,
    /// a problem of the machinery (not of the code under test)
    broken: Option<String>,
}

/// The history pass: every operation on `pairs`, each call made on its own fresh thread after each history of the
/// alphabet and judged against the model.  Per operation the first failing (pair, history) is reported.
fn history_pass(pairs: &[(Opd, Opd)], alphabet: &[Prefix]) -> HistoryPass {
    struct PerOp {
        fam: String,
        judged: u64,
        skipped: u64,
        fail_without_history: u64,
        finding: Option<Violation>,
        flags_left: Vec<(usize, u16)>,
        verified: u64,
        broken: Option<String>,
    }
    let per_op: Vec<PerOp> = ALL_OPS
        .par_iter()
        .map(|&op| {
            let mut out = PerOp { fam: format!("history_{}", op.name()), judged: 0, skipped: 0, fail_without_history: 0, finding: None, flags_left: vec![], verified: 0, broken: None };
            'pairs: for &(a, b0) in pairs {
                let b = if op.binary() { b0 } else { a };
                let case = Recorded::Single { op, a, b, place: Place::Separate };
                match on_fresh_thread(move || check_caught(op, &a, &b, Place::Separate).0.verdict) {
                    Ok(Verdict::Fail) => {
                        out.fail_without_history += 1;
                        continue;
                    }
                    Ok(_) => {}
                    Err(e) => out.broken = Some(e),
                }
                for (pi, &prefix) in alphabet.iter().enumerate() {
                    let r = on_fresh_thread(move || {
                        if !prefix.run() {
                            return None;
                        }
                        let sw = history::status_word();
                        let (o, pm) = check_caught(op, &a, &b, Place::Separate);
                        Some((sw, o.verdict, summary(op, &a, &b, Place::Separate, &o, &pm)))
                    });
                    let (sw, verdict, text) = match r {
                        Ok(Some(t)) => t,
                        Ok(None) => {
                            out.broken = Some(format!("the history {} cannot be created: x87 exceptions are unmasked on a fresh thread", prefix.sig()));
                            continue;
                        }
                        Err(e) => {
                            out.broken = Some(e);
                            continue;
                        }
                    };
                    match prefix {
                        Prefix::Flags(bits) if sw & bits != bits => out.broken = Some(format!("the history {} did not leave its bits in the status word (0x{sw:04x})", prefix.sig())),
                        Prefix::Flags(_) => out.verified += 1,
                        Prefix::Call { .. } => out.flags_left.push((pi, sw & history::ALL_FLAGS)),
                    }
                    match verdict {
                        Verdict::Skip => out.skipped += 1,
                        Verdict::Pass => out.judged += 1,
                        Verdict::Fail => {
                            out.judged += 1;
                            out.finding = Some(case.history_violation(&prefix, format!("{} (the same call on a fresh thread without that history is right)", history_text(&case, &prefix, &text))));
                            break 'pairs; // the first case of an operation is enough
                        }
                    }
                }
            }
            out
        })
        .collect();
    let mut pass = HistoryPass::default();
    let mut left: Vec<Option<u16>> = vec![None; alphabet.len()];
    for o in per_op {
        pass.cases += o.judged;
        pass.skipped_no_requirement += o.skipped;
        pass.cases_not_judged_because_they_fail_without_history += o.fail_without_history;
        pass.flag_histories_verified += o.verified;
        pass.cases_per_family.push((o.fam.clone(), o.judged, o.finding.is_some() as u64));
        if let Some(v) = o.finding {
            pass.findings.push((o.fam, v));
        }
        for (pi, sw) in o.flags_left {
            // every thread sees the same flags after the same history; should they differ, the union is shown
            left[pi] = Some(left[pi].unwrap_or(0) | sw);
        }
        if pass.broken.is_none() {
            pass.broken = o.broken;
        }
    }
    pass.flags_left = alphabet.iter().zip(left).filter_map(|(p, l)| l.map(|l| (p.sig(), l))).collect();
    pass
}

pub fn main() {
    let args = Args::parse();
    quiet_panics();
    if args.replay.is_some() {
        Run::replay_main(&args, &confirm);
    }
    let mut run = Run::new(&args, "f80", "exploration");

    // the x87 must compute with a 64-bit significand, rounding to nearest
    let cw = control_word();
    run.cov("x87_control_word", format!("0x{cw:04x}"));
    if !control_word_ok(cw) {
        run.machinery_failure(&format!("x87 control word 0x{cw:04x}: precision control is not 64-bit or rounding is not to-nearest"));
    }
    // the same on every worker thread, before any code under test has run on it
    if rayon::broadcast(|_| control_word()).iter().any(|&w| !control_word_ok(w)) {
        run.machinery_failure("a worker thread starts with an x87 control word other than 64-bit precision / round-to-nearest");
    }

    // The crate tells every user to call f80_init() at the start of main ("it enables f80 on windows");
    // the checks therefore run after that call, on every thread.  The environment was verified above, so
    // whatever the control word is from here on is the library's doing and is judged through the results.
    rlib_f80::f80_init();
    rayon::broadcast(|_| rlib_f80::f80_init());
    run.cov("x87_control_word_after_f80_init", format!("0x{:04x}", control_word()));

    // ---- level 1: B x B
    let b: Vec<u64> = boundary_set();
    let bo: Vec<Opd> = b.iter().map(|&x| Opd::F64(x)).collect();
    let l1 = run_level(1, &bo, &vec![false; bo.len()], true, true);

    // ---- level 2: pairs of first-level results
    let n2 = args.tier.pick(300, 2000);
    let (subset, distinct_results) = select_subset(&l1.results, n2);
    // operands that coincide with the image of a B member repeat level-1 cases
    let b_models: Vec<X> = b.iter().map(|&x| soft::from_f64(f64::from_bits(x))).collect();
    let so: Vec<Opd> = subset.iter().map(|&x| Opd::Raw(x)).collect();
    let dup: Vec<bool> = subset.iter().map(|x| { let m = soft::decode80(x); b_models.iter().any(|&bm| soft::same(bm, m)) }).collect();
    let l2 = run_level(2, &so, &dup, false, args.tier.pick(false, true));

    let mut acc = Acc::new();
    acc.merge(l1.acc.clone());
    acc.merge(l2.acc.clone());

    // ---- dependent sequences: one variable compared, updated in place, compared again (see seq.rs)
    // on every ordered pair of B, and on every ordered pair of every fourth level-2 operand (full-width values
    // from the start)
    let mut sq = seq::run(1, &bo);
    let so4: Vec<Opd> = so.iter().copied().step_by(4).collect();
    let sq2 = seq::run(2, &so4);
    let (sq_pairs_b, sq_pairs_2) = (sq.pairs, sq2.pairs);
    sq.merge(sq2);

    // ---- interference: every operation on a few operand pairs, repeated while other threads compute (interfere.rs)
    let opd_of = |f: f64| {
        let o = Opd::F64(f.to_bits());
        if !bo.contains(&o) {
            run.machinery_failure("an operand of the interference sample is not a member of the boundary set");
        }
        o
    };
    let sample_pairs = [(opd_of(3.0), opd_of(10.0)), (opd_of(0.1), opd_of(1.0 / 3.0)), (opd_of(123.456), opd_of(-2.0 / 3.0)), (opd_of(1.0 + f64::EPSILON), opd_of(1e17))];
    let ipass = interference_pass(&sample_pairs);

    // ---- history: every operation on a few operand pairs, each call on a fresh thread after each history (history.rs)
    let alphabet = history::alphabet();
    let mut history_pairs = sample_pairs.to_vec();
    history_pairs.extend([(opd_of(3.0), opd_of(3.0)), (opd_of(f64::INFINITY), opd_of(1.0)), (opd_of(0.0), opd_of(-0.0)), (opd_of(f64::NAN), opd_of(1.0)), (opd_of(1.0), opd_of(f64::NAN))]);
    let hpass = history_pass(&history_pairs, &alphabet);
    if let Some(what) = &hpass.broken {
        run.machinery_failure(&format!("history pass: {what}"));
    }

    // informational only: a change here would be the doing of the code under test (and would show as arithmetic
    // violations), so it is not turned into a machinery failure
    let after: Vec<u16> = rayon::broadcast(|_| control_word());
    run.cov("x87_control_word_unchanged_after_run", after.iter().all(|&w| w == cw));

    // ---- coverage
    let evaluations: u64 = acc.evals.iter().sum();
    let evaluations = evaluations + sq.sequences + ipass.cases + hpass.cases;
    run.cov("evaluations", evaluations);
    run.cov("distinct_nontrivial", acc.c[C_DISTINCT]);
    run.cov(
        "rule",
        "level 1: every unary operation (from_f64, f64->f80->f64, neg, abs, f80->f64) on every member and every binary operation (add sub mul div, the four assigning forms, min max, lt le gt ge eq partial_cmp, eq-vs-partial_cmp) on every ORDERED pair of the boundary set B of f64 bit patterns; WHERE THE OPERANDS LIVE: every case above is a call on two separate temporaries; in addition every binary operation is called (a) on every pair (x, x) of B and of the level-2 operands with BOTH OPERANDS BEING ONE OBJECT — one local variable (`x == x`, `x != x`, `x < x`, `x.partial_cmp(&x)`: the same reference twice; `x + x`, `x.min(x)`, `x -= x`: the same variable read twice) and one element of an array whose other element holds different bytes (`v[0] == v[0]` …) — and (b) on every ordered pair of B (thorough: of the level-2 operands too) with the operands in the ADJACENT ELEMENTS of one `[f80; 2]`, in both orders (`v[0] op v[1]`, `v[1] op v[0]`, `v[0] op= v[1]` with the neighbour required to stay untouched); the expected answers are the same, an f80 is plain data (signatures of such cases end in @same_object, @same_array_element, @array_elements_0_1, @array_elements_1_0); `==` is always called together with `!=`, which must give the opposite answer; level 2: the same (without from_f64 / roundtrip) on every ordered pair of a fixed subset of the level-1 arithmetic results (duplicates removed, 4/5 of them not representable in f64; taken from the model, which level 1 shows to equal the real results); every arithmetic result is additionally converted to f64; dependent sequences: for every ordered pair (a, step) of B and of every fourth level-2 operand, every assigning operator (+= -= *= /=), every distinct value lim of the model's sequence x_0 = a, x_{i+1} = x_i op step (i < 4) and every relation (lt le gt ge eq partial_cmp), ONE local variable x is compared with lim, updated in place and compared again, in five loop shapes (for with a run-time bound, written out, iterator fold, `while x R lim && n < 4`, `if x R lim { update }` in a for loop) compiled with optimisation and without any barrier between the iterations; the result codes / the number of updates and the final x are compared with the model running the same sequence (one evaluation per loop). INTERFERENCE (families interference_<operation>): f80 operations are pure functions of their operands, so what other threads compute at the same time cannot change a result; every operation on 4 fixed operand pairs of B is first called on a fresh thread that runs alone (judged against the model), then repeated on that thread until 200 000 repetitions lie in slices of 1 000 consecutive calls during which interfering threads (three; one on a machine with fewer than four processors) demonstrably completed calls of their own — every f80 operation on every ordered pair of 8 other values, in a loop — and every repetition must return exactly what the call returns alone (one evaluation per case); a failure seen by the parallel enumeration is reported as before if it reproduces on a fresh thread running alone, and is otherwise re-executed in the same way under interference; a case whose result depends on the other threads is reported with a replay record that says so (`interference: true`) and re-creates the interference. HISTORY (families history_<operation>): the x87 keeps per-thread state that outlives an instruction — six sticky exception flags (invalid, denormal operand, divide by zero, overflow, underflow, inexact; cleared only by fnclex / fninit) and the condition bits of the last compare — and none of it may reach a result; every operation on 9 operand pairs of B (the 4 above, an equal pair, (inf, 1), (+0, -0), (NaN, 1), (1, NaN)) is called, each call on its OWN fresh thread (fninit + f80_init()), after each of 20 histories: 12 calls of the library that raise each exception class (inf - inf, 0 * inf, 0 / 0, NaN < 1, 1 / 0, 1 / 3, overflow and underflow of a product, a denormal operand, the f64 conversions of a subnormal / of too large / too small values; which flags each leaves behind is read with fnstsw and reported, not demanded) and 8 bare status-word settings made by the engine's own fnstenv / fldenv (each flag alone, all six, the four condition bits; verified with fnstsw), and judged against the model (one evaluation per call); every task of the parallel enumeration (one outer operand index) also starts from fninit + f80_init(), so the history of each of its cases is the task's own earlier cases and nothing the scheduler decides; a failure the enumeration saw that is right on a fresh thread is re-executed on a fresh thread after each history and reported with the first one that breaks it; a replay record of such a case carries the history (`history`) and replays it on a fresh thread before the case. A case is counted in distinct_nontrivial when it is an arithmetic case (operation, operand pair — distinct by construction; level-2 pairs whose operands both coincide with B members are left out) whose exact result is NOT representable with a 64-bit significand, i.e. the rounding logic decided the answer.",
    );
    run.cov("exhaustive", true);
    run.cov("boundary_set_size", b.len() as u64);
    run.cov("level1_pairs", l1.acc.c[C_PAIRS]);
    run.cov("level1_distinct_result_patterns", distinct_results as u64);
    run.cov("level2_operands", so.len() as u64);
    run.cov("level2_operands_not_representable_in_f64", so.iter().filter(|o| is_wide(o.model())).count() as u64);
    run.cov("level2_operands_coinciding_with_B", dup.iter().filter(|&&d| d).count() as u64);
    run.cov("level2_pairs", l2.acc.c[C_PAIRS]);
    for (lname, a) in [("level1", &l1.acc), ("level2", &l2.acc)] {
        let mut m = serde_json::Map::new();
        for (i, name) in C_NAMES.iter().enumerate() {
            m.insert(name.to_string(), json!(a.c[i]));
        }
        run.cov(&format!("{lname}_counters"), Value::Object(m));
    }
    run.cov("skipped_out_of_domain", acc.c[C_SKIP_DOMAIN] + sq.skipped_out_of_domain);
    run.cov("skipped_minmax_nan_operand", acc.c[C_SKIP_MINMAX]);
    let mut fam = serde_json::Map::new();
    for f in 0..NFAM {
        if acc.evals[f] + acc.skips[f] > 0 {
            fam.insert(fam_name(f), json!({"checked": acc.evals[f], "failed": acc.fails[f], "skipped_no_requirement": acc.skips[f]}));
        }
    }
    for rel in seq::RELS {
        let f = seq::RELS.iter().position(|&r| r == rel).unwrap();
        fam.insert(rel.family(), json!({"checked": sq.checked[f], "failed": sq.failed[f], "skipped_no_requirement": sq.skipped[f]}));
    }
    for (name, checked) in &ipass.cases_per_family {
        // the first case of an operation whose result depends on the other threads ends its part of the sample
        let failed = ipass.findings.iter().filter(|(f, _)| f == name).count();
        fam.insert(name.clone(), json!({"checked": checked, "failed": failed, "skipped_no_requirement": 0}));
    }
    for (name, checked, failed) in &hpass.cases_per_family {
        fam.insert(name.clone(), json!({"checked": checked, "failed": failed, "skipped_no_requirement": 0}));
    }
    run.cov("families", Value::Object(fam));
    run.cov(
        "dependent_sequences",
        json!({
            "operand_pairs_of_B": sq_pairs_b,
            "operand_pairs_of_every_fourth_level2_operand": sq_pairs_2,
            "limits_tried_(distinct_values_of_the_sequence)": sq.limits,
            "loops_checked": sq.sequences,
            "loops_checked_per_form": seq::FORMS.iter().enumerate().map(|(i, f)| (f.name().to_string(), json!(sq.per_form[i]))).collect::<serde_json::Map<_, _>>(),
            "comparisons_judged": sq.comparisons,
            "loops_where_the_answer_changes_along_the_sequence": sq.answer_changes,
            "the_same_per_form": seq::FORMS.iter().enumerate().map(|(i, f)| (f.name().to_string(), json!(sq.answer_changes_per_form[i]))).collect::<serde_json::Map<_, _>>(),
            "sequences_cut_short_by_an_out_of_domain_result": sq.truncated_by_domain,
            "loops_skipped_out_of_domain": sq.skipped_out_of_domain,
            "loops_failed_per_form": seq::FORMS.iter().enumerate().map(|(i, f)| (f.name().to_string(), json!(sq.failed_per_form[i]))).collect::<serde_json::Map<_, _>>(),
            "updates_per_sequence": seq::K,
        }),
    );

    // ---- non-vacuity self-checks
    let need = |run: &Run, ok: bool, what: &str| {
        if !ok {
            run.machinery_failure(&format!("non-vacuity self-check failed: {what}"));
        }
    };
    need(&run, b.len() >= 150, "boundary set has fewer than 150 patterns");
    let has = |p: &dyn Fn(f64) -> bool| b.iter().any(|&x| p(f64::from_bits(x)));
    need(&run, has(&|f| f.is_nan()) && has(&|f| f == f64::INFINITY) && has(&|f| f == f64::NEG_INFINITY), "B lacks NaN or an infinity");
    need(&run, has(&|f| f.to_bits() == 0) && has(&|f| f.to_bits() == 1u64 << 63), "B lacks a signed zero");
    need(&run, has(&|f| f.is_subnormal()) && has(&|f| f == f64::MAX) && has(&|f| f == f64::MIN_POSITIVE), "B lacks subnormals / MAX / MIN_POSITIVE");
    need(&run, l1.acc.c[C_PAIRS] == (b.len() * b.len()) as u64, "level 1 did not visit |B|^2 pairs");
    need(&run, so.len() >= n2 * 9 / 10, "fewer level-2 operands than planned");
    need(&run, so.iter().filter(|o| is_wide(o.model())).count() * 2 >= so.len(), "fewer than half of the level-2 operands need more than 53 significand bits");
    need(&run, l2.acc.c[C_PAIRS] == (so.len() * so.len()) as u64, "level 2 did not visit all ordered pairs");
    for (a, n, arrays) in [(&l1.acc, b.len() as u64, true), (&l2.acc, so.len() as u64, args.tier.pick(false, true))] {
        let per_pair = BIN_OPS.len() as u64;
        let want = [n * n, n, if arrays { n * n } else { 0 }, if arrays { n * n } else { 0 }, n].map(|x| x * per_pair);
        need(&run, (0..PLACES.len()).all(|p| a.c[C_PLACE + p] == want[p]), "not every placement of the operands (separate, same object, adjacent array elements, same array element) was visited on the pairs the rule names");
    }
    need(&run, execute(Op::Eq, &bo[0], &bo[0], Place::SameObject) == Raw::EqNe(true, false) && execute(Op::PartialCmp, &bo[0], &bo[0], Place::SameElement) == Raw::Pc(Some(Ordering::Equal)), "0 == 0 on one object does not come out as equal");
    for (lname, a) in [("level 1", &l1.acc), ("level 2", &l2.acc)] {
        need(&run, a.c[C_INEXACT] > 1000 && a.c[C_TIE] > 0 && a.c[C_UP] > 0, &format!("{lname}: rounding paths (inexact, tie, round-up) not all exercised"));
        need(&run, a.c[C_F64ROUTE] > 1000, &format!("{lname}: too few cases would expose an operation routed through f64"));
        need(&run, a.c[C_SWAP] > 1000, &format!("{lname}: too few sub/div cases depend on operand order"));
        need(&run, a.c[C_NEAR] > 1000 && a.c[C_CANCEL] > 0, &format!("{lname}: add/sub operands never interact"));
        need(&run, a.c[C_LESS] > 0 && a.c[C_EQUAL] > 0 && a.c[C_GREATER] > 0 && a.c[C_UNORD] > 0, &format!("{lname}: not every relation outcome (less, equal, greater, unordered) occurs"));
        need(&run, a.c[C_MINMAX] > 0, &format!("{lname}: min/max never saw distinct ordered operands"));
        need(&run, a.c[C_TOF_INEXACT] > 0 && a.c[C_TOF_UP] > 0 && a.c[C_TOF_TIE] > 0, &format!("{lname}: f80->f64 rounding never inexact / rounded up / tied"));
    }
    need(&run, l1.acc.c[C_SZERO] >= 2, "no (+0,-0) pair at level 1");
    need(&run, acc.c[C_TOF_SUB] > 0 && acc.c[C_TOF_OVF] > 0, "f80->f64 never produced a subnormal or overflowed to infinity");
    need(&run, acc.c[C_NANRES] > 0 && acc.c[C_INFRES] > 0 && acc.c[C_ZERORES] > 0, "arithmetic never produced NaN / infinity / zero");
    need(&run, acc.c[C_WIDE] > 1000, "no arithmetic case had an operand with a full 64-bit significand");
    need(&run, sq_pairs_b == (b.len() * b.len()) as u64 && sq_pairs_2 == (so4.len() * so4.len()) as u64, "the dependent-sequence family did not visit every (a, step) pair");
    need(&run, sq.per_form.iter().all(|&c| c > 100_000), "some loop shape of the dependent-sequence family was hardly run");
    need(&run, sq.answer_changes_per_form.iter().all(|&c| c > 10_000), "in some loop shape the compared answer (almost) never changes along the sequence: reusing a stale comparison would go unnoticed");
    need(&run, (0..6).all(|f| sq.checked[f] > 100_000), "some relation of the dependent-sequence family was hardly run");
    // arithmetic self-check of the precision control, done by the ENGINE's own x87 instructions (not by the code
    // under test): 1 + 2^-63 must be representable, i.e. differ from 1
    need(&run, hardware_one_plus_2_pow_minus_63() == [1, 0, 0, 0, 0, 0, 0, 0x80, 0xff, 0x3f], "1 + 2^-63 computed on the x87 is not 0x3fff_8000000000000001: not a 64-bit significand");

    // ---- samples (VERIF_SEED only rotates which cases are shown)
    let seed = run.seed as usize;
    for k in 0..10usize {
        let (set, lvl): (&Vec<Opd>, u8) = if k % 2 == 0 { (&bo, 1) } else { (&so, 2) };
        let i = (seed.wrapping_mul(7).wrapping_add(13 * k + 2)) % set.len();
        let j = (seed.wrapping_mul(11).wrapping_add(29 * k + 5)) % set.len();
        let op = BIN_OPS[(seed + 3 * k) % BIN_OPS.len()];
        let (o, _) = check_caught(op, &set[i], &set[j], Place::Separate);
        run.sample(json!({
            "level": lvl, "op": op.name(), "a": set[i].describe(), "b": set[j].describe(),
            "family": fam_name(o.fam), "expected": show_val(&o.expected), "observed": show_val(&o.observed),
            "verdict": format!("{:?}", o.verdict),
        }));
    }

    for k in 0..3usize {
        let i = (seed.wrapping_mul(5).wrapping_add(17 * k + 1)) % bo.len();
        let j = (seed.wrapping_mul(3).wrapping_add(23 * k + 2)) % bo.len();
        let (rel, form, op) = (seq::RELS[(seed + k) % 6], seq::FORMS[(seed + 2 * k) % 5], seq::ASSIGN_OPS[(seed + k) % 4]);
        // the limit: the value after two updates when the model has one, else the start value
        let two = (0..2).fold(Some(bo[i].model()), |x, _| {
            let mut info = Info::default();
            let y = model_arith(op.arith_base().unwrap(), x?, bo[j].model(), &mut info);
            (!info.overflow && !info.denormal).then_some(y)
        });
        let lim = two.map_or(bo[i], |x| Opd::Raw(encode80(x)));
        run.sample(seq::sample_json(&seq::Case { form, rel, op, a: bo[i], step: bo[j], lim }));
    }

    // ---- violations: the first failing case of every family.  The enumeration runs on many threads at once; a
    // failure it saw is reported as before when it reproduces on a thread that runs alone, and is otherwise
    // re-executed under interference (a result that depends on what other threads compute)
    let mut seen: Vec<(Violation, Recorded)> = vec![];
    for f in 0..NFAM {
        if let Some(r) = &acc.first[f] {
            let sig = format!("{}:{}", fam_name(f), case_text(r.op, &r.a, &r.b, r.place));
            let summary = format!("{} ({} of {} checked cases of this family fail)", r.summary, acc.fails[f], acc.evals[f]);
            seen.push((Violation::new(sig, summary, case_json(f, r.op, &r.a, &r.b, r.place)), Recorded::Single { op: r.op, a: r.a, b: r.b, place: r.place }));
        }
    }
    for r in sq.first.iter().flatten() {
        let f = seq::RELS.iter().position(|&x| x == r.case.rel).unwrap();
        let summary = format!("{} ({} of {} checked loops of this family fail)", r.summary, sq.failed[f], sq.checked[f]);
        seen.push((Violation::new(r.case.signature(), summary, r.case.to_json()), Recorded::Sequence(r.case)));
    }
    let mut interference_findings: Vec<(String, Violation)> = ipass.findings.clone();
    let mut history_findings: Vec<(String, Violation)> = hpass.findings.clone();
    let (mut seen_not_alone, mut seen_explained, mut seen_explained_by_history) = (0u64, 0u64, 0u64);
    for (v, case) in seen {
        if confirm(&v.replay).is_err() {
            run.violation(v); // reproduces on a thread that runs alone
            continue;
        }
        seen_not_alone += 1;
        // right on a fresh thread: is it a history of the alphabet that breaks it?  (Every enumeration task starts
        // from the fresh-thread state, so what made it fail there is the x87 state its own earlier cases left.)
        if history_findings.iter().any(|(f, _)| *f == case.history_family()) {
            seen_explained_by_history += 1;
            continue;
        }
        if let Some(hv) = case.first_history_that_breaks_it(&alphabet) {
            seen_explained_by_history += 1;
            history_findings.push((case.history_family(), hv));
            continue;
        }
        let fam = case.interference_family();
        if interference_findings.iter().any(|(f, _)| case.explained_by().contains(f)) {
            seen_explained += 1;
            continue;
        }
        match on_fresh_thread(move || under_interference(&case, None, None)) {
            Ok(UnderInterference::Depends { text, example }) => {
                seen_explained += 1;
                interference_findings.push((fam, case.interference_violation(&text, &example)));
            }
            // neither alone nor under interference: reported as it was seen, and `finish` will say that it does
            // not reproduce (exit 2, no verdict)
            _ => run.violation(Violation::new(v.signature, format!("{} [seen during the parallel enumeration; it did not show again, neither on a thread running alone nor under interference]", v.summary), v.replay)),
        }
    }
    for (_, v) in &history_findings {
        let mut v = v.clone();
        if seen_explained_by_history > 0 {
            v.summary = format!("{} [{seen_explained_by_history} failure(s) seen by the enumeration did not reproduce on a fresh thread without history and do after a history of the alphabet]", v.summary);
        }
        run.violation(v);
    }
    run.cov(
        "history_pass",
        json!({
            "histories_(earlier_x87_operation_on_the_same_thread)": alphabet.iter().map(|p| p.sig()).collect::<Vec<_>>(),
            "operand_pairs": history_pairs.len(),
            "cases_judged_(operation,_operand_pair,_history),_each_on_its_own_fresh_thread": hpass.cases,
            "cases_skipped_no_requirement": hpass.skipped_no_requirement,
            "cases_not_judged_because_they_fail_without_history": hpass.cases_not_judged_because_they_fail_without_history,
            "exception_flags_in_the_status_word_after_each_library_call_history_(IE=1,DE=2,ZE=4,OE=8,UE=16,PE=32)": hpass.flags_left.iter().map(|(p, f)| (p.clone(), json!(format!("0x{f:02x}")))).collect::<serde_json::Map<_, _>>(),
            "library_call_histories_that_left_an_exception_flag_set": hpass.flags_left.iter().filter(|(_, f)| *f != 0).count(),
            "bare_flag_histories_verified_with_fnstsw": hpass.flag_histories_verified,
            "operations_whose_result_depends_on_the_history": history_findings.len(),
            "failures_of_the_enumeration_explained_by_a_history": seen_explained_by_history,
        }),
    );
    for (_, v) in &interference_findings {
        let mut v = v.clone();
        if seen_not_alone > 0 {
            v.summary = format!("{} [{seen_not_alone} failure(s) seen by the parallel enumeration did not reproduce on a thread running alone; {seen_explained} of them are operations whose result depends on the other threads]", v.summary);
        }
        run.violation(v);
    }
    run.cov(
        "interference_pass",
        json!({
            "interfering_threads": ipass.threads, "cases_(operation,_operand_pair)": ipass.cases, "cases_not_judged_because_they_fail_alone": ipass.cases_not_judged_because_they_fail_alone,
            "repetitions_per_case_in_slices_under_interference_at_least": interfere::REPS, "slice_(consecutive_repetitions_between_two_looks_at_the_interfering_threads)": interfere::SLICE,
            "repetitions_under_interference_that_returned_what_the_call_returns_alone": ipass.repetitions,
            "calls_made_by_the_interfering_threads_meanwhile": ipass.calls_of_the_interfering_threads,
            "operations_whose_result_depends_on_other_threads": interference_findings.len(),
            "failures_of_the_parallel_enumeration_that_did_not_reproduce_alone": seen_not_alone, "of_these_explained_by_interference": seen_explained,
        }),
    );
    if ipass.starved && !run.has_violations() {
        run.machinery_failure("interference pass: the interfering threads did not run while a call was repeated (overloaded machine?), no verdict from it");
    }
    if !run.has_violations() && (ipass.cases != (ALL_OPS.len() * sample_pairs.len()) as u64 || ipass.repetitions < ipass.cases * interfere::REPS) {
        run.machinery_failure("interference pass: not every operation of the sample was repeated under interference");
    }
    let history_calls = (ALL_OPS.len() * history_pairs.len() * alphabet.len()) as u64;
    if !run.has_violations() && (hpass.cases + hpass.skipped_no_requirement != history_calls || hpass.flag_histories_verified != (ALL_OPS.len() * history_pairs.len() * alphabet.iter().filter(|p| matches!(p, Prefix::Flags(_))).count()) as u64) {
        run.machinery_failure("history pass: not every operation of the sample was called after every history, or a bare-flag history was not verified");
    }
    run.assume("the ten bytes at offset 0 of an f80 value are its x87 double-extended encoding (read with transmute_copy)");
    run.assume("second-level operands are the first-level results in canonical x87 encoding as computed by the model; level 1 checks that the real code produces exactly these values (counter arith_results_passing_but_not_canonical_bytes = 0 means: the very same bytes), so the subset and the level-2 signatures do not move when the code under test is changed");
    run.assume("interference pass: whether two threads really execute at the same instant is up to the machine; the pass only counts repetitions made while an interfering thread demonstrably made progress (no clock involved) and gives no verdict (exit 2) if that never happens; state shared between threads is detected when a collision changes the returned value within 200 000 such repetitions — a window so narrow that this many repetitions practically never hit it is not detected");
    run.assume("history pass: the per-thread x87 state that is varied is the status word (sticky exception flags, condition bits) as left by ONE earlier operation; the control word (precision, rounding, exception masks) is the environment the property presupposes and is not varied; a dependence on longer histories (e.g. leaked register-stack slots) shows only through the repetitions of the plain re-execution and the accumulated history inside an enumeration task");
    run.assume("operand placement: overlapping operands cannot be expressed in safe Rust for a 16-byte aligned 16-byte type; same object and adjacent array elements are what is covered; by-value operations (`x + x`, `x.min(x)`) copy their operands, whether the callee then sees one address or two is the compiler's choice");
    run.assume("dependent sequences: the loops are compiled into the engine with its release profile (opt-level 3); a comparison or operator that promises the compiler too much (inline assembly marked pure / nomem, missing clobbers) is caught only if the optimiser of the installed tool chain exploits it in one of the five loop shapes — the family shows that these shapes compute what the model computes, it does not prove that no other shape is miscompiled");
    run.finish(&confirm)
}

/// Canonical ten-byte x87 encoding of a model value (NaN: the x87 default "real indefinite").
pub(crate) fn encode80(x: X) -> [u8; 10] {
    let (se, sig): (u16, u64) = match x {
        X::Nan => (0xffff, 0xc000_0000_0000_0000),
        X::Inf(s) => (((s as u16) << 15) | 0x7fff, 1u64 << 63),
        X::Fin { neg, sig, exp } => {
            if sig == 0 {
                ((neg as u16) << 15, 0)
            } else {
                // normalise, but not below the denormal exponent
                let l = (sig.leading_zeros() as i32).min(exp - soft::X_EMIN).max(0);
                let s = sig << l;
                let e = exp - l;
                let be = if s >> 63 == 1 { e + 16383 + 63 } else { 0 };
                assert!((0..0x7fff).contains(&be), "encode80: exponent out of range");
                (((neg as u16) << 15) | be as u16, s)
            }
        }
    };
    let mut out = [0u8; 10];
    out[0..8].copy_from_slice(&sig.to_le_bytes());
    out[8..10].copy_from_slice(&se.to_le_bytes());
    out
}
