//! C08 — Reader results depend only on the bytes, not on how they are delivered.
//!
//! Every execution = (input bytes, script of reader calls, delivery plan).  The harness's `Read` object
//! owns every environment answer: how many bytes each `read` call returns, and where a transient
//! `ErrorKind::Interrupted` is injected.  Default answer = "fill the buffer offered"; a short read or an
//! `Interrupted` is a deviation.  Short inputs: ALL 2^(L-1) chunkings (and all placements of up to two
//! `Interrupted`); long inputs (extreme values, tuples, inputs as long as the internal buffer): all
//! placements of up to two deviations.  Oracle: the values returned equal those of an independent
//! reference parser applied to the whole byte string, for every delivery.

use rayon::prelude::*;
use rlib_io::Reader;
use std::cell::Cell;
use std::io::Read;
use vcore::*;

// ---------------------------------------------------------------------------------------------
// scripts

#[derive(Clone, Copy, Debug, PartialEq, Eq, Hash, PartialOrd, Ord)]
enum Ty {
    I8,
    U8,
    I16,
    U16,
    I32,
    U32,
    I64,
    U64,
    I128,
    U128,
    Isize,
    Usize,
    Str,
    Char,
}

const INT_TYS: [Ty; 12] = [Ty::I8, Ty::U8, Ty::I16, Ty::U16, Ty::I32, Ty::U32, Ty::I64, Ty::U64, Ty::I128, Ty::U128, Ty::Isize, Ty::Usize];

impl Ty {
    fn name(self) -> &'static str {
        match self {
            Ty::I8 => "i8",
            Ty::U8 => "u8",
            Ty::I16 => "i16",
            Ty::U16 => "u16",
            Ty::I32 => "i32",
            Ty::U32 => "u32",
            Ty::I64 => "i64",
            Ty::U64 => "u64",
            Ty::I128 => "i128",
            Ty::U128 => "u128",
            Ty::Isize => "isize",
            Ty::Usize => "usize",
            Ty::Str => "String",
            Ty::Char => "char",
        }
    }
    fn from_name(s: &str) -> Ty {
        *INT_TYS.iter().chain([Ty::Str, Ty::Char].iter()).find(|t| t.name() == s).unwrap()
    }
    /// (min, max) as i128 / u128 range of an integer type, None for u128 upper part handled separately
    fn fits(self, neg: bool, mag: u128) -> bool {
        let (min_mag, max): (u128, u128) = match self {
            Ty::I8 => (1 << 7, (1 << 7) - 1),
            Ty::U8 => (0, u8::MAX as u128),
            Ty::I16 => (1 << 15, (1 << 15) - 1),
            Ty::U16 => (0, u16::MAX as u128),
            Ty::I32 => (1 << 31, (1 << 31) - 1),
            Ty::U32 => (0, u32::MAX as u128),
            Ty::I64 | Ty::Isize => (1 << 63, (1 << 63) - 1),
            Ty::U64 | Ty::Usize => (0, u64::MAX as u128),
            Ty::I128 => (1 << 127, (1 << 127) - 1),
            Ty::U128 => (0, u128::MAX),
            _ => return false,
        };
        if neg {
            // "-0" is a valid spelling of zero for signed types only
            min_mag > 0 && mag <= min_mag
        } else {
            mag <= max
        }
    }
}

#[derive(Clone, Debug, PartialEq, Eq, Hash, PartialOrd, Ord)]
enum Op {
    Tok(Ty),
    Line,
    Lines,
    Eof,
    Vec(Ty, usize),
    Tup(Vec<Ty>),
}

fn op_to_json(o: &Op) -> Value {
    match o {
        Op::Tok(t) => json!({"read": t.name()}),
        Op::Line => json!("read_line"),
        Op::Lines => json!("read_lines"),
        Op::Eof => json!("is_eof"),
        Op::Vec(t, n) => json!({"read_vec": t.name(), "n": n}),
        Op::Tup(ts) => json!({"read_tuple": ts.iter().map(|t| t.name()).collect::<Vec<_>>()}),
    }
}

fn op_from_json(v: &Value) -> Op {
    if v == "read_line" {
        Op::Line
    } else if v == "read_lines" {
        Op::Lines
    } else if v == "is_eof" {
        Op::Eof
    } else if let Some(t) = v.get("read") {
        Op::Tok(Ty::from_name(t.as_str().unwrap()))
    } else if let Some(t) = v.get("read_vec") {
        Op::Vec(Ty::from_name(t.as_str().unwrap()), v["n"].as_u64().unwrap() as usize)
    } else {
        Op::Tup(v["read_tuple"].as_array().unwrap().iter().map(|t| Ty::from_name(t.as_str().unwrap())).collect())
    }
}

// ---------------------------------------------------------------------------------------------
// how returned values are written down (the same for the real reader and the reference): strings in Debug
// form; strings of more than 256 bytes length-prefixed and verbatim (exact, and much cheaper to produce for
// the inputs of several buffer sizes)

fn show_str(s: &str) -> String {
    if s.len() <= 256 {
        format!("{:?}", s)
    } else {
        let mut o = String::with_capacity(s.len() + 24);
        o.push_str(&format!("long[{}]:", s.len()));
        o.push_str(s);
        o
    }
}

fn show_opt(s: &Option<String>) -> String {
    match s {
        Some(s) => format!("Some({})", show_str(s)),
        None => "None".to_string(),
    }
}

fn show_vec(v: &[String]) -> String {
    format!("[{}]", v.iter().map(|x| show_str(x)).collect::<Vec<_>>().join(", "))
}

// ---------------------------------------------------------------------------------------------
// reference parser: the whole byte string, a cursor, nothing else

fn is_ws(b: u8) -> bool {
    matches!(b, b' ' | b'\t' | b'\n' | b'\x0c' | b'\r')
}

struct RefP<'a> {
    s: &'a [u8],
    p: usize,
}

impl<'a> RefP<'a> {
    fn skip(&mut self) {
        while self.p < self.s.len() && is_ws(self.s[self.p]) {
            self.p += 1;
        }
    }
    fn token(&mut self) -> Option<&'a [u8]> {
        self.skip();
        if self.p == self.s.len() {
            return None;
        }
        let st = self.p;
        while self.p < self.s.len() && !is_ws(self.s[self.p]) {
            self.p += 1;
        }
        Some(&self.s[st..self.p])
    }
    fn tok(&mut self, ty: Ty) -> Option<String> {
        match ty {
            Ty::Str => self.token().map(|t| show_str(&String::from_utf8_lossy(t))),
            Ty::Char => {
                self.skip();
                if self.p == self.s.len() {
                    return None;
                }
                self.p += 1;
                Some(format!("{:?}", self.s[self.p - 1] as char))
            }
            _ => {
                let t = self.token()?;
                let (neg, digits) = if t[0] == b'-' { (true, &t[1..]) } else { (false, t) };
                if digits.is_empty() || digits.len() > 39 || !digits.iter().all(|d| d.is_ascii_digit()) {
                    return None;
                }
                let mut mag: u128 = 0;
                for d in digits {
                    mag = mag.checked_mul(10)?.checked_add((d - b'0') as u128)?;
                }
                if !ty.fits(neg, mag) {
                    return None;
                }
                Some(if neg && mag != 0 { format!("-{}", mag) } else { format!("{}", mag) })
            }
        }
    }
    fn line(&mut self) -> Option<String> {
        if self.p == self.s.len() {
            return None;
        }
        let mut out = vec![];
        while self.p < self.s.len() {
            let c = self.s[self.p];
            self.p += 1;
            if c == b'\n' {
                break;
            }
            if c == b'\r' && self.p < self.s.len() && self.s[self.p] == b'\n' {
                self.p += 1;
                break;
            }
            out.push(c);
        }
        Some(String::from_utf8_lossy(&out).into_owned())
    }
    fn run(&mut self, op: &Op) -> Option<String> {
        Some(match op {
            Op::Tok(t) => self.tok(*t)?,
            Op::Line => show_opt(&self.line()),
            Op::Lines => {
                let mut v = vec![];
                while let Some(l) = self.line() {
                    v.push(l);
                }
                show_vec(&v)
            }
            Op::Eof => {
                self.skip();
                format!("{}", self.p == self.s.len())
            }
            Op::Vec(t, n) => {
                let mut v = vec![];
                for _ in 0..*n {
                    v.push(self.tok(*t)?);
                }
                format!("[{}]", v.join(", "))
            }
            Op::Tup(ts) => {
                let mut v = vec![];
                for t in ts {
                    v.push(self.tok(*t)?);
                }
                format!("({})", v.join(", "))
            }
        })
    }
}

/// None = the script asks for something that is not there (outside the property)
fn reference(input: &[u8], script: &[Op]) -> Option<Vec<String>> {
    let mut r = RefP { s: input, p: 0 };
    script.iter().map(|o| r.run(o)).collect()
}

// ---------------------------------------------------------------------------------------------
// the environment: a Read object whose every answer is chosen by the harness

#[derive(Clone, Copy, Debug, PartialEq, Eq)]
enum Step {
    Give(usize),
    Interrupted,
}

struct Src<'a> {
    data: &'a [u8],
    pos: usize,
    plan: &'a [Step],
    next: usize,
    calls: &'a Cell<usize>,
    first_buf: &'a Cell<usize>,
    /// the largest number of bytes the reader ever asked for in one call
    max_ask: &'a Cell<usize>,
}

/// `Step::Give(k)` hands over min(k, bytes asked for, bytes left): the source never caps a request at the
/// reader's buffer size, so under the default answer `Give(usize::MAX)` a reader that asks for more than its
/// buffer holds gets as much as it asked for, however much that is (what `Cursor` and files do).
impl Read for Src<'_> {
    fn read(&mut self, buf: &mut [u8]) -> std::io::Result<usize> {
        self.calls.set(self.calls.get() + 1);
        if self.first_buf.get() == 0 {
            self.first_buf.set(buf.len());
        }
        self.max_ask.set(self.max_ask.get().max(buf.len()));
        let step = if self.next < self.plan.len() {
            self.next += 1;
            self.plan[self.next - 1]
        } else {
            Step::Give(usize::MAX) // default: fill the buffer offered
        };
        match step {
            Step::Interrupted => Err(std::io::Error::new(std::io::ErrorKind::Interrupted, "interrupted")),
            Step::Give(k) => {
                let n = k.min(buf.len()).min(self.data.len() - self.pos);
                buf[..n].copy_from_slice(&self.data[self.pos..self.pos + n]);
                self.pos += n;
                Ok(n)
            }
        }
    }
}

fn render_tok(r: &mut Reader, ty: Ty) -> String {
    match ty {
        Ty::I8 => r.read::<i8>().to_string(),
        Ty::U8 => r.read::<u8>().to_string(),
        Ty::I16 => r.read::<i16>().to_string(),
        Ty::U16 => r.read::<u16>().to_string(),
        Ty::I32 => r.read::<i32>().to_string(),
        Ty::U32 => r.read::<u32>().to_string(),
        Ty::I64 => r.read::<i64>().to_string(),
        Ty::U64 => r.read::<u64>().to_string(),
        Ty::I128 => r.read::<i128>().to_string(),
        Ty::U128 => r.read::<u128>().to_string(),
        Ty::Isize => r.read::<isize>().to_string(),
        Ty::Usize => r.read::<usize>().to_string(),
        Ty::Str => show_str(&r.read::<String>()),
        Ty::Char => format!("{:?}", r.read::<char>()),
    }
}

fn render_vec(r: &mut Reader, ty: Ty, n: usize) -> String {
    macro_rules! v {
        ($t:ty) => {
            format!("[{}]", r.read_vec::<$t>(n).iter().map(|x| x.to_string()).collect::<Vec<_>>().join(", "))
        };
    }
    match ty {
        Ty::I8 => v!(i8),
        Ty::U8 => v!(u8),
        Ty::I16 => v!(i16),
        Ty::U16 => v!(u16),
        Ty::I32 => v!(i32),
        Ty::U32 => v!(u32),
        Ty::I64 => v!(i64),
        Ty::U64 => v!(u64),
        Ty::I128 => v!(i128),
        Ty::U128 => v!(u128),
        Ty::Isize => v!(isize),
        Ty::Usize => v!(usize),
        Ty::Str => show_vec(&r.read_vec::<String>(n)),
        Ty::Char => format!("[{}]", r.read_vec::<char>(n).iter().map(|x| format!("{:?}", x)).collect::<Vec<_>>().join(", ")),
    }
}

/// Tuples go through the crate's own `Readable for (A, B, …)` impls for the shapes used here.
fn render_tup(r: &mut Reader, ts: &[Ty]) -> String {
    use Ty::*;
    match ts {
        [I64, I64] => {
            let (a, b): (i64, i64) = r.read();
            format!("({}, {})", a, b)
        }
        [I32, Str] => {
            let (a, b): (i32, String) = r.read();
            format!("({}, {})", a, show_str(&b))
        }
        [Str, U8] => {
            let (a, b): (String, u8) = r.read();
            format!("({}, {})", show_str(&a), b)
        }
        [I8, U64, Str] => {
            let (a, b, c): (i8, u64, String) = r.read();
            format!("({}, {}, {})", a, b, show_str(&c))
        }
        [I64, I64, I64] => {
            let (a, b, c): (i64, i64, i64) = r.read();
            format!("({}, {}, {})", a, b, c)
        }
        [U8, I16, U32, I64] => {
            let (a, b, c, d): (u8, i16, u32, i64) = r.read();
            format!("({}, {}, {}, {})", a, b, c, d)
        }
        [I8, U8, I16, U16, I32] => {
            let (a, b, c, d, e): (i8, u8, i16, u16, i32) = r.read();
            format!("({}, {}, {}, {}, {})", a, b, c, d, e)
        }
        [I8, U8, I16, U16, I32, U32] => {
            let (a, b, c, d, e, f): (i8, u8, i16, u16, i32, u32) = r.read();
            format!("({}, {}, {}, {}, {}, {})", a, b, c, d, e, f)
        }
        [I8, U8, I16, U16, I32, U32, I64] => {
            let (a, b, c, d, e, f, g): (i8, u8, i16, u16, i32, u32, i64) = r.read();
            format!("({}, {}, {}, {}, {}, {}, {})", a, b, c, d, e, f, g)
        }
        [I8, U8, I16, U16, I32, U32, I64, Str] => {
            let (a, b, c, d, e, f, g, h): (i8, u8, i16, u16, i32, u32, i64, String) = r.read();
            format!("({}, {}, {}, {}, {}, {}, {}, {})", a, b, c, d, e, f, g, show_str(&h))
        }
        _ => panic!("harness: tuple shape {:?} not wired", ts),
    }
}

const TUPLE_SHAPES: &[&[Ty]] = &[
    &[Ty::I64, Ty::I64],
    &[Ty::I32, Ty::Str],
    &[Ty::Str, Ty::U8],
    &[Ty::I8, Ty::U64, Ty::Str],
    &[Ty::I64, Ty::I64, Ty::I64],
    &[Ty::U8, Ty::I16, Ty::U32, Ty::I64],
    &[Ty::I8, Ty::U8, Ty::I16, Ty::U16, Ty::I32],
    &[Ty::I8, Ty::U8, Ty::I16, Ty::U16, Ty::I32, Ty::U32],
    &[Ty::I8, Ty::U8, Ty::I16, Ty::U16, Ty::I32, Ty::U32, Ty::I64],
    &[Ty::I8, Ty::U8, Ty::I16, Ty::U16, Ty::I32, Ty::U32, Ty::I64, Ty::Str],
];

struct Exec {
    out: Result<Vec<String>, String>,
    calls: usize,
    first_buf: usize,
    max_ask: usize,
}

/// One execution of the REAL reader.
fn run_real(input: &[u8], plan: &[Step], script: &[Op]) -> Exec {
    let calls = Cell::new(0);
    let first_buf = Cell::new(0);
    let max_ask = Cell::new(0);
    let out = catch(|| {
        let src = Src { data: input, pos: 0, plan, next: 0, calls: &calls, first_buf: &first_buf, max_ask: &max_ask };
        let mut r = Reader::new(Box::new(src));
        let mut res = vec![];
        for op in script {
            res.push(match op {
                Op::Tok(t) => render_tok(&mut r, *t),
                Op::Line => show_opt(&r.read_line()),
                Op::Lines => show_vec(&r.read_lines()),
                Op::Eof => format!("{}", r.is_eof()),
                Op::Vec(t, n) => render_vec(&mut r, *t, *n),
                Op::Tup(ts) => render_tup(&mut r, ts),
            });
        }
        res
    });
    Exec { out, calls: calls.get(), first_buf: first_buf.get(), max_ask: max_ask.get() }
}

// ---------------------------------------------------------------------------------------------
// cases

#[derive(Clone)]
struct Case {
    input: Vec<u8>,
    script: Vec<Op>,
    /// how deliveries are enumerated for this case
    mode: Delivery,
}

#[derive(Clone, Copy, PartialEq)]
enum Delivery {
    /// all 2^(L-1) chunkings, plus all placements of <= k Interrupted among the read calls
    AllChunkings { interrupts: usize },
    /// <= 2 deviations (cuts anywhere, Interrupted anywhere) from the default fill-the-buffer answer
    TwoDeviations,
    /// long input: listed plans only
    Listed,
    /// input of several buffer sizes: whole-input delivery, uniform chunks around the buffer size and above
    /// it, and the listed plans
    Huge,
    /// every uniform chunk size 1..=L (a threshold on "how much is already buffered" flips somewhere in
    /// between), plus everything TwoDeviations does
    SweepAndTwo,
    /// MANY isolated deviations over one reader's lifetime (`sustained_plans`), nothing else
    Sustained,
}

fn plan_to_json(p: &[Step]) -> Value {
    Value::Array(p.iter().map(|s| match s { Step::Give(k) => json!(k), Step::Interrupted => json!("interrupted") }).collect())
}

fn plan_from_json(v: &Value) -> Vec<Step> {
    v.as_array().unwrap().iter().map(|s| if s == "interrupted" { Step::Interrupted } else { Step::Give(s.as_u64().unwrap() as usize) }).collect()
}

/// the chunk lengths of a composition of `len` given by the cut mask
fn chunks_of(len: usize, mask: u64) -> Vec<Step> {
    let mut v = vec![];
    let mut cur = 0;
    for i in 0..len {
        cur += 1;
        if i + 1 == len || (mask >> i) & 1 == 1 {
            v.push(Step::Give(cur));
            cur = 0;
        }
    }
    v
}

/// insert Interrupted before the read calls listed (indices into the call sequence incl. the EOF read)
fn with_interrupts(base: &[Step], at: &[usize]) -> Vec<Step> {
    // base has one Give per data-carrying call; the EOF read is the default answer after the plan.
    let mut out = vec![];
    let mut pending: Vec<usize> = at.to_vec();
    pending.sort();
    for (i, s) in base.iter().enumerate() {
        for _ in pending.iter().filter(|&&a| a == i) {
            out.push(Step::Interrupted);
        }
        out.push(*s);
    }
    for _ in pending.iter().filter(|&&a| a >= base.len()) {
        out.push(Step::Interrupted);
    }
    out
}

/// Deliveries with MANY isolated deviations over the lifetime of one reader: every data-carrying read hands
/// over `c` bytes (c of `chunks`) and an Interrupted precedes every k-th read call, the end-of-input read
/// included (k = 1, 2, 3; for the smallest chunk also two Interrupted in a row before every call).  An input
/// of L bytes is read in L/c + 1 calls and sees about L/(c k) interrupts, each of them alone and retryable.
fn sustained_plans(len: usize, chunks: &[usize]) -> Vec<Vec<Step>> {
    let mut out = vec![];
    for (ci, &c) in chunks.iter().enumerate() {
        let calls = (len + c - 1) / c + 1;
        let periods: &[(usize, usize)] = if ci == 0 { &[(1, 1), (2, 1), (3, 1), (1, 2)] } else { &[(1, 1), (2, 1), (3, 1)] };
        for &(k, burst) in periods {
            let mut p = Vec::with_capacity(calls * 2);
            for i in 0..calls {
                if i % k == k - 1 {
                    p.extend(std::iter::repeat(Step::Interrupted).take(burst));
                }
                p.push(Step::Give(c));
            }
            out.push(p);
        }
    }
    out
}

/// Deliveries of an input of several buffer sizes `b`.  The default answer (plan []) already is "as much as
/// is asked for, however much that is"; on top of it: uniform chunks of b-1, b, b+1, 2b and 3b+1 bytes
/// (the larger ones differ from the default only for a reader that asks for more than b at a time — then
/// they cap what it gets, where the default does not), a half-buffer first read that shifts every later
/// buffer boundary, the deviation plans of the buffer-boundary family with shifts of 1 and 7 bytes (with
/// the -1/+0/+1 of the head lengths, a head ends 0..2 and 6..8 bytes off a shifted boundary), and chunks of
/// 1021 bytes with an Interrupted before every read call.
fn huge_plans(b: usize, len: usize) -> Vec<Vec<Step>> {
    let mut out: Vec<Vec<Step>> = vec![vec![]];
    for k in [b - 1, b, b + 1, 2 * b, 3 * b + 1] {
        // enough steps even if every call is offered (and takes) only b bytes
        out.push(vec![Step::Give(k); len / k.min(b) + 2]);
    }
    let mut shifted = vec![Step::Give(b / 2 + 1)];
    shifted.extend(vec![Step::Give(b); len / b + 2]);
    out.push(shifted);
    out.extend(deviation_plans(b, &[1, 7]).into_iter().filter(|p| !p.is_empty()));
    // hundreds of read calls, an Interrupted before every one of them (1021 is prime to the buffer size)
    out.extend(sustained_plans(len, &[1021]).into_iter().take(1));
    out
}

fn plans_for(case: &Case, listed: &[Vec<Step>], b: usize) -> Vec<Vec<Step>> {
    let len = case.input.len();
    match case.mode {
        Delivery::Listed => listed.to_vec(),
        Delivery::Huge => huge_plans(b, len),
        Delivery::Sustained => sustained_plans(len, &[1, 2, 3, 7, 25]),
        Delivery::AllChunkings { interrupts } => {
            let mut out = vec![];
            let nmask = if len == 0 { 1 } else { 1u64 << (len - 1) };
            for mask in 0..nmask {
                let base = if len == 0 { vec![] } else { chunks_of(len, mask) };
                out.push(base.clone());
                let calls = base.len() + 1;
                if interrupts >= 1 {
                    for a in 0..calls {
                        out.push(with_interrupts(&base, &[a]));
                    }
                }
                if interrupts >= 2 {
                    for a in 0..calls {
                        for b in a..calls {
                            out.push(with_interrupts(&base, &[a, b]));
                        }
                    }
                }
            }
            out
        }
        Delivery::SweepAndTwo => {
            let mut c2 = case.clone();
            c2.mode = Delivery::TwoDeviations;
            let mut out = plans_for(&c2, listed, b);
            for k in 1..=len {
                out.push(vec![Step::Give(k); (len + k - 1) / k]);
                // the same with the first chunk shorter, so that chunk boundaries fall elsewhere
                if k >= 2 {
                    let mut v = vec![Step::Give(k / 2)];
                    v.extend(vec![Step::Give(k); (len + k - 1) / k]);
                    out.push(v);
                }
            }
            out
        }
        Delivery::TwoDeviations => {
            // deviations: a cut (short read) after byte i, or an Interrupted before call j
            let mut out = vec![vec![]];
            for i in 1..len {
                out.push(vec![Step::Give(i)]);
                for j in i + 1..len {
                    out.push(vec![Step::Give(i), Step::Give(j - i)]);
                }
                // one cut + one interrupt, before the first, second or EOF call
                out.push(vec![Step::Interrupted, Step::Give(i)]);
                out.push(vec![Step::Give(i), Step::Interrupted]);
                out.push(vec![Step::Give(i), Step::Give(usize::MAX), Step::Interrupted]);
            }
            out.push(vec![Step::Interrupted]);
            out.push(vec![Step::Interrupted, Step::Interrupted]);
            out.push(vec![Step::Give(usize::MAX), Step::Interrupted]);
            out.push(vec![Step::Give(usize::MAX), Step::Interrupted, Step::Interrupted]);
            // byte-at-a-time delivery is not bounded-deviation but is named by the property
            out.push(vec![Step::Give(1); len]);
            // nor are many isolated deviations: short reads throughout, an Interrupted before every (k-th) call
            out.extend(sustained_plans(len, &[1, 2, 3]));
            out
        }
    }
}

fn extreme_tokens() -> Vec<(Ty, String)> {
    let mut v = vec![];
    macro_rules! ext {
        ($t:ty, $ty:expr) => {
            v.push(($ty, <$t>::MIN.to_string()));
            v.push(($ty, <$t>::MAX.to_string()));
        };
    }
    ext!(i8, Ty::I8);
    ext!(u8, Ty::U8);
    ext!(i16, Ty::I16);
    ext!(u16, Ty::U16);
    ext!(i32, Ty::I32);
    ext!(u32, Ty::U32);
    ext!(i64, Ty::I64);
    ext!(u64, Ty::U64);
    ext!(i128, Ty::I128);
    ext!(u128, Ty::U128);
    ext!(isize, Ty::Isize);
    ext!(usize, Ty::Usize);
    v
}

/// type choices tried for a token: the narrowest signed and unsigned integer types that hold it, the
/// widest ones, String
fn type_choices(tok: &str) -> Vec<Ty> {
    let mut v = vec![];
    let t = tok.as_bytes();
    let (neg, digits) = if t[0] == b'-' { (true, &t[1..]) } else { (false, t) };
    if !digits.is_empty() && digits.len() <= 38 && digits.iter().all(|d| d.is_ascii_digit()) {
        let mag: u128 = std::str::from_utf8(digits).unwrap().parse().unwrap();
        if let Some(s) = [Ty::I8, Ty::I16, Ty::I32, Ty::I64, Ty::I128].iter().find(|ty| ty.fits(neg, mag)) {
            v.push(*s);
        }
        if let Some(u) = [Ty::U8, Ty::U16, Ty::U32, Ty::U64, Ty::U128].iter().find(|ty| ty.fits(neg, mag)) {
            v.push(*u);
        }
        if Ty::Isize.fits(neg, mag) {
            v.push(Ty::Isize);
        }
    }
    v.push(Ty::Str);
    v
}

fn build_short_cases(max_len: usize, quick: bool) -> Vec<Case> {
    let toks: &[&str] = if quick { &["0", "7", "-1", "42", "a", "xy", "-"] } else { &["0", "7", "-1", "42", "-128", "255", "a", "xy", "-", "-0", "007"] };
    let seps: &[&str] = if quick { &[" ", "\n", "\r\n", "\r", "  ", "\n\n"] } else { &[" ", "\n", "\r\n", "\r", "  ", "\t\n", "\n\n", "\r\n\r\n", "\r\r\n"] };
    let leads: &[&str] = if quick { &["", " ", "\n"] } else { &["", " ", "\n", "\r\n"] };
    let trails: &[&str] = if quick { &["", "\n", "\r\n", " ", "\r"] } else { &["", "\n", "\r\n", " ", "\r", "\n\n", "\n\r"] };
    let mut inputs: Vec<(Vec<u8>, Vec<String>)> = vec![];
    // whitespace-only and empty inputs
    for s in ["", " ", "\n", "\r", "\r\n", "\n\n", "\r\n\n", " \n ", "\n\r", "\r\r"] {
        inputs.push((s.as_bytes().to_vec(), vec![]));
    }
    for lead in leads {
        for trail in trails {
            for a in toks {
                let s = format!("{lead}{a}{trail}");
                if s.len() <= max_len {
                    inputs.push((s.into_bytes(), vec![a.to_string()]));
                }
                for sep in seps {
                    for b in toks {
                        let s = format!("{lead}{a}{sep}{b}{trail}");
                        if s.len() <= max_len {
                            inputs.push((s.into_bytes(), vec![a.to_string(), b.to_string()]));
                        }
                        // three-token inputs: thorough only, on a reduced frame
                        if quick || !lead.is_empty() || !matches!(*trail, "" | "\n" | "\r") {
                            continue;
                        }
                        if !toks.iter().take(5).any(|t| t == a) || !toks.iter().take(5).any(|t| t == b) || !seps.iter().take(4).any(|x| x == sep) {
                            continue;
                        }
                        for sep2 in seps.iter().take(4) {
                            for c in toks.iter().take(5) {
                                let s = format!("{lead}{a}{sep}{b}{sep2}{c}{trail}");
                                if s.len() <= max_len {
                                    inputs.push((s.into_bytes(), vec![a.to_string(), b.to_string(), c.to_string()]));
                                }
                            }
                        }
                    }
                }
            }
        }
    }
    inputs.sort_by(|x, y| (x.0.len(), &x.0).cmp(&(y.0.len(), &y.0)));
    inputs.dedup_by(|x, y| x.0 == y.0);

    let mut cases = vec![];
    for (input, tokens) in inputs {
        let len = input.len();
        let interrupts = if len <= if quick { 5 } else { 6 } { 2 } else if len <= if quick { 7 } else { 9 } { 1 } else { 0 };
        let mode = Delivery::AllChunkings { interrupts };
        let mut scripts: Vec<Vec<Op>> = vec![];
        // lines
        scripts.push(vec![Op::Lines, Op::Line, Op::Eof]);
        scripts.push(vec![Op::Line, Op::Line, Op::Line, Op::Line, Op::Eof]);
        scripts.push(vec![Op::Eof, Op::Line, Op::Eof, Op::Lines]);
        // chars through the whole input
        let nonws = input.iter().filter(|b| !is_ws(**b)).count();
        scripts.push((0..nonws).map(|_| Op::Tok(Ty::Char)).chain([Op::Eof]).collect());
        // typed token reads: every combination of the per-token type choices
        if !tokens.is_empty() {
            let choices: Vec<Vec<Ty>> = tokens.iter().map(|t| type_choices(t)).collect();
            let mut combos: Vec<Vec<Ty>> = vec![vec![]];
            for ch in &choices {
                combos = combos.into_iter().flat_map(|c| ch.iter().map(move |t| { let mut d = c.clone(); d.push(*t); d })).collect();
            }
            for c in combos {
                scripts.push(c.iter().map(|t| Op::Tok(*t)).chain([Op::Eof]).collect());
                // is_eof interposed before every read
                scripts.push(c.iter().flat_map(|t| [Op::Eof, Op::Tok(*t)]).chain([Op::Eof, Op::Eof]).collect());
            }
            // token then the rest as lines
            scripts.push(vec![Op::Tok(Ty::Str), Op::Line, Op::Lines]);
            scripts.push(vec![Op::Tok(Ty::Str), Op::Lines]);
            scripts.push(vec![Op::Tok(Ty::Char), Op::Line, Op::Tok(Ty::Str)]);
            scripts.push(vec![Op::Line, Op::Tok(Ty::Str), Op::Eof]);
            scripts.push(vec![Op::Vec(Ty::Str, tokens.len()), Op::Eof]);
            scripts.push(vec![Op::Vec(Ty::I64, tokens.len()), Op::Eof]);
            if tokens.len() == 2 {
                scripts.push(vec![Op::Tup(vec![Ty::I64, Ty::I64]), Op::Eof]);
                scripts.push(vec![Op::Tup(vec![Ty::I32, Ty::Str]), Op::Line]);
                scripts.push(vec![Op::Tup(vec![Ty::Str, Ty::U8]), Op::Eof]);
            }
            if tokens.len() == 3 {
                scripts.push(vec![Op::Tup(vec![Ty::I64, Ty::I64, Ty::I64]), Op::Eof]);
                scripts.push(vec![Op::Tup(vec![Ty::I8, Ty::U64, Ty::Str]), Op::Eof]);
            }
        }
        scripts.sort();
        scripts.dedup();
        for script in scripts {
            if reference(&input, &script).is_some() {
                cases.push(Case { input: input.clone(), script, mode });
            }
        }
    }
    cases
}

/// Every byte string over {'7', ' ', CR, LF} up to `max_len`, shortest first: CR runs of every length before
/// LF (CR CR LF, CR CR CR LF), CR CR at the end of input, CR LF CR LF, LF CR, a lone CR between tokens, blank
/// and whitespace-only lines — every arrangement at every position, not a chosen list of separators.  Read
/// with the line scripts and the mixed token/line scripts the reference accepts, under ALL chunkings.
fn build_ws_closure_cases(max_len: usize) -> Vec<Case> {
    const ALPHA: [u8; 4] = [b'7', b' ', b'\r', b'\n'];
    let mut cases = vec![];
    for len in 0..=max_len {
        for code in 0..(1usize << (2 * len)) {
            let input: Vec<u8> = (0..len).map(|i| ALPHA[(code >> (2 * (len - 1 - i))) & 3]).collect();
            let interrupts = if len <= 4 { 2 } else if len <= 5 { 1 } else { 0 };
            let scripts = [
                vec![Op::Lines, Op::Line, Op::Eof],
                vec![Op::Line, Op::Line, Op::Eof, Op::Lines],
                vec![Op::Eof, Op::Line, Op::Eof, Op::Lines],
                vec![Op::Tok(Ty::Str), Op::Line, Op::Lines],
                vec![Op::Tok(Ty::I32), Op::Line, Op::Lines],
                vec![Op::Tok(Ty::Char), Op::Line, Op::Tok(Ty::Str)],
                vec![Op::Line, Op::Tok(Ty::Str), Op::Eof],
                vec![Op::Line, Op::Tok(Ty::U64), Op::Line, Op::Eof],
            ];
            for script in scripts {
                if reference(&input, &script).is_some() {
                    cases.push(Case { input: input.clone(), script, mode: Delivery::AllChunkings { interrupts } });
                }
            }
        }
    }
    cases
}

fn build_long_token_cases() -> Vec<Case> {
    let mut cases = vec![];
    // every extreme value of every integer type, framed, read with its own type (and the wider ones)
    for (ty, tok) in extreme_tokens() {
        for (lead, trail) in [("", ""), (" ", "\n"), ("\n", "\r\n"), ("", " x"), ("\r\r\n", "\r\r\n"), ("\n\r", "\r\r\r\n\r\r")] {
            let input = format!("{lead}{tok}{trail}").into_bytes();
            let mut script = vec![Op::Tok(ty), Op::Eof];
            if trail == " x" {
                script = vec![Op::Tok(ty), Op::Tok(Ty::Char), Op::Eof];
            }
            if trail.starts_with("\r\r") {
                // the rest of the token's line ends in a run of CRs: read it as lines
                script = vec![Op::Tok(ty), Op::Line, Op::Line, Op::Eof];
            }
            if reference(&input, &script).is_some() {
                cases.push(Case { input: input.clone(), script, mode: Delivery::TwoDeviations });
            }
            let s2 = vec![Op::Tok(Ty::Str), Op::Line, Op::Eof];
            if lead.is_empty() && trail == "" {
                cases.push(Case { input, script: s2, mode: Delivery::TwoDeviations });
            }
        }
    }
    // tuples of every wired arity
    let sample = |t: Ty| -> &'static str {
        match t {
            Ty::I8 => "-128",
            Ty::U8 => "255",
            Ty::I16 => "-32768",
            Ty::U16 => "65535",
            Ty::I32 => "-2147483648",
            Ty::U32 => "4294967295",
            Ty::I64 => "-9223372036854775808",
            Ty::U64 => "18446744073709551615",
            Ty::Str => "word",
            _ => "1",
        }
    };
    for shape in TUPLE_SHAPES {
        for sep in [" ", "\n", "\r\n", " \r\n ", "\r\r\n", "\n\r"] {
            let input = shape.iter().map(|t| sample(*t)).collect::<Vec<_>>().join(sep).into_bytes();
            let script = vec![Op::Tup(shape.to_vec()), Op::Eof];
            if reference(&input, &script).is_some() {
                cases.push(Case { input, script, mode: Delivery::TwoDeviations });
            }
        }
    }
    // integers (small ones and every extreme value) FOLLOWED by a long remainder: the reader has much more
    // than the token buffered when it parses it, or very little, depending on the delivery
    let tails = [
        "the quick brown fox jumps over the lazy dog and keeps on running\nsecond line\n",
        " 17 rest of this fairly long line, well beyond forty bytes of it\r\nnext\r\n",
        // lines whose data ends in CRs before the terminator, LF CR, CR CR at the end of input
        " 17 rest of this fairly long line, with CRs before its end\r\r\nnext\r\r\r\n\n\rlast\r\r",
    ];
    let mut heads: Vec<(Ty, String)> = extreme_tokens();
    heads.extend([(Ty::I32, "-3".to_string()), (Ty::U8, "7".to_string()), (Ty::I64, "0".to_string()), (Ty::U128, "12345678901234567890123".to_string()), (Ty::I128, "-12345678901234567890123".to_string())]);
    for (ty, tok) in heads {
        for (ti, tail) in tails.iter().enumerate() {
            for lead in ["", "\n "] {
                let input = format!("{lead}{tok}{}{tail}", if ti == 0 { "\n" } else { "" }).into_bytes();
                for script in [
                    vec![Op::Tok(ty), Op::Line, Op::Line, Op::Line, Op::Eof],
                    vec![Op::Tok(ty), Op::Tok(Ty::Char), Op::Line, Op::Lines],
                    vec![Op::Tok(ty), Op::Tok(Ty::Str), Op::Tok(Ty::Str), Op::Line, Op::Eof],
                    vec![Op::Eof, Op::Tok(ty), Op::Eof, Op::Line],
                ] {
                    if reference(&input, &script).is_some() {
                        cases.push(Case { input: input.clone(), script, mode: Delivery::SweepAndTwo });
                    }
                }
            }
        }
    }
    // several integers of different widths in one long line, then lines
    let input = b"-128 255 -32768 65535 -2147483648 4294967295 -9223372036854775808 18446744073709551615 tail\nline two\n".to_vec();
    cases.push(Case { input: input.clone(), script: vec![Op::Tup(vec![Ty::I8, Ty::U8, Ty::I16, Ty::U16, Ty::I32, Ty::U32, Ty::I64, Ty::Str]), Op::Tok(Ty::Str), Op::Line, Op::Line, Op::Eof], mode: Delivery::SweepAndTwo });
    cases.push(Case { input, script: vec![Op::Vec(Ty::I128, 8), Op::Line, Op::Lines], mode: Delivery::SweepAndTwo });
    // vectors and multi-line text
    let input = b"3\n10 -20 30\r\nsome words here\r\n\r\nlast line".to_vec();
    cases.push(Case { input: input.clone(), script: vec![Op::Tok(Ty::Usize), Op::Vec(Ty::I32, 3), Op::Line, Op::Line, Op::Lines, Op::Eof], mode: Delivery::TwoDeviations });
    cases.push(Case { input, script: vec![Op::Lines], mode: Delivery::TwoDeviations });
    // the same with runs of CRs in and before the line terminators
    let input = b"3\r\r\n10 -20 30\r\r\r\nsome words here\r\n\r\r\n\n\rlast line\r\r".to_vec();
    cases.push(Case { input: input.clone(), script: vec![Op::Tok(Ty::Usize), Op::Line, Op::Vec(Ty::I32, 3), Op::Line, Op::Line, Op::Lines, Op::Eof], mode: Delivery::TwoDeviations });
    cases.push(Case { input: input.clone(), script: vec![Op::Line, Op::Tok(Ty::I8), Op::Line, Op::Eof, Op::Lines], mode: Delivery::TwoDeviations });
    cases.push(Case { input, script: vec![Op::Lines], mode: Delivery::TwoDeviations });
    cases
}

/// Inputs as long as the reader's internal buffer: the interesting bytes are placed at every offset
/// around the position where the default delivery ends the first buffer-full.
fn build_boundary_cases(b: usize, quick: bool) -> (Vec<Case>, Vec<Vec<Step>>) {
    let mut cases = vec![];
    let specials: Vec<(&str, Vec<Op>)> = vec![
        ("-9223372036854775808 7", vec![Op::Tok(Ty::I64), Op::Tok(Ty::U8), Op::Eof]),
        ("340282366920938463463374607431768211455\n", vec![Op::Tok(Ty::U128), Op::Eof]),
        ("-170141183460469231731687303715884105728", vec![Op::Tok(Ty::I128), Op::Eof]),
        ("-1 -2", vec![Op::Tup(vec![Ty::I64, Ty::I64]), Op::Eof]),
        ("word\r\nnext\r\n\r\nz", vec![Op::Tok(Ty::Str), Op::Line, Op::Line, Op::Line, Op::Line, Op::Line]),
        ("ab\r\ncd\r", vec![Op::Line, Op::Line, Op::Line, Op::Line]),
        ("   \r\n  x", vec![Op::Eof, Op::Tok(Ty::Char), Op::Eof]),
        ("  \n \r\n", vec![Op::Eof, Op::Line]),
        ("q", vec![Op::Tok(Ty::Char), Op::Eof, Op::Line]),
        // runs of CRs before LF, LF CR, CR CR at the end of input, straddling the boundary at every offset
        ("ab\r\r\ncd\r\r", vec![Op::Line, Op::Line, Op::Line, Op::Line]),
        ("x\r\r\r\ny\n\r\nz", vec![Op::Line, Op::Line, Op::Line, Op::Line, Op::Line]),
        ("word\r\r\nnext\n\r\r\n\rz", vec![Op::Tok(Ty::Str), Op::Line, Op::Line, Op::Line, Op::Line, Op::Line]),
        ("7\r\r\n-8\r\r", vec![Op::Tok(Ty::U8), Op::Line, Op::Tok(Ty::I8), Op::Lines]),
        ("  \r\r\n \r x", vec![Op::Eof, Op::Tok(Ty::Char), Op::Eof]),
    ];
    let step = if quick { 1 } else { 1 };
    for (sp, tail_script) in &specials {
        let span = sp.len() + 2;
        for delta in (0..=span).step_by(step) {
            // filler token of length b - delta - 1, then one separator, then the special text: the special
            // text starts at offset b - delta
            if b < delta + 2 {
                continue;
            }
            for sep in [b' ', b'\n'] {
                let mut input = vec![b'a'; b - delta - 1];
                input.push(sep);
                input.extend_from_slice(sp.as_bytes());
                let mut script = vec![Op::Tok(Ty::Str)];
                if sep == b'\n' && matches!(tail_script[0], Op::Line) {
                    // the first read_line finishes the filler's line
                    script.push(Op::Line);
                }
                script.extend(tail_script.iter().cloned());
                if reference(&input, &script).is_some() {
                    cases.push(Case { input, script, mode: Delivery::Listed });
                }
            }
        }
    }
    // input of exactly b, b-1, b+1 bytes: end of input at the buffer boundary
    for l in [b - 1, b, b + 1, 2 * b, 2 * b + 1] {
        let mut input = vec![b'7'; l];
        cases.push(Case { input: input.clone(), script: vec![Op::Tok(Ty::Str), Op::Eof, Op::Line], mode: Delivery::Listed });
        *input.last_mut().unwrap() = b'\r';
        cases.push(Case { input: input.clone(), script: vec![Op::Line, Op::Line, Op::Eof], mode: Delivery::Listed });
        *input.last_mut().unwrap() = b'\n';
        cases.push(Case { input: input.clone(), script: vec![Op::Line, Op::Line, Op::Eof], mode: Delivery::Listed });
        // the input ends in CR CR LF / CR CR
        let n = input.len();
        input[n - 3..n - 1].fill(b'\r');
        cases.push(Case { input: input.clone(), script: vec![Op::Line, Op::Line, Op::Eof], mode: Delivery::Listed });
        input[n - 3] = b'7';
        input[n - 1] = b'\r';
        cases.push(Case { input, script: vec![Op::Line, Op::Line, Op::Eof], mode: Delivery::Listed });
    }
    (cases, deviation_plans(b, &[1, 2, 3, 7]))
}

/// The listed plans for long inputs: default; one short read that moves the buffer boundary by k bytes (k of
/// `ks`); an Interrupted before the first / second / third call; both.
fn deviation_plans(b: usize, ks: &[usize]) -> Vec<Vec<Step>> {
    let mut plans: Vec<Vec<Step>> = vec![vec![]];
    for &k in ks {
        plans.push(vec![Step::Give(b - k)]);
        plans.push(vec![Step::Give(k)]);
        plans.push(vec![Step::Give(b - k), Step::Interrupted]);
        plans.push(vec![Step::Give(b - k), Step::Give(k)]);
    }
    plans.push(vec![Step::Interrupted]);
    plans.push(vec![Step::Give(usize::MAX), Step::Interrupted]);
    plans.push(vec![Step::Give(usize::MAX), Step::Give(usize::MAX), Step::Interrupted]);
    plans.push(vec![Step::Give(usize::MAX), Step::Interrupted, Step::Interrupted]);
    plans
}

/// `len` bytes of a repeating pattern; separator bytes or a sign that would end the text are replaced by
/// the digit `last`, so that the text ends in a complete token and not in the middle of a CR LF.
fn patterned(pattern: &[u8], len: usize, last: u8) -> Vec<u8> {
    let mut v: Vec<u8> = pattern.iter().copied().cycle().take(len).collect();
    while v.last().map_or(false, |&l| is_ws(l) || l == b'-') {
        v.pop();
    }
    v.resize(len, last);
    v
}

/// One word of `len` bytes: blocks of 997 equal letters, a..z in turn (997 is prime to the buffer size, so a
/// dropped, repeated or misplaced buffer-sized piece changes the word; the run-length form stays small).
fn huge_word(len: usize) -> Vec<u8> {
    (0..len).map(|i| b'a' + ((i / 997) % 26) as u8).collect()
}

fn count_tokens(s: &[u8]) -> usize {
    let mut r = RefP { s, p: 0 };
    let mut n = 0;
    while r.token().is_some() {
        n += 1;
    }
    n
}

/// Inputs of SEVERAL buffer sizes.  Head: one word, or one line of space-separated integers, of 1x, 2x, 3x
/// and 5x the observed buffer size b (each -1, +0, +1 bytes).  Tail: nothing, a single LF, or LF followed by
/// b+1 resp. 2b further bytes of integer tokens in LF- and CRLF-terminated lines (unterminated last line).
/// Scripts: String reads, read_line, read_lines, integer vectors (and the mixed token-then-line forms).  A
/// second frame puts a short count token and a tab in front of the head (as in "3\t<huge>\n...").  So a
/// token / line spans 1..5 refills and ends at, just before and just after a buffer boundary, with nothing,
/// little, more than one buffer and two buffers of further input behind it.
fn build_huge_cases(b: usize, quick: bool) -> Vec<Case> {
    let mut cases = vec![];
    let mults: &[usize] = if quick { &[1, 2, 3, 5] } else { &[1, 2, 3, 4, 5, 8] };
    let int_line: &[u8] = b"-2147483648 65535 7 -1 4294967295 0 ";
    let tail_lines: &[u8] = b"-9223372036854775808 42\r\n7 255 -1\n18446744073709551615\n\n";
    for &m in mults {
        for d in [-1isize, 0, 1] {
            let t = (m * b) as isize + d;
            if t < 2 {
                continue;
            }
            let t = t as usize;
            for tail_len in [0usize, 1, b + 1, 2 * b] {
                let mut tail: Vec<u8> = vec![];
                if tail_len >= 1 {
                    tail.push(b'\n');
                    tail.extend(patterned(tail_lines, tail_len - 1, b'3'));
                }
                let n_tail = count_tokens(&tail);
                for word in [true, false] {
                    let head = if word { huge_word(t) } else { patterned(int_line, t, b'1') };
                    let n_head = if word { 1 } else { count_tokens(&head) };
                    let head_ty = if word { Ty::Str } else { Ty::I64 };
                    let plain: Vec<u8> = head.iter().chain(tail.iter()).copied().collect();
                    let mut scripts: Vec<(bool, Vec<Op>)> = vec![
                        // token reads through the whole input (String resp. integer vector)
                        (false, vec![Op::Vec(head_ty, n_head), Op::Vec(Ty::I128, n_tail), Op::Eof]),
                        (false, vec![Op::Line, Op::Line, Op::Line, Op::Eof]),
                        (false, vec![Op::Lines, Op::Eof]),
                        // the head token by token, then the rest of its line and the other lines
                        (false, vec![Op::Vec(Ty::Str, n_head), Op::Line, Op::Lines]),
                        // framed by a count token, as contest inputs are
                        (true, vec![Op::Tok(Ty::Usize), Op::Vec(head_ty, n_head), Op::Vec(Ty::Str, n_tail), Op::Eof]),
                    ];
                    if !word {
                        scripts.push((true, vec![Op::Tok(Ty::U8), Op::Line, Op::Lines]));
                    }
                    for (framed, script) in scripts {
                        let input = if framed { b"3\t".iter().chain(plain.iter()).copied().collect() } else { plain.clone() };
                        if reference(&input, &script).is_some() {
                            cases.push(Case { input, script, mode: Delivery::Huge });
                        }
                    }
                }
            }
        }
    }
    cases
}

/// One reader living through MANY read calls and many isolated deviations: texts of 40, 100, 400 and 1100
/// bytes (lines of integer tokens, LF and CRLF terminated, a blank line; and tokens separated by whitespace
/// runs of a hundred and more bytes) under the script families of the other cases (typed vectors, String
/// reads, read_line / read_lines, is_eof before every read, chars, token-then-line), delivered 1, 2, 3, 7
/// and 25 bytes per read with an Interrupted before every, every second and every third read call
/// (`sustained_plans`): up to 1100 read calls and 2200 interrupts in one execution.
fn build_lifetime_cases() -> Vec<Case> {
    let lines: &[u8] = b"-9223372036854775808 42\r\n7 255 -1\n18446744073709551615\n\n";
    let mut cases = vec![];
    let mut add = |input: &[u8], script: Vec<Op>| {
        if reference(input, &script).is_some() {
            cases.push(Case { input: input.to_vec(), script, mode: Delivery::Sustained });
        }
    };
    for len in [40usize, 100, 400, 1100] {
        let input = patterned(lines, len, b'3');
        let n = count_tokens(&input);
        add(&input, vec![Op::Vec(Ty::I128, n), Op::Eof]);
        add(&input, vec![Op::Vec(Ty::Str, n), Op::Eof, Op::Line]);
        add(&input, vec![Op::Lines, Op::Eof]);
        add(&input, vec![Op::Line, Op::Line, Op::Line, Op::Eof, Op::Lines]);
        add(&input, vec![Op::Vec(Ty::Str, n / 2), Op::Line, Op::Lines]);
        add(&input, (0..n).flat_map(|_| [Op::Eof, Op::Tok(Ty::I128)]).chain([Op::Eof, Op::Line]).collect());
        add(&input, (0..n.min(24)).map(|_| Op::Tok(Ty::Char)).chain([Op::Line, Op::Lines]).collect());
        // the same amount of input, most of it whitespace: three tokens, runs of blanks / blank lines between
        // and after them
        let run = len / 3;
        let mut ws: Vec<u8> = b"7".to_vec();
        ws.extend(b" \n".iter().cycle().take(run));
        ws.extend_from_slice(b"-8");
        ws.extend(b"\r\n".iter().cycle().take(run / 2 * 2));
        ws.push(b'x');
        ws.extend(b"  \t\n".iter().cycle().take(run));
        add(&ws, vec![Op::Tok(Ty::U8), Op::Tok(Ty::I8), Op::Tok(Ty::Char), Op::Eof, Op::Line]);
        add(&ws, vec![Op::Eof, Op::Tok(Ty::Str), Op::Eof, Op::Tok(Ty::I64), Op::Eof, Op::Tok(Ty::Str), Op::Eof]);
        add(&ws, vec![Op::Tok(Ty::U8), Op::Line, Op::Tok(Ty::I8), Op::Lines]);
    }
    cases
}

// ---------------------------------------------------------------------------------------------

#[derive(Clone)]
struct Fail {
    family: &'static str,
    index: usize,
    input: Vec<u8>,
    script: Vec<Op>,
    plan: Vec<Step>,
    msg: String,
}

fn has_lone_cr(input: &[u8]) -> bool {
    input.iter().enumerate().any(|(i, &c)| c == b'\r' && input.get(i + 1) != Some(&b'\n'))
}

#[derive(Default)]
struct Tot {
    execs: u64,
    cases: u64,
    plans_distinct_lens: u64,
    interrupted_execs: u64,
    straddle: u64,
    /// the largest single request the reader made of the source, and the most read calls of one execution
    max_ask: usize,
    max_calls: usize,
    /// the most Interrupted answers one reader received in one execution
    max_interrupts: usize,
    /// time spent judging (evidence only: the share of the several-buffers family in the cost of the run)
    busy_s: f64,
    busy_huge_s: f64,
    outcomes: std::collections::HashSet<u64>,
    fails: Vec<Fail>,
}

fn judge(case: &Case, idx: usize, plans: &[Vec<Step>]) -> Tot {
    let mut t = Tot::default();
    let expect = reference(&case.input, &case.script).unwrap();
    t.cases = 1;
    t.outcomes.insert(fnv(expect.join("\u{1}").as_bytes()));
    // the default delivery (every read fills the buffer offered) of the same bytes: every other delivery
    // must return what this one returns, whatever the reference parser says
    let base = run_real(&case.input, &[], &case.script);
    t.execs += 1;
    t.max_ask = base.max_ask;
    t.max_calls = base.calls;
    let lone_cr = has_lone_cr(&case.input);
    let mut seen: [bool; 3] = [false; 3];
    for plan in plans {
        let ex = run_real(&case.input, plan, &case.script);
        t.execs += 1;
        t.max_ask = t.max_ask.max(ex.max_ask);
        t.max_calls = t.max_calls.max(ex.calls);
        let has_int = plan.contains(&Step::Interrupted);
        if has_int {
            t.interrupted_execs += 1;
            t.max_interrupts = t.max_interrupts.max(plan.iter().take(ex.calls).filter(|s| **s == Step::Interrupted).count());
        }
        if plan.iter().any(|s| matches!(s, Step::Give(k) if *k < case.input.len())) {
            t.straddle += 1;
        }
        let mut fail = |family: &'static str, k: usize, msg: String, t: &mut Tot| {
            if !seen[k] {
                seen[k] = true;
                t.fails.push(Fail { family, index: idx, input: case.input.clone(), script: case.script.clone(), plan: plan.clone(), msg });
            }
        };
        match &ex.out {
            Err(p) => {
                if has_int {
                    fail("interrupted_not_retried", 0, format!("the reader panicked ({p}) on a delivery containing ErrorKind::Interrupted, which the Read contract says to retry"), &mut t);
                } else {
                    fail("panic_on_valid_script", 1, format!("the reader panicked: {p}"), &mut t);
                }
            }
            Ok(v) => match judge_values(v, &base.out, &expect, lone_cr) {
                Some((family, msg)) => fail(family, 2, msg, &mut t),
                None => {}
            },
        }
    }
    t
}

/// The oracle for one delivery that returned `v`.  `delivery_dependence` (judged on ALL inputs): the values
/// differ from those of the default delivery of the same bytes (or, if that one panicked, from the
/// reference).  `reference_mismatch` (judged only where the property defines the answer, i.e. not on inputs
/// with a CR that is not followed by LF): every delivery agrees but the reference parser says otherwise.
fn judge_values(v: &[String], base: &Result<Vec<String>, String>, expect: &[String], lone_cr: bool) -> Option<(&'static str, String)> {
    let deviates = match base {
        Ok(bv) => v != &bv[..],
        Err(_) => v != expect,
    };
    if deviates {
        let base_shown = match base {
            Ok(bv) => shorten(bv),
            Err(p) => format!("a panic ({p})"),
        };
        Some(("delivery_dependence", format!("this delivery returned {}; the default delivery (every read fills the buffer offered) of the same bytes returned {}; the property demands the same values for every delivery (reference parser: {})", shorten(v), base_shown, shorten(expect))))
    } else if v != expect && !lone_cr {
        Some(("reference_mismatch", format!("every delivery returns {}, the reference parser gives {}", shorten(v), shorten(expect))))
    } else {
        None
    }
}

/// returned values for a message: long ones (64 KiB filler tokens) abbreviated
fn shorten(v: &[String]) -> String {
    let parts: Vec<String> = v
        .iter()
        .map(|x| {
            let n = x.chars().count();
            if n <= 96 {
                x.clone()
            } else {
                format!("{}…({} chars)…{}", x.chars().take(24).collect::<String>(), n, x.chars().skip(n - 24).collect::<String>())
            }
        })
        .collect();
    format!("[{}]", parts.join(", "))
}

fn describe(input: &[u8]) -> String {
    if input.len() <= 64 {
        format!("{:?}", String::from_utf8_lossy(input))
    } else {
        let head = String::from_utf8_lossy(&input[..8]).into_owned();
        let tail = String::from_utf8_lossy(&input[input.len() - 48..]).into_owned();
        format!("{:?}…({} bytes)…{:?}", head, input.len(), tail)
    }
}

/// A delivery plan for signatures and summaries: short plans in full; long periodic ones (a uniform chunk
/// size, an Interrupted before every k-th call) as `<period> x <repetitions> + <rest>`.
fn describe_plan(plan: &[Step]) -> String {
    let js = |p: &[Step]| serde_json::to_string(&plan_to_json(p)).unwrap();
    if plan.len() > 16 {
        if let Some(p) = (1..=8).find(|&p| (p..plan.len()).all(|i| plan[i] == plan[i - p])) {
            let reps = plan.len() / p;
            let rest = &plan[reps * p..];
            return format!("{} x {}{}", js(&plan[..p]), reps, if rest.is_empty() { String::new() } else { format!(" + {}", js(rest)) });
        }
    }
    js(plan)
}

/// Replay form of an input: a list of [bytes, n] = the byte string repeated n times (periods up to 64 are
/// detected; [byte, n] is a run of one byte), so that inputs of several buffer sizes stay small in replay files.
fn compress_input(input: &[u8]) -> Value {
    fn flush(lit: &mut Vec<u8>, out: &mut Vec<Value>) {
        if !lit.is_empty() {
            out.push(json!([lit.clone(), 1]));
            lit.clear();
        }
    }
    let mut out: Vec<Value> = vec![];
    let mut lit: Vec<u8> = vec![];
    let mut i = 0;
    while i < input.len() {
        // the period (<= 64) whose repetitions cover the most bytes from here on
        let (mut best_p, mut best_cov) = (1usize, 1usize);
        for p in 1..=64.min(input.len() - i) {
            let mut j = i + p;
            while j < input.len() && input[j] == input[j - p] {
                j += 1;
            }
            let cov = (j - i) / p * p;
            if cov >= 2 * p && cov > best_cov {
                (best_p, best_cov) = (p, cov);
            }
        }
        if best_cov < 8 {
            lit.push(input[i]);
            i += 1;
            continue;
        }
        flush(&mut lit, &mut out);
        if best_p == 1 {
            out.push(json!([input[i], best_cov]));
        } else {
            out.push(json!([&input[i..i + best_p], best_cov / best_p]));
        }
        i += best_cov;
    }
    flush(&mut lit, &mut out);
    Value::Array(out)
}

fn expand_input(v: &Value) -> Vec<u8> {
    let mut out = vec![];
    for r in v.as_array().unwrap() {
        let unit: Vec<u8> = match r[0].as_array() {
            Some(bytes) => bytes.iter().map(|x| x.as_u64().unwrap() as u8).collect(),
            None => vec![r[0].as_u64().unwrap() as u8],
        };
        for _ in 0..r[1].as_u64().unwrap() {
            out.extend_from_slice(&unit);
        }
    }
    out
}

// ---------------------------------------------------------------------------------------------
// executions that could end the PROCESS (a call depth or a stack buffer that grows with the number of refills
// inside one whitespace run, token or line): each runs in a child process of its own, in both build profiles

/// One crash-risky case: (kind, n, script) name the input and the script; the delivery is one byte per read.
#[derive(Clone, Debug)]
struct Risky {
    /// "ws": tokens separated, preceded and followed by whitespace runs of n bytes; "token": one word of n
    /// bytes; "line": one line of n bytes (words and blanks), CR LF, a second short line
    kind: &'static str,
    n: usize,
    script: Vec<Op>,
}

const RISKY_STACK: usize = 2 << 20;

impl Risky {
    fn input(&self) -> Vec<u8> {
        match self.kind {
            "ws" => {
                let run = || b" \n".iter().cycle().take(self.n).copied();
                run().chain(*b"7").chain(run()).chain(*b"-8").chain(run()).collect()
            }
            "token" => huge_word(self.n).into_iter().chain(*b"\n").collect(),
            _ => b"ab ".iter().cycle().take(self.n).copied().chain(*b"\r\nz").collect(),
        }
    }
    fn to_json(&self) -> Value {
        json!({"kind": self.kind, "n": self.n, "script": self.script.iter().map(op_to_json).collect::<Vec<_>>()})
    }
    fn from_json(v: &Value) -> Risky {
        let kind = ["ws", "token", "line"].into_iter().find(|k| v["kind"] == *k).expect("kind");
        Risky { kind, n: v["n"].as_u64().unwrap() as usize, script: v["script"].as_array().unwrap().iter().map(op_from_json).collect() }
    }
    fn name(&self) -> String {
        format!("{}:n={}:script={}:plan=1 byte per read, interrupted before every 10th call", self.kind, self.n, serde_json::to_string(&self.to_json()["script"]).unwrap())
    }
    /// What the child process does: the case on a thread with the stack of an ordinary spawned thread (2 MiB),
    /// one byte per read and an Interrupted before every tenth call; Err(message) if the values differ from
    /// the default delivery / the reference or the reader panics.  (A stack overflow ends the process here.)
    fn run_here(&self) -> Result<(), String> {
        let me = self.clone();
        let body = move || {
            let input = me.input();
            let expect = reference(&input, &me.script).expect("harness: the reference rejects a crash-risky script");
            let base = run_real(&input, &[], &me.script);
            let plan: Vec<Step> = (0..=input.len()).flat_map(|i| (i % 10 == 9).then_some(Step::Interrupted).into_iter().chain([Step::Give(1)])).collect();
            let ex = run_real(&input, &plan, &me.script);
            match ex.out {
                Err(p) => Err(format!("the reader panicked: {p}")),
                Ok(got) => match judge_values(&got, &base.out, &expect, has_lone_cr(&input)) {
                    Some((family, msg)) => Err(format!("{family}: {msg}")),
                    None => Ok(()),
                },
            }
        };
        std::thread::Builder::new().stack_size(RISKY_STACK).spawn(body).map_err(|e| e.to_string())?.join().expect("harness: the case thread panicked")
    }
    /// The case in a child process built with `profile` ("release" | "dbg").  Err(message) = violation (the
    /// child reported one, or died); Err inside Err = machinery.
    fn run_in_child(&self, profile: &str) -> Result<Result<(), String>, String> {
        use std::os::unix::process::ExitStatusExt;
        let exe = std::env::current_exe().map_err(|e| e.to_string())?;
        let exe = std::path::PathBuf::from(exe.to_string_lossy().replace("/dbg/", "/release/").replace("/release/", &format!("/{profile}/")));
        let o = std::process::Command::new(&exe).args(["C08", "quick", "--risky-case", &self.to_json().to_string()]).env("VCORE_CHILD", "1").output().map_err(|e| format!("cannot run {}: {e}", exe.display()))?;
        let out = String::from_utf8_lossy(&o.stdout);
        let last = out.lines().last().unwrap_or("");
        if let Some(sig) = o.status.signal() {
            let err = String::from_utf8_lossy(&o.stderr);
            let why = if err.contains("has overflowed its stack") { "the runtime reports a stack overflow" } else { "no message from the runtime" };
            return Ok(Err(format!("the process was killed by signal {sig} ({why}) while the reader was reading this input one byte per read; the default delivery of the same bytes had returned normally before, in the same process, on the same {} KiB stack", RISKY_STACK >> 10)));
        }
        match (o.status.code(), last) {
            (Some(0), "RISKY-OK") => Ok(Ok(())),
            (Some(0), l) if l.starts_with("RISKY-FAIL ") => Ok(Err(l["RISKY-FAIL ".len()..].to_string())),
            (c, l) => Err(format!("crash-risky child ended with {c:?} and printed {l:?}")),
        }
    }
}

/// Whitespace runs, single tokens and single lines of 1x and 2x the buffer size and of 200 000 bytes.
fn build_risky_cases(b: usize) -> Vec<Risky> {
    let mut v = vec![];
    for n in [b, 2 * b, 200_000] {
        v.push(Risky { kind: "ws", n, script: vec![Op::Tok(Ty::U8), Op::Tok(Ty::I8), Op::Eof] });
        v.push(Risky { kind: "ws", n, script: vec![Op::Eof, Op::Tok(Ty::Char), Op::Eof, Op::Tok(Ty::Str), Op::Eof, Op::Line] });
        v.push(Risky { kind: "token", n, script: vec![Op::Tok(Ty::Str), Op::Eof] });
        v.push(Risky { kind: "token", n, script: vec![Op::Line, Op::Line, Op::Eof] });
        v.push(Risky { kind: "line", n, script: vec![Op::Line, Op::Line, Op::Eof] });
        v.push(Risky { kind: "line", n, script: vec![Op::Lines] });
        v.push(Risky { kind: "line", n, script: vec![Op::Vec(Ty::Str, (n + 2) / 3), Op::Line, Op::Tok(Ty::Char), Op::Eof] });
    }
    v
}

fn confirm(v: &Value) -> Result<(), String> {
    if let Some(r) = v.get("risky") {
        return match Risky::from_json(r).run_in_child(v["profile"].as_str().unwrap_or("release")) {
            Ok(verdict) => verdict,
            Err(machinery) => Err(format!("harness: {machinery}")),
        };
    }
    let input = expand_input(&v["input_rle"]);
    let script: Vec<Op> = v["script"].as_array().unwrap().iter().map(op_from_json).collect();
    let plan = plan_from_json(&v["plan"]);
    let expect = match reference(&input, &script) {
        Some(e) => e,
        None => return Ok(()),
    };
    let base = run_real(&input, &[], &script);
    let ex = run_real(&input, &plan, &script);
    match ex.out {
        Err(p) => Err(format!("the reader panicked: {p}")),
        Ok(got) => match judge_values(&got, &base.out, &expect, has_lone_cr(&input)) {
            Some((family, msg)) => Err(format!("{family}: {msg}")),
            None => Ok(()),
        },
    }
}

fn main() {
    let args = Args::parse();
    quiet_panics();
    if args.replay.is_some() {
        Run::replay_main(&args, &confirm);
    }
    if args.extra.first().map(|s| s.as_str()) == Some("--risky-case") {
        // child mode: one crash-risky case, one line on stdout
        let case = Risky::from_json(&serde_json::from_str(&args.extra[1]).expect("case json"));
        match case.run_here() {
            Ok(()) => println!("RISKY-OK"),
            Err(m) => println!("RISKY-FAIL {}", m.replace('\n', " ")),
        }
        std::process::exit(0);
    }
    let mut run = Run::new(&args, "reader", "fault_enumeration");
    let quick = args.tier == Tier::Quick;

    // observe the buffer size: the length of the slice offered to the first read call
    let probe = run_real(b"1", &[], &[Op::Tok(Ty::I32)]);
    let b = probe.first_buf;
    if b < 64 || probe.out.is_err() {
        run.machinery_failure(&format!("could not observe the reader's buffer size (first read was offered {} bytes, result {:?})", b, probe.out));
    }
    run.cov("observed_buffer_size", b as u64);

    let short = build_short_cases(if quick { 10 } else { 13 }, quick);
    let closure = build_ws_closure_cases(if quick { 7 } else { 8 });
    let n_closure = closure.len();
    let closure_cr_run_inputs = closure.iter().filter(|c| c.input.windows(3).any(|w| w == b"\r\r\n")).count();
    let long = build_long_token_cases();
    let (boundary, boundary_plans) = build_boundary_cases(b, quick);
    let huge = build_huge_cases(b, quick);
    let lifetime = build_lifetime_cases();
    let n_lifetime = lifetime.len();
    let n_short = short.len();
    let n_long = long.len();
    let n_boundary = boundary.len();
    let n_huge = huge.len();
    let huge_bytes: u64 = huge.iter().map(|c| c.input.len() as u64).sum();
    let huge_longest = huge.iter().map(|c| c.input.len()).max().unwrap_or(0);
    let huge_plan_count = huge_plans(b, huge_longest).len();
    // tokens / lines of >= 2 buffers followed by more than one further buffer of input
    let huge_two_buffers_then_more_than_one = huge.iter().filter(|c| c.input.len() > 3 * b && c.input[2 * b..].iter().any(|&x| x == b'\n')).count();
    let all: Vec<Case> = short.into_iter().chain(closure).chain(long).chain(boundary).chain(huge).chain(lifetime).collect();

    let tot = all
        .par_iter()
        .enumerate()
        .map(|(i, c)| {
            let t0 = std::time::Instant::now();
            let plans = plans_for(c, &boundary_plans, b);
            let mut t = judge(c, i, &plans);
            t.busy_s = t0.elapsed().as_secs_f64();
            if c.mode == Delivery::Huge {
                t.busy_huge_s = t.busy_s;
            }
            t
        })
        .reduce(Tot::default, |mut a, b| {
            a.execs += b.execs;
            a.cases += b.cases;
            a.interrupted_execs += b.interrupted_execs;
            a.straddle += b.straddle;
            a.max_ask = a.max_ask.max(b.max_ask);
            a.max_calls = a.max_calls.max(b.max_calls);
            a.max_interrupts = a.max_interrupts.max(b.max_interrupts);
            a.busy_s += b.busy_s;
            a.busy_huge_s += b.busy_huge_s;
            a.outcomes.extend(b.outcomes);
            a.fails.extend(b.fails);
            a.plans_distinct_lens += b.plans_distinct_lens;
            a
        });

    // one report per family: the first failing case in enumeration order (shortest input first)
    let mut fails = tot.fails.clone();
    fails.sort_by_key(|f| f.index);
    let mut reported: Vec<&'static str> = vec![];
    let mut fam_counts = std::collections::BTreeMap::new();
    for f in &fails {
        *fam_counts.entry(f.family).or_insert(0u64) += 1;
    }
    for f in &fails {
        if reported.contains(&f.family) {
            continue;
        }
        reported.push(f.family);
        let script_json: Vec<Value> = f.script.iter().map(op_to_json).collect();
        let sig = format!("{}:input={}:script={}:plan={}", f.family, describe(&f.input), serde_json::to_string(&script_json).unwrap(), describe_plan(&f.plan));
        let summary = format!("input {} script {} delivery {}: {} ({} (input, script) cases fail in this family)", describe(&f.input), serde_json::to_string(&script_json).unwrap(), describe_plan(&f.plan), f.msg, fam_counts[f.family]);
        run.violation(Violation::new(sig, summary, json!({"input_rle": compress_input(&f.input), "script": script_json, "plan": plan_to_json(&f.plan)})));
    }

    run.cov("evaluations", tot.execs);
    run.cov("distinct_nontrivial", tot.cases);
    run.cov("cases_short_all_chunkings", n_short as u64);
    run.cov("cases_ws_alphabet_closure_all_chunkings", n_closure as u64);
    run.cov("cases_ws_alphabet_closure_with_cr_cr_lf", closure_cr_run_inputs as u64);
    run.cov("cases_long_two_deviations", n_long as u64);
    run.cov("cases_buffer_boundary", n_boundary as u64);
    run.cov("cases_several_buffers_long", n_huge as u64);
    run.cov("cases_several_buffers_long_total_input_bytes", huge_bytes);
    run.cov("cases_several_buffers_long_longest_input", huge_longest as u64);
    run.cov("cases_several_buffers_long_deliveries_each", huge_plan_count as u64);
    run.cov("cases_several_buffers_long_share_of_judging_time", (tot.busy_huge_s / tot.busy_s.max(1e-9) * 1000.0).round() / 1000.0);
    run.cov("cases_long_lived_reader_sustained_deviations", n_lifetime as u64);
    run.cov("most_interrupted_answers_in_one_execution", tot.max_interrupts as u64);
    run.cov("largest_single_request_made_of_the_source", tot.max_ask as u64);
    run.cov("most_read_calls_in_one_execution", tot.max_calls as u64);
    run.cov("executions_with_interrupted", tot.interrupted_execs);
    run.cov("executions_with_short_read", tot.straddle);
    run.cov("distinct_expected_outcomes", tot.outcomes.len() as u64);
    run.cov("failing_cases_per_family", json!(fam_counts));
    run.cov("exhaustive", true);
    run.cov("rule", "evaluations = executions of the real Reader (one per (input, script, delivery plan)); distinct_nontrivial = distinct (input, script) pairs accepted by the reference parser as valid scripts. Short inputs (<= 10 bytes quick / 13 thorough, built from tokens x separators incl. CRLF, lone CR, blank lines): ALL 2^(L-1) chunkings, plus every placement of <= 2 Interrupted for L <= 5 (quick) / 6 and <= 1 for L <= 7 / 9; EVERY byte string over {'7', SP, CR, LF} of length <= 7 (quick) / 8 (so every run of CRs before LF, CR CR at end of input, CR LF CR LF, LF CR, lone CR between tokens, at every position) under line scripts and mixed token/line scripts: ALL chunkings, plus <= 2 Interrupted for L <= 4 and <= 1 for L = 5; extreme values of all 12 integer types, tuples of arity 2..8 and multi-line text: every placement of <= 2 deviations (short read / Interrupted) plus byte-at-a-time; integers of every width (extreme values included) followed by 60-90 further bytes under mixed token/line scripts (tails with CR runs before the terminators included): additionally every uniform chunk size 1..=L; inputs as long as the observed internal buffer with the interesting bytes (extreme integers, sign/digit cuts, CR LF pairs, CR runs before LF, LF CR, CR CR at end of input) at every offset around the boundary under 21 listed plans; inputs of SEVERAL buffer sizes: a head that is one word or one line of space-separated integers of 1x, 2x, 3x, 5x the observed buffer size b (-1, +0, +1 bytes each; thorough also 4x, 8x), followed by nothing, one LF, or LF and b+1 resp. 2b further bytes of integer tokens in LF/CRLF lines, without and with a leading count token, read by String reads, read_line x3, read_lines, integer vectors and token-then-line scripts, each under: whole-input delivery (the source hands over as much as is asked for, however much - it never caps a request at b), uniform chunks of b-1, b, b+1, 2b, 3b+1 bytes, a half-buffer first read followed by b-sized ones, the listed deviation plans with boundary shifts of 1 and 7 bytes, and 1021-byte reads with an Interrupted before every read call. MANY isolated deviations over one reader's lifetime: the extreme-value / tuple / multi-line / integer-then-long-remainder cases additionally under 1, 2 and 3 bytes per read with an Interrupted before every, every 2nd and every 3rd read call (byte-at-a-time also with two in a row before every call), and texts of 40, 100, 400 and 1100 bytes (lines of integer tokens LF/CRLF terminated with a blank line; tokens separated by whitespace runs of a third of the text) under typed vectors, String reads, read_line / read_lines, is_eof before every read, chars and token-then-line scripts, delivered 1, 2, 3, 7 and 25 bytes per read with the same interrupt periods (most_interrupted_answers_in_one_execution, most_read_calls_in_one_execution). Process-isolated cases (each in a child process of its own, on a 2 MiB stack, in the release and in the debug-assertions build; a child that dies by a signal is a violation of its case, replayed in a child again): whitespace runs before, between and after tokens, one word, and one line of words, of 1x and 2x the buffer size and of 200 000 bytes, one byte per read with an Interrupted before every tenth call, against the default delivery in the same process. Oracle per case: every delivery must return what the default delivery (each read fills the buffer offered) of the same bytes returns (delivery_dependence, all inputs), and that common result must equal the reference parser's where the property defines it (reference_mismatch, inputs without a lone CR)");
    for c in all.iter().step_by((all.len() / 6).max(1)).take(6) {
        run.sample(json!({"input": describe(&c.input), "script": c.script.iter().map(op_to_json).collect::<Vec<_>>(), "expected": reference(&c.input, &c.script)}));
    }
    run.assume("reference parser: tokens are maximal runs of non-ASCII-whitespace; a line ends at LF or CRLF (terminator dropped), a CR not followed by LF is part of the line; the reference_mismatch family is not judged on inputs with a lone CR (the property does not define them), delivery_dependence is judged on all inputs");
    run.assume("the harness's Read object hands over min(plan step, bytes asked for, bytes left): it never caps a request at the reader's buffer size, so a reader that asks for more than its buffer holds receives it (largest_single_request_made_of_the_source records the largest request seen)");
    run.assume("both build profiles of the harness are optimised builds (the debug-assertions profile inherits the release one): a call depth or stack use that grows with the input only in UNOPTIMISED builds (e.g. a self tail call that the optimiser turns into a loop) does not show in the process-isolated cases");
    run.assume("scripts the reference parser rejects (a token that is not there / does not fit the type) are outside the property and are not executed");
    // the replay form of inputs must be lossless (checked on a sample of every family)
    if let Some(c) = all.iter().step_by(997).chain(all[all.len() - n_huge - n_lifetime..].iter().step_by(37)).find(|c| expand_input(&compress_input(&c.input)) != c.input) {
        run.machinery_failure(&format!("the replay form of input {} does not expand to the input", describe(&c.input)));
    }
    if closure_cr_run_inputs < 100 {
        run.machinery_failure("the whitespace-alphabet family contains too few inputs with a run of CRs before LF");
    }
    if !run.has_violations() && (tot.execs < 100_000 || tot.interrupted_execs < 1000 || tot.straddle < 1000 || n_boundary < 50) {
        run.machinery_failure("exploration implausibly small");
    }
    // (measured on executions that ran to their end: a reader that gives up under interrupts is a finding,
    // not a reason to distrust the family)
    if !run.has_violations() && (n_lifetime < 30 || tot.max_interrupts < 1000 || tot.max_calls < 2000) {
        run.machinery_failure("the long-lived-reader family is too small (executions with >= 1000 isolated Interrupted answers)");
    }
    if n_huge < 100 || huge_longest < 7 * b || huge_two_buffers_then_more_than_one < 20 || tot.max_calls < 7 || tot.max_ask < b {
        run.machinery_failure("the several-buffers family is too small (tokens of >= 2 buffers followed by > 1 buffer of input, executions with >= 7 read calls)");
    }
    if std::env::var("VCORE_CHILD").is_err() {
        // the crash-risky cases, each in a child process of its own, in both build profiles
        let risky = build_risky_cases(b);
        // … and, where the workspace has built it, in an unoptimised build (profile `unopt`), in which recursion
        // stays recursion
        let exe = std::env::current_exe().map(|e| e.to_string_lossy().to_string()).unwrap_or_default();
        let have_unopt = std::path::Path::new(&exe.replace("/dbg/", "/release/").replace("/release/", "/unopt/")).exists();
        run.cov("process_isolated_unoptimised_build_present", have_unopt);
        let profiles: Vec<&str> = if have_unopt { vec!["release", "dbg", "unopt"] } else { vec!["release", "dbg"] };
        let jobs: Vec<(&str, &Risky)> = profiles.into_iter().flat_map(|p| risky.iter().map(move |r| (p, r))).collect();
        let results: Vec<Result<Result<(), String>, String>> = jobs.par_iter().map(|(p, r)| r.run_in_child(p)).collect();
        let mut reported = vec![];
        for ((profile, r), res) in jobs.iter().zip(results) {
            match res {
                Err(machinery) => run.machinery_failure(&machinery),
                Ok(Ok(())) => {}
                Ok(Err(msg)) => {
                    // one report per (profile, kind): the smallest n
                    if !reported.contains(&(*profile, r.kind)) {
                        reported.push((*profile, r.kind));
                        run.violation(Violation::new(format!("process_isolated:{profile}:{}", r.name()), format!("[{profile} build, case run in a process of its own] {} of {} bytes, script {}, one byte per read and an Interrupted before every tenth call: {msg}", r.kind, r.n, r.to_json()["script"]), json!({"risky": r.to_json(), "profile": profile})));
                    }
                }
            }
        }
        run.cov("cases_process_isolated_crash_risky", risky.len() as u64);
        run.cov("cases_process_isolated_crash_risky_longest_run", risky.iter().map(|r| r.n).max().unwrap_or(0) as u64);
        run.add("evaluations", 4 * risky.len() as u64);
        // the same enumeration in a build with debug assertions and overflow checks
        run.run_dbg_child();
    }
    run.finish(&confirm)
}
