//! vcore: shared machinery of the /verif model-checking harness.
//!
//! * `Args` / `Run`: command line, wall clock, evidence file, violation reporting with the
//!   known-findings filter, replay files.
//! * `hang`: calls into the code under test that do not return, for engines that make millions of cheap
//!   calls (per-thread heartbeat slots, an observer thread, the stuck call handed back to the engine).
//! * `explore`: level-synchronous, parallel, explicit-state breadth-first search over the states of the
//!   REAL implementation (the system's `step` calls the code under test and compares it with a
//!   reference model in lockstep).  Keys are full canonical byte strings, not lossy hashes.
//!
//! Exit codes used by every engine: 0 = property held on everything explored (KNOWN-FINDING lines may
//! have been printed), 1 = violation (a line `VIOLATION property=<id> replay=<path>` was printed),
//! 2 = machinery problem (never a verdict).

pub mod explore;
pub mod hang;
pub mod run;

pub use explore::{explore, replay_history, ExploreCfg, ExploreResult, Found, System};
pub use run::{Args, Run, Tier, Violation};
pub use serde_json::{json, Value};

/// Run `f`, converting a panic into an `Err(message)`.  The default panic hook is silenced while the
/// closure runs only if `quiet_panics()` was called at start-up.
pub fn catch<T>(f: impl FnOnce() -> T) -> Result<T, String> {
    let was = IN_CATCH.with(|c| c.replace(true));
    let r = std::panic::catch_unwind(std::panic::AssertUnwindSafe(f));
    IN_CATCH.with(|c| c.set(was));
    match r {
        Ok(v) => Ok(v),
        Err(e) => Err(if let Some(s) = e.downcast_ref::<&str>() {
            s.to_string()
        } else if let Some(s) = e.downcast_ref::<String>() {
            s.clone()
        } else {
            "panic (non-string payload)".to_string()
        }),
    }
}

/// Install a panic hook that prints nothing (the engines catch panics of the code under test and turn
/// them into verdicts; the default hook would flood stderr).
pub fn quiet_panics() {
    if std::env::var("VERIF_LOUD").is_ok() {
        return;
    }
    // panics of the code under test are caught and judged; a panic on the harness's own main thread
    // outside a catch is a harness bug and must stay visible
    let main_id = std::thread::current().id();
    std::panic::set_hook(Box::new(move |info| {
        if std::thread::current().id() == main_id && !IN_CATCH.with(|c| c.get()) {
            eprintln!("harness panic (not a verdict): {info}");
        }
    }));
}

thread_local! {
    static IN_CATCH: std::cell::Cell<bool> = std::cell::Cell::new(false);
}

/// FNV-1a, used only for outcome fingerprints (never for state identity).
pub fn fnv(bytes: &[u8]) -> u64 {
    let mut h: u64 = 0xcbf29ce484222325;
    for &b in bytes {
        h ^= b as u64;
        h = h.wrapping_mul(0x100000001b3);
    }
    h
}
