use serde_json::{json, Map, Value};
use std::path::PathBuf;
use std::time::Instant;

#[derive(Clone, Copy, PartialEq, Eq, Debug)]
pub enum Tier {
    Quick,
    Thorough,
}

impl Tier {
    pub fn name(self) -> &'static str {
        match self {
            Tier::Quick => "quick",
            Tier::Thorough => "thorough",
        }
    }
    pub fn pick<T>(self, quick: T, thorough: T) -> T {
        match self {
            Tier::Quick => quick,
            Tier::Thorough => thorough,
        }
    }
}

pub struct Args {
    pub prop: String,
    pub tier: Tier,
    pub seed: u64,
    pub replay: Option<PathBuf>,
    pub extra: Vec<String>,
}

pub fn verif_root() -> PathBuf {
    PathBuf::from(std::env::var("VERIF_ROOT").unwrap_or_else(|_| "/verif".to_string()))
}

impl Args {
    /// `<bin> <property> <quick|thorough> [extra…]` or `<bin> <property> --replay <file>`
    pub fn parse() -> Args {
        let a: Vec<String> = std::env::args().skip(1).collect();
        if a.len() < 2 {
            eprintln!("usage: <engine> <property-id> <quick|thorough> | <engine> <property-id> --replay <file>");
            std::process::exit(2);
        }
        let seed = std::env::var("VERIF_SEED").ok().and_then(|s| s.parse::<i128>().ok()).unwrap_or(0) as u64;
        let mut tier = match std::env::var("VERIF_TIER").ok().as_deref() {
            Some("thorough") => Tier::Thorough,
            _ => Tier::Quick,
        };
        let mut replay = None;
        let mut extra = vec![];
        match a[1].as_str() {
            "quick" => tier = Tier::Quick,
            "thorough" => tier = Tier::Thorough,
            "--replay" => {
                if a.len() < 3 {
                    eprintln!("--replay needs a file");
                    std::process::exit(2);
                }
                replay = Some(PathBuf::from(&a[2]));
            }
            other => {
                eprintln!("unknown tier {other}");
                std::process::exit(2);
            }
        }
        let skip = if replay.is_some() { 3 } else { 2 };
        extra.extend(a.iter().skip(skip).cloned());
        Args { prop: a[0].clone(), tier, seed, replay, extra }
    }

    /// Load the `replay` member of a replay file written by `Run::finish`.
    pub fn load_replay(&self) -> Option<Value> {
        let p = self.replay.as_ref()?;
        let txt = std::fs::read_to_string(p).unwrap_or_else(|e| {
            eprintln!("cannot read replay file {}: {e}", p.display());
            std::process::exit(2)
        });
        let v: Value = serde_json::from_str(&txt).unwrap_or_else(|e| {
            eprintln!("replay file {} is not JSON: {e}", p.display());
            std::process::exit(2)
        });
        Some(v.get("replay").cloned().unwrap_or(v))
    }
}

/// One property violation observed on the real code.
#[derive(Clone, Debug)]
pub struct Violation {
    /// Stable identity of the failing case (engine-specific: the minimal input / history / call site).
    /// Known findings are matched against this string.
    pub signature: String,
    /// Human-readable: expected vs observed.
    pub summary: String,
    /// Everything `--replay` needs to re-execute the case without the explorer.
    pub replay: Value,
}

impl Violation {
    pub fn new(signature: impl Into<String>, summary: impl Into<String>, replay: Value) -> Self {
        Violation { signature: signature.into(), summary: summary.into(), replay }
    }
}

struct KnownEntry {
    property: String,
    signature: String,
    prefix: bool,
    what: String,
}

/// Book-keeping of one check run: coverage counters, evidence file, verdict.
pub struct Run {
    pub prop: String,
    pub tier: Tier,
    pub seed: u64,
    pub engine: String,
    level: String,
    start: Instant,
    cov: Map<String, Value>,
    samples: Vec<Value>,
    assumptions: Vec<String>,
    violations: Vec<Violation>,
    max_samples: usize,
    max_violations: usize,
    dropped_violations: u64,
}

impl Run {
    pub fn new(args: &Args, engine: &str, level: &str) -> Run {
        Run {
            prop: args.prop.clone(),
            tier: args.tier,
            seed: args.seed,
            engine: engine.to_string(),
            level: level.to_string(),
            start: Instant::now(),
            cov: Map::new(),
            samples: vec![],
            assumptions: vec![],
            violations: vec![],
            max_samples: 16,
            max_violations: 64,
            dropped_violations: 0,
        }
    }

    pub fn elapsed(&self) -> f64 {
        self.start.elapsed().as_secs_f64()
    }

    /// Set a coverage key.
    pub fn cov(&mut self, key: &str, v: impl Into<Value>) {
        self.cov.insert(key.to_string(), v.into());
    }

    /// Add to an integer coverage key (created at 0).
    pub fn add(&mut self, key: &str, n: u64) {
        let cur = self.cov.get(key).and_then(|v| v.as_u64()).unwrap_or(0);
        self.cov.insert(key.to_string(), json!(cur + n));
    }

    pub fn get(&self, key: &str) -> u64 {
        self.cov.get(key).and_then(|v| v.as_u64()).unwrap_or(0)
    }

    /// Record one explored case, written out, for the evidence file (bounded).
    pub fn sample(&mut self, v: Value) {
        if self.samples.len() < self.max_samples {
            self.samples.push(v);
        }
    }

    pub fn assume(&mut self, s: &str) {
        self.assumptions.push(s.to_string());
    }

    pub fn violation(&mut self, v: Violation) {
        if self.violations.iter().any(|w| w.signature == v.signature) {
            return;
        }
        if self.violations.len() < self.max_violations {
            self.violations.push(v);
        } else {
            self.dropped_violations += 1;
        }
    }

    pub fn samples_empty(&self) -> bool {
        self.samples.is_empty()
    }

    pub fn has_violations(&self) -> bool {
        !self.violations.is_empty()
    }

    /// A vacuity / self-check failure: the harness did not explore what it claims.  Exit 2.
    pub fn machinery_failure(&self, msg: &str) -> ! {
        println!("MACHINERY-FAILURE property={} engine={} {}", self.prop, self.engine, msg);
        eprintln!("MACHINERY-FAILURE property={} engine={} {}", self.prop, self.engine, msg);
        std::process::exit(2)
    }

    fn load_known(&self) -> Vec<KnownEntry> {
        let p = crate::run::verif_root().join("known_findings.json");
        let txt = match std::fs::read_to_string(&p) {
            Ok(t) => t,
            Err(_) => return vec![],
        };
        let v: Value = match serde_json::from_str(&txt) {
            Ok(v) => v,
            Err(e) => self.machinery_failure(&format!("known_findings.json is not valid JSON: {e}")),
        };
        let mut out = vec![];
        if let Some(arr) = v.get("known").and_then(|k| k.as_array()) {
            for e in arr {
                out.push(KnownEntry {
                    property: e["property"].as_str().unwrap_or("").to_string(),
                    signature: e["signature"].as_str().unwrap_or("").to_string(),
                    prefix: e["match"].as_str() == Some("prefix"),
                    what: e["what"].as_str().unwrap_or("").to_string(),
                });
            }
        }
        // "fixed" entries are documentation only: they suppress nothing.
        out
    }

    /// Write the evidence file, print KNOWN-FINDING / VIOLATION lines, exit.
    /// `confirm` re-executes a replay value plainly (no explorer) and returns Err(summary) if the
    /// violation shows again; it is called twice per new violation and both runs must agree.
    pub fn finish(mut self, confirm: &dyn Fn(&Value) -> Result<(), String>) -> ! {
        if std::env::var("VCORE_CHILD").is_ok() {
            // second-profile pass: report to the parent, write nothing
            let vs: Vec<Value> = self.violations.iter().map(|v| json!({"signature": v.signature, "summary": v.summary, "replay": v.replay})).collect();
            println!("CHILD-RESULT {}", json!({"violations": vs, "coverage": Value::Object(self.cov.clone()), "wall_s": self.elapsed()}));
            std::process::exit(0);
        }
        let known = self.load_known();
        let mut new_violations = vec![];
        let mut known_lines = vec![];
        for v in std::mem::take(&mut self.violations) {
            let hit = known.iter().find(|k| {
                k.property == self.prop && (if k.prefix { v.signature.starts_with(&k.signature) } else { v.signature == k.signature })
            });
            match hit {
                Some(k) => known_lines.push(format!("KNOWN-FINDING: property={} {} [{}]", self.prop, k.what, v.signature)),
                None => new_violations.push(v),
            }
        }
        known_lines.sort();
        known_lines.dedup();

        // confirm every new violation by two plain re-executions
        let mut confirmed = vec![];
        for v in new_violations {
            let r1 = confirm_any(&self.prop, &v.replay, confirm);
            let r2 = confirm_any(&self.prop, &v.replay, confirm);
            match (&r1, &r2) {
                (Err(a), Err(b)) if a == b => confirmed.push(v),
                _ => {
                    self.machinery_failure(&format!(
                        "violation did not reproduce identically on plain re-execution: signature={} first={:?} second={:?}",
                        v.signature, r1, r2
                    ));
                }
            }
        }

        let root = verif_root();
        let wall = self.elapsed();
        let mut cov = std::mem::take(&mut self.cov);
        if self.samples.is_empty() {
            self.samples.push(json!("(no sample recorded)"));
        }
        cov.insert("samples".into(), Value::Array(std::mem::take(&mut self.samples)));
        cov.insert("known_findings_hit".into(), json!(known_lines.len()));
        if self.dropped_violations > 0 {
            cov.insert("violations_not_recorded_beyond_cap".into(), json!(self.dropped_violations));
        }
        let ev = json!({
            "property_id": self.prop,
            "tier": self.tier.name(),
            "seed": self.seed as i64,
            "level": self.level,
            "engine": self.engine,
            "coverage": Value::Object(cov),
            "assumptions": self.assumptions,
            "wall_s": (wall * 1000.0).round() / 1000.0,
            "violations": confirmed.len(),
        });
        let evdir = root.join("evidence");
        let _ = std::fs::create_dir_all(&evdir);
        let evpath = evdir.join(format!("{}.json", self.prop));
        if let Err(e) = std::fs::write(&evpath, serde_json::to_string_pretty(&ev).unwrap() + "\n") {
            eprintln!("cannot write evidence {}: {e}", evpath.display());
            std::process::exit(2);
        }

        for l in &known_lines {
            println!("{l}");
        }
        if confirmed.is_empty() {
            println!(
                "OK property={} tier={} engine={} wall_s={:.1} known_findings={}",
                self.prop,
                self.tier.name(),
                self.engine,
                wall,
                known_lines.len()
            );
            std::process::exit(0);
        }
        let rdir = root.join("replays");
        let _ = std::fs::create_dir_all(&rdir);
        for (i, v) in confirmed.iter().enumerate() {
            let path = rdir.join(format!("{}-{}.json", self.prop, i));
            let doc = json!({
                "property": self.prop,
                "engine": self.engine,
                "signature": v.signature,
                "summary": v.summary,
                "replay": v.replay,
            });
            if let Err(e) = std::fs::write(&path, serde_json::to_string_pretty(&doc).unwrap() + "\n") {
                eprintln!("cannot write replay {}: {e}", path.display());
                std::process::exit(2);
            }
            println!("VIOLATION property={} replay={}", self.prop, path.display());
            println!("  signature: {}", v.signature);
            println!("  {}", v.summary);
        }
        std::process::exit(1)
    }

    /// Run the same engine built with the `dbg` cargo profile (debug assertions + overflow checks) as a
    /// child and merge what it finds: an overflow / debug-assertion panic on an in-domain input is a
    /// violation of the property in debug builds of the library.
    pub fn run_dbg_child(&mut self) {
        self.dbg_child(None)
    }

    /// `run_dbg_child` for an engine whose code under test may fail to terminate: the child gets `cap` of
    /// wall time.  A child that finds a call that does not return reports it as a violation itself and
    /// ends; one that is still running after `cap` is killed, and that is a machinery failure naming the
    /// child (exit 2, no verdict) — the parent never waits forever.
    pub fn run_dbg_child_within(&mut self, cap: std::time::Duration) {
        self.dbg_child(Some(cap))
    }

    fn dbg_child(&mut self, cap: Option<std::time::Duration>) {
        let dbg = match dbg_binary() {
            Some(d) => d,
            None => self.machinery_failure("the dbg-profile build of this engine does not exist (run ./check --setup)"),
        };
        let mut cmd = std::process::Command::new(&dbg);
        cmd.args([self.prop.as_str(), self.tier.name()]).env("VCORE_CHILD", "1");
        let o = match cap {
            None => cmd.output(),
            Some(cap) => self.output_within(&mut cmd, &dbg, cap),
        };
        let out = match o {
            Ok(o) if o.status.success() => String::from_utf8_lossy(&o.stdout).into_owned(),
            Ok(o) => self.machinery_failure(&format!("dbg-profile pass exited {:?}: {}", o.status, String::from_utf8_lossy(&o.stderr).chars().take(600).collect::<String>())),
            Err(e) => self.machinery_failure(&format!("cannot run {}: {e}", dbg.display())),
        };
        let line = match out.lines().find_map(|l| l.strip_prefix("CHILD-RESULT ")) {
            Some(l) => l.to_string(),
            None => self.machinery_failure("dbg-profile pass printed no result"),
        };
        let v: Value = serde_json::from_str(&line).unwrap_or(Value::Null);
        for x in v["violations"].as_array().cloned().unwrap_or_default() {
            self.violation(Violation::new(
                format!("dbg:{}", x["signature"].as_str().unwrap_or("")),
                format!("[build with debug assertions and overflow checks] {}", x["summary"].as_str().unwrap_or("")),
                json!({"dbg_child": true, "inner": x["replay"]}),
            ));
        }
        let mut summary = Map::new();
        for k in ["evaluations", "states", "transitions", "distinct_nontrivial"] {
            if let Some(n) = v["coverage"].get(k) {
                summary.insert(k.to_string(), n.clone());
            }
        }
        summary.insert("wall_s".into(), v["wall_s"].clone());
        summary.insert("violations".into(), json!(v["violations"].as_array().map_or(0, |a| a.len())));
        self.cov.insert("second_pass_debug_assertions_overflow_checks".into(), Value::Object(summary));
    }

    /// `Command::output` with a wall cap: both pipes are drained by threads; the end of the child's stdout
    /// (it has exited) or the cap, whichever comes first, ends the wait.
    fn output_within(&self, cmd: &mut std::process::Command, what: &std::path::Path, cap: std::time::Duration) -> std::io::Result<std::process::Output> {
        use std::io::Read;
        use std::process::Stdio;
        let deadline = Instant::now() + cap;
        let mut child = cmd.stdin(Stdio::null()).stdout(Stdio::piped()).stderr(Stdio::piped()).spawn()?;
        let drain = |mut r: Box<dyn Read + Send>| {
            let (tx, rx) = std::sync::mpsc::channel();
            std::thread::spawn(move || {
                let mut buf = vec![];
                let _ = r.read_to_end(&mut buf);
                let _ = tx.send(buf);
            });
            rx
        };
        let out = drain(Box::new(child.stdout.take().expect("piped")));
        let err = drain(Box::new(child.stderr.take().expect("piped")));
        let stdout = out.recv_timeout(cap).ok();
        let status = loop {
            match child.try_wait()? {
                Some(st) => break Some(st),
                None if stdout.is_none() || Instant::now() >= deadline => break None,
                None => std::thread::sleep(std::time::Duration::from_millis(2)),
            }
        };
        match (status, stdout) {
            (Some(status), Some(stdout)) => Ok(std::process::Output { status, stdout, stderr: err.recv_timeout(std::time::Duration::from_secs(5)).unwrap_or_default() }),
            _ => {
                let pid = child.id();
                let _ = child.kill();
                let _ = child.wait();
                self.machinery_failure(&format!(
                    "the dbg-profile pass (child process {} {} {}, pid {pid}) was still running after its wall cap of {} s and was killed; no verdict",
                    what.display(),
                    self.prop,
                    self.tier.name(),
                    cap.as_secs()
                ))
            }
        }
    }

    /// `--replay` mode: run the plain re-execution once and report.
    pub fn replay_main(args: &Args, confirm: &dyn Fn(&Value) -> Result<(), String>) -> ! {
        let v = args.load_replay().unwrap();
        match confirm_any(&args.prop, &v, confirm) {
            Ok(()) => {
                println!("REPLAY property={} outcome=holds (the recorded case no longer violates the property)", args.prop);
                std::process::exit(0)
            }
            Err(s) => {
                println!("REPLAY property={} outcome=violation {}", args.prop, s);
                println!("VIOLATION property={} replay={}", args.prop, args.replay.as_ref().unwrap().display());
                std::process::exit(1)
            }
        }
    }
}

/// the same engine built with the `dbg` profile, if this process is the release build
pub fn dbg_binary() -> Option<PathBuf> {
    let exe = std::env::current_exe().ok()?;
    let s = exe.to_string_lossy().to_string();
    if !s.contains("/release/") {
        return None;
    }
    let d = PathBuf::from(s.replace("/release/", "/dbg/"));
    if d.exists() {
        Some(d)
    } else {
        None
    }
}

/// Re-execute a recorded case: in this process, or — for a case found by the dbg-profile pass — in the
/// dbg-profile binary.
fn confirm_any(prop: &str, replay: &Value, confirm: &dyn Fn(&Value) -> Result<(), String>) -> Result<(), String> {
    if replay.get("dbg_child").and_then(|b| b.as_bool()) != Some(true) {
        return confirm(replay);
    }
    let dbg = dbg_binary().ok_or_else(|| "no dbg-profile binary to replay in".to_string())?;
    let tmp = std::env::temp_dir().join(format!("vcore-replay-{}-{}.json", prop, std::process::id()));
    std::fs::write(&tmp, json!({"replay": replay["inner"]}).to_string()).map_err(|e| e.to_string())?;
    let o = std::process::Command::new(&dbg).args([prop, "--replay", tmp.to_str().unwrap()]).output().map_err(|e| e.to_string())?;
    let _ = std::fs::remove_file(&tmp);
    let out = String::from_utf8_lossy(&o.stdout);
    match o.status.code() {
        Some(0) => Ok(()),
        Some(1) => Err(out.lines().find(|l| l.starts_with("REPLAY")).unwrap_or("violation").to_string()),
        c => Err(format!("dbg-profile replay ended with {:?}", c)),
    }
}
