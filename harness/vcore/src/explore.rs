//! Explicit-state breadth-first exploration of the real implementation.
//!
//! A `System` wraps the object under test together with its reference model.  `step` applies one action
//! to the REAL object, compares every returned value with the model and returns a fingerprint of what was
//! observed.  The search is level-synchronous (so the first violation found has a shortest history),
//! expands the frontier in parallel, and identifies states by their full canonical byte string.

use rayon::prelude::*;
use serde::{de::DeserializeOwned, Serialize};
use serde_json::{json, Value};
use std::collections::{BTreeMap, HashMap, HashSet};
use std::time::Instant;

pub trait System: Sync {
    /// `Send` only: a state is owned by exactly one worker at a time (it may contain `Cell`s)
    type State: Clone + Send;
    type Action: Clone + Send + Sync + std::fmt::Debug + Serialize + DeserializeOwned;

    /// Constructor actions (each yields one initial state).
    fn inits(&self) -> Vec<Self::Action>;
    /// Build the initial state named by a constructor action (calls the real constructor).
    fn init(&self, a: &Self::Action) -> Result<Self::State, String>;
    /// Actions enabled in `s`, simplest first.
    fn actions(&self, s: &Self::State) -> Vec<Self::Action>;
    /// Apply `a` to the real object and to the model; Err = the implementation disagreed with the
    /// model (or panicked).  Ok carries a fingerprint of the observation (0 if nothing is observed).
    fn step(&self, s: &mut Self::State, a: &Self::Action) -> Result<u64, String>;
    /// Checked once for every distinct state.
    fn invariant(&self, _s: &Self::State) -> Result<(), String> {
        Ok(())
    }
    /// Canonical bytes of implementation state + model.  Two states may share a key only if they have
    /// the same futures.
    fn canon(&self, s: &Self::State) -> Vec<u8>;
    /// Counter bucket of an action.
    fn kind(&self, a: &Self::Action) -> &'static str;
}

#[derive(Clone, Debug)]
pub struct ExploreCfg {
    pub max_depth: Option<usize>,
    pub max_states: usize,
    pub wall_cap_s: f64,
}

impl Default for ExploreCfg {
    fn default() -> Self {
        ExploreCfg { max_depth: None, max_states: 40_000_000, wall_cap_s: 3600.0 }
    }
}

#[derive(Clone, Debug)]
pub struct Found {
    /// Constructor action followed by the actions leading to the failure (last one fails, or the state
    /// reached after the last one breaks the invariant).
    pub history: Vec<Value>,
    pub message: String,
}

#[derive(Debug, Default)]
pub struct ExploreResult {
    pub states: u64,
    pub transitions: u64,
    /// depth of the last level that was completely expanded
    pub completed_depth: usize,
    /// true iff the search stopped because a level added no new state
    pub closed: bool,
    /// which cap stopped the search, if any
    pub cap_hit: Option<String>,
    pub per_kind: BTreeMap<&'static str, u64>,
    pub distinct_outcomes: u64,
    pub level_sizes: Vec<u64>,
    pub violation: Option<Found>,
    pub sample_histories: Vec<Vec<Value>>,
}

impl ExploreResult {
    pub fn to_json(&self) -> Value {
        json!({
            "states": self.states,
            "transitions": self.transitions,
            "completed_depth": self.completed_depth,
            "closed": self.closed,
            "cap_hit": self.cap_hit,
            "per_action_kind": self.per_kind.iter().map(|(k, v)| (k.to_string(), json!(v))).collect::<serde_json::Map<_, _>>(),
            "distinct_outcomes": self.distinct_outcomes,
            "level_sizes": self.level_sizes,
        })
    }
}

struct Cand<S: System> {
    key: Vec<u8>,
    state: S::State,
    parent: u32,
    action: S::Action,
}

struct ChunkOut<S: System> {
    cands: Vec<Cand<S>>,
    transitions: u64,
    per_kind: BTreeMap<&'static str, u64>,
    outcomes: HashSet<u64>,
    violation: Option<(u32, S::Action, String)>,
}

fn history<S: System>(parents: &[(u32, S::Action)], mut id: u32, last: Option<&S::Action>) -> Vec<Value> {
    let mut rev: Vec<Value> = vec![];
    if let Some(a) = last {
        rev.push(serde_json::to_value(a).unwrap());
    }
    loop {
        let (p, a) = &parents[id as usize];
        rev.push(serde_json::to_value(a).unwrap());
        if *p == u32::MAX {
            break;
        }
        id = *p;
    }
    rev.reverse();
    rev
}

pub fn explore<S: System>(sys: &S, cfg: &ExploreCfg) -> ExploreResult {
    let t0 = Instant::now();
    let mut res = ExploreResult::default();
    let mut seen: HashMap<Vec<u8>, u32> = HashMap::new();
    let mut parents: Vec<(u32, S::Action)> = vec![];
    let mut frontier: Vec<(u32, S::State)> = vec![];
    let mut outcomes: HashSet<u64> = HashSet::new();

    for a in sys.inits() {
        let st = match crate::catch(|| sys.init(&a)) {
            Ok(Ok(s)) => s,
            Ok(Err(m)) | Err(m) => {
                res.violation = Some(Found { history: vec![serde_json::to_value(&a).unwrap()], message: format!("constructor: {m}") });
                return res;
            }
        };
        let key = sys.canon(&st);
        if seen.contains_key(&key) {
            continue;
        }
        if let Err(m) = sys.invariant(&st) {
            res.violation = Some(Found { history: vec![serde_json::to_value(&a).unwrap()], message: format!("invariant after constructor: {m}") });
            return res;
        }
        let id = parents.len() as u32;
        seen.insert(key, id);
        parents.push((u32::MAX, a));
        frontier.push((id, st));
    }
    res.level_sizes.push(frontier.len() as u64);

    let mut depth = 0usize;
    loop {
        if frontier.is_empty() {
            res.closed = true;
            break;
        }
        if let Some(d) = cfg.max_depth {
            if depth >= d {
                res.cap_hit = Some(format!("depth bound {d}"));
                break;
            }
        }
        if t0.elapsed().as_secs_f64() > cfg.wall_cap_s {
            res.cap_hit = Some(format!("wall cap {}s before expanding depth {}", cfg.wall_cap_s, depth));
            break;
        }
        if seen.len() > cfg.max_states {
            res.cap_hit = Some(format!("state cap {} before expanding depth {}", cfg.max_states, depth));
            break;
        }

        // The level is expanded in batches: the candidates of one batch are merged into `seen` before the
        // next batch runs, so the memory held by not-yet-deduplicated candidates is bounded by the batch,
        // not by the level.  The search stays level-synchronous: `next` collects the whole next level.
        const BATCH: usize = 65_536;
        let mut next: Vec<(u32, S::State)> = vec![];
        let mut first_violation: Option<(u32, S::Action, String)> = None;
        let mut level_cap: Option<String> = None;
        let mut it = std::mem::take(&mut frontier).into_iter();
        loop {
            let batch: Vec<(u32, S::State)> = it.by_ref().take(BATCH).collect();
            if batch.is_empty() {
                break;
            }
            let seen_ref = &seen;
            let chunk = (batch.len() / (rayon::current_num_threads() * 8)).max(1);
            // owned chunks: states need not be Sync
            let mut owned: Vec<Vec<(u32, S::State)>> = vec![];
            let mut bit = batch.into_iter();
            loop {
                let c: Vec<(u32, S::State)> = bit.by_ref().take(chunk).collect();
                if c.is_empty() {
                    break;
                }
                owned.push(c);
            }
            let outs: Vec<ChunkOut<S>> = owned
                .into_par_iter()
                .map(|states| {
                    let mut out = ChunkOut::<S> {
                        cands: vec![],
                        transitions: 0,
                        per_kind: BTreeMap::new(),
                        outcomes: HashSet::new(),
                        violation: None,
                    };
                    let mut local: HashSet<Vec<u8>> = HashSet::new();
                    'outer: for (id, st) in states.iter() {
                        for a in sys.actions(st) {
                            let mut s2 = st.clone();
                            out.transitions += 1;
                            *out.per_kind.entry(sys.kind(&a)).or_insert(0) += 1;
                            let r = crate::catch(|| sys.step(&mut s2, &a));
                            let fp = match r {
                                Ok(Ok(fp)) => fp,
                                Ok(Err(m)) => {
                                    out.violation = Some((*id, a, m));
                                    break 'outer;
                                }
                                Err(p) => {
                                    out.violation = Some((*id, a, format!("panic: {p}")));
                                    break 'outer;
                                }
                            };
                            out.outcomes.insert(fp ^ crate::fnv(sys.kind(&a).as_bytes()));
                            let key = sys.canon(&s2);
                            if seen_ref.contains_key(&key) || local.contains(&key) {
                                continue;
                            }
                            if let Err(m) = sys.invariant(&s2) {
                                out.violation = Some((*id, a, format!("invariant broken in the state reached: {m}")));
                                break 'outer;
                            }
                            local.insert(key.clone());
                            out.cands.push(Cand { key, state: s2, parent: *id, action: a });
                        }
                    }
                    out
                })
                .collect();

            for out in outs {
                res.transitions += out.transitions;
                for (k, v) in out.per_kind {
                    *res.per_kind.entry(k).or_insert(0) += v;
                }
                outcomes.extend(out.outcomes);
                if first_violation.is_none() {
                    if let Some(v) = out.violation {
                        first_violation = Some(v);
                    }
                }
                for c in out.cands {
                    if seen.contains_key(&c.key) {
                        continue;
                    }
                    let id = parents.len() as u32;
                    seen.insert(c.key, id);
                    parents.push((c.parent, c.action));
                    next.push((id, c.state));
                }
            }
            if first_violation.is_some() {
                break;
            }
            // caps are also enforced inside a level (the level then stays incomplete: `completed_depth`
            // does not advance); everything expanded so far was judged
            if seen.len() > cfg.max_states {
                level_cap = Some(format!("state cap {} while expanding depth {}", cfg.max_states, depth));
                break;
            }
            if t0.elapsed().as_secs_f64() > cfg.wall_cap_s {
                level_cap = Some(format!("wall cap {}s while expanding depth {}", cfg.wall_cap_s, depth));
                break;
            }
        }
        if let Some((pid, a, m)) = first_violation {
            res.violation = Some(Found { history: history::<S>(&parents, pid, Some(&a)), message: m });
            break;
        }
        if let Some(c) = level_cap {
            res.cap_hit = Some(c);
            break;
        }
        depth += 1;
        res.completed_depth = depth;
        res.level_sizes.push(next.len() as u64);
        frontier = next;
    }

    res.states = seen.len() as u64;
    res.distinct_outcomes = outcomes.len() as u64;
    // a few written-out histories for the evidence file: the last states discovered are the deepest
    let n = parents.len();
    for k in 0..3usize {
        if n == 0 {
            break;
        }
        let id = (n - 1).saturating_sub(k * (n / 3).max(1)) as u32;
        res.sample_histories.push(history::<S>(&parents, id, None));
    }
    res
}

/// Plain re-execution of a recorded history (no explorer): Err(message) if the violation shows.
pub fn replay_history<S: System>(sys: &S, hist: &[Value]) -> Result<(), String> {
    if hist.is_empty() {
        return Ok(());
    }
    let parse = |v: &Value| -> S::Action {
        serde_json::from_value(v.clone()).unwrap_or_else(|e| {
            eprintln!("replay: cannot decode action {v}: {e}");
            std::process::exit(2)
        })
    };
    let a0 = parse(&hist[0]);
    let mut st = match crate::catch(|| sys.init(&a0)) {
        Ok(Ok(s)) => s,
        Ok(Err(m)) | Err(m) => return Err(format!("constructor: {m}")),
    };
    sys.invariant(&st).map_err(|m| format!("invariant after constructor: {m}"))?;
    for v in &hist[1..] {
        let a = parse(v);
        match crate::catch(|| sys.step(&mut st, &a)) {
            Ok(Ok(_)) => {}
            Ok(Err(m)) => return Err(m),
            Err(p) => return Err(format!("panic: {p}")),
        }
        sys.invariant(&st).map_err(|m| format!("invariant broken in the state reached: {m}"))?;
    }
    Ok(())
}
