//! Calls into the code under test that do not return.
//!
//! For engines that make millions of cheap calls: a thread per call is out of the question, so the call
//! stays where it is and the calling thread says what it is about to do.  `enter(words)` publishes a compact
//! description of the call (a few machine words chosen by the engine: family, type, operands) in the
//! calling thread's slot — a handful of plain atomic stores into memory that only this thread writes — and
//! the returned guard marks the slot free again when the call has returned (or unwound).  An observer looks
//! at the slots every `TICK`; a thread found inside the SAME call `LIMIT_TICKS` times in a row is stuck in
//! a call that does not terminate, and the observer hands the published words back to the engine, which
//! turns them into a violation for exactly that call.  The stuck threads can not be stopped: they are left
//! behind, and the process ends through `Run::finish` as usual.
//!
//! Observations are counted instead of a clock being read, so that a stopped or starved process does not
//! look like a stuck call (the observer is stopped or starved with it).
//!
//! * `supervise(f)`  runs `f` (an enumeration that may fan out over rayon workers) on a new thread and
//!   observes EVERY thread that enters calls, from the calling thread.
//! * `limited(f)`    runs `f` (the plain re-execution of one recorded case) on a new thread and observes
//!   only that thread: threads left behind by an earlier `supervise` do not matter to it.

use std::cell::Cell;
use std::sync::atomic::{fence, AtomicBool, AtomicU64, Ordering};
use std::sync::mpsc::{channel, RecvTimeoutError};
use std::sync::Mutex;
use std::time::Duration;

/// The most words a call description can have.
pub const WORDS: usize = 12;
pub const TICK: Duration = Duration::from_millis(250);
pub const LIMIT_TICKS: u32 = 80;
/// After the first stuck call is seen, a few more observations are made so that threads that got stuck at
/// about the same time are reported together (the engine picks the smallest case).
const GRACE_TICKS: u32 = 4;

/// "20 s (80 observations 250 ms apart)"
pub fn limit_text() -> String {
    format!("{} s ({LIMIT_TICKS} observations {} ms apart)", (TICK * LIMIT_TICKS).as_secs(), TICK.as_millis())
}

#[repr(align(128))]
struct Slot {
    /// odd while the owning thread is inside a call; every entry and every return adds one
    seq: AtomicU64,
    len: AtomicU64,
    words: [AtomicU64; WORDS],
    /// reported as stuck once: not looked at again
    abandoned: AtomicBool,
}

impl Slot {
    fn leak() -> &'static Slot {
        Box::leak(Box::new(Slot {
            seq: AtomicU64::new(0),
            len: AtomicU64::new(0),
            words: std::array::from_fn(|_| AtomicU64::new(0)),
            abandoned: AtomicBool::new(false),
        }))
    }

    /// The description of the call instance `seq` (odd), if the thread is still inside it.
    fn read(&self, seq: u64) -> Option<Vec<u64>> {
        if self.seq.load(Ordering::Acquire) != seq {
            return None;
        }
        let n = (self.len.load(Ordering::Relaxed) as usize).min(WORDS);
        let w: Vec<u64> = self.words[..n].iter().map(|a| a.load(Ordering::Relaxed)).collect();
        fence(Ordering::Acquire);
        (self.seq.load(Ordering::Relaxed) == seq).then_some(w)
    }
}

/// the slots of all threads that entered a call, except the private ones of `limited`
static REGISTRY: Mutex<Vec<&'static Slot>> = Mutex::new(Vec::new());

thread_local! {
    static MINE: Cell<Option<&'static Slot>> = const { Cell::new(None) };
}

#[inline]
fn mine() -> &'static Slot {
    MINE.with(|m| match m.get() {
        Some(s) => s,
        None => {
            let s = Slot::leak();
            REGISTRY.lock().unwrap_or_else(|e| e.into_inner()).push(s);
            m.set(Some(s));
            s
        }
    })
}

/// The calling thread is inside a call into the code under test until this is dropped.
pub struct Inside(Option<(&'static Slot, u64)>);

impl Drop for Inside {
    #[inline]
    fn drop(&mut self) {
        if let Some((s, q)) = self.0 {
            s.seq.store(q + 2, Ordering::Release);
        }
    }
}

/// Publish what the calling thread is about to call (at most `WORDS` words).  An `enter` inside another
/// one belongs to the outer call.
#[inline]
pub fn enter(words: &[u64]) -> Inside {
    let s = mine();
    let q = s.seq.load(Ordering::Relaxed);
    if q & 1 == 1 {
        return Inside(None);
    }
    // (an observer that reads a word of this description also sees that the previous call has ended)
    fence(Ordering::Release);
    let n = words.len().min(WORDS);
    for (a, &w) in s.words[..n].iter().zip(words) {
        a.store(w, Ordering::Relaxed);
    }
    s.len.store(n as u64, Ordering::Relaxed);
    s.seq.store(q + 1, Ordering::Release);
    Inside(Some((s, q)))
}

/// Calls (outermost `enter`s) that have returned so far, over all threads — a measured count.
pub fn calls_returned() -> u64 {
    REGISTRY.lock().unwrap_or_else(|e| e.into_inner()).iter().map(|s| s.seq.load(Ordering::Relaxed) / 2).sum()
}

/// A call that did not return: the words its thread published on entry.
#[derive(Clone, Debug, PartialEq, Eq)]
pub struct Stuck {
    pub words: Vec<u64>,
}

pub enum Ended<R> {
    Returned(R),
    /// one entry per thread found stuck (at least one)
    Stuck(Vec<Stuck>),
    /// `f` itself panicked (outside any `catch`): a bug of the engine, never a verdict
    Panicked(String),
}

/// per slot: the call instance seen last and how many observations in a row found the thread inside it
struct Watch {
    seen: Vec<(&'static Slot, u64, u32)>,
}

impl Watch {
    fn observe(&mut self, slot: &'static Slot) -> Option<Stuck> {
        if slot.abandoned.load(Ordering::Relaxed) {
            return None;
        }
        let seq = slot.seq.load(Ordering::Acquire);
        let e = match self.seen.iter_mut().find(|e| std::ptr::eq(e.0, slot)) {
            Some(e) => e,
            None => {
                self.seen.push((slot, seq, 0));
                return None;
            }
        };
        if seq & 1 == 1 && e.1 == seq {
            e.2 += 1;
        } else {
            (e.1, e.2) = (seq, 0);
        }
        if e.2 < LIMIT_TICKS {
            return None;
        }
        slot.read(seq).map(|words| Stuck { words })
    }
}

fn observed<R: Send + 'static>(f: impl FnOnce() -> R + Send + 'static, private: bool) -> Ended<R> {
    let own = private.then(Slot::leak);
    let (tx, rx) = channel();
    let worker = std::thread::Builder::new().name(if private { "hang-limited" } else { "hang-supervised" }.into()).spawn(move || {
        if let Some(s) = own {
            MINE.with(|m| m.set(Some(s)));
        }
        let _ = tx.send(f());
    });
    let worker = match worker {
        Ok(w) => w,
        Err(e) => return Ended::Panicked(format!("cannot start a thread: {e}")),
    };
    let mut watch = Watch { seen: vec![] };
    let mut first_seen_at: Option<u32> = None;
    for tick in 0u32.. {
        match rx.recv_timeout(TICK) {
            Ok(r) => return Ended::Returned(r),
            Err(RecvTimeoutError::Disconnected) => {
                let msg = match worker.join() {
                    Err(p) => p.downcast_ref::<&str>().map(|s| s.to_string()).or_else(|| p.downcast_ref::<String>().cloned()).unwrap_or_else(|| "panic (non-string payload)".into()),
                    Ok(()) => "the thread ended without a result".into(),
                };
                return Ended::Panicked(msg);
            }
            Err(RecvTimeoutError::Timeout) => {
                let slots: Vec<&'static Slot> = match own {
                    Some(s) => vec![s],
                    None => REGISTRY.lock().unwrap_or_else(|e| e.into_inner()).clone(),
                };
                let stuck: Vec<(&'static Slot, Stuck)> = slots.into_iter().filter_map(|s| watch.observe(s).map(|k| (s, k))).collect();
                if stuck.is_empty() {
                    continue;
                }
                if private || tick >= *first_seen_at.get_or_insert(tick) + GRACE_TICKS {
                    for (s, _) in &stuck {
                        s.abandoned.store(true, Ordering::Relaxed);
                    }
                    return Ended::Stuck(stuck.into_iter().map(|(_, k)| k).collect());
                }
            }
        }
    }
    unreachable!()
}

/// Run `f` on a new thread and observe every thread that `enter`s calls (that thread, rayon workers, …)
/// until `f` returns or some thread is stuck in one call for `LIMIT_TICKS` observations.
pub fn supervise<R: Send + 'static>(f: impl FnOnce() -> R + Send + 'static) -> Ended<R> {
    observed(f, false)
}

/// Run `f` on a new thread and observe the calls made ON THAT THREAD under the same limit.
pub fn limited<R: Send + 'static>(f: impl FnOnce() -> R + Send + 'static) -> Ended<R> {
    observed(f, true)
}
