//! C15 — combinatorial iterators enumerate exactly the specified set, once each, in order.
//! Form I (small-scope input enumeration), level "exploration": every input of a finite, stated space is
//! run through the REAL `rlib_iter` functions and compared with a boring definition-level reference.
//!
//! * `iter_submasks` / `iter_supermasks`: every mask of u8, i8, u16, i16; for the 32/64/128-bit and size
//!   types every mask whose free bits (set bits for submasks, zero bits for supermasks) form a subset of
//!   bounded size of the positions {0,1,2,7,8,15,16,31,32,63,64,127} ∩ width.  Oracle: the yielded items,
//!   read as UNSIGNED bit patterns, are members (submask / supermask of x), strictly monotone
//!   (decreasing / increasing), exactly 2^free many, and end in 0 / all-ones.  On a failure (and in
//!   `--replay`) the full list is compared with the list built bit by bit from the definition.
//! * `next_permutation`: every word over {0,1,2} up to a length bound and every permutation of n distinct
//!   elements: result = successor in the sorted list of distinct arrangements of the multiset; the last
//!   arrangement returns false and leaves the ascending order.  `iter_permutations`: that list, exactly.
//! * `iter_neighbours_{4,4d,8}`: all grids 0..=6 x 0..=6, all cells: the exact list in the fixed order
//!   documented by the crate's own tests.
//! * the iterator protocol (`protocol.rs`): the passes above read every iterator with `next()` only.  For every
//!   iterator the crate hands out (submasks, supermasks of all 12 integer types, `iter_permutations`, the three
//!   neighbour iterators) a family of inputs that keeps every type, sign class, size class and repeated-element
//!   shape is consumed in every std way (`fold`, `for_each`, `count`, `last`, `sum`, `product`, `min`, `max`,
//!   `reduce`, `collect` into Vec / BTreeSet / HashSet, `eq`, `nth`, `skip`, `step_by`, `take` + rest, `all`,
//!   `any`, `find`, `position`, `zip`, `chain`, `peekable`, `fuse`, `size_hint`), fresh and after j `next()`
//!   calls, and must show the definition's sequence every time.
//! * every call into the crate runs on a watched thread (`guard.rs`): one that does not return becomes the
//!   verdict "does not terminate" (and replays as such) instead of a hung check.

mod guard;
mod protocol;

use protocol::{describe_notes, protocol_case, Report, N_USES, USE_NAMES};
use rlib_iter::{iter_neighbours_4, iter_neighbours_4d, iter_neighbours_8, iter_permutations, iter_submasks, iter_supermasks, next_permutation};
use std::collections::{BTreeMap, BTreeSet};
use std::fmt::Debug;
use std::sync::Arc;
use vcore::*;

fn die(msg: &str) -> ! {
    println!("MACHINERY-FAILURE property=C15 engine=iter {msg}");
    eprintln!("MACHINERY-FAILURE property=C15 engine=iter {msg}");
    std::process::exit(2)
}

// =================================================================================================
// masks

#[derive(Clone, Copy, PartialEq, Eq, Debug)]
enum Dir {
    Sub,
    Sup,
}

impl Dir {
    fn family(self) -> &'static str {
        match self {
            Dir::Sub => "submasks",
            Dir::Sup => "supermasks",
        }
    }
    fn func(self) -> &'static str {
        match self {
            Dir::Sub => "iter_submasks",
            Dir::Sup => "iter_supermasks",
        }
    }
    fn parse(s: &str) -> Dir {
        match s {
            "submasks" => Dir::Sub,
            "supermasks" => Dir::Sup,
            _ => die("replay: unknown mask direction"),
        }
    }
}

struct Ty {
    name: &'static str,
    bits: u32,
    signed: bool,
}

const TYPES: [Ty; 12] = [
    Ty { name: "u8", bits: 8, signed: false },
    Ty { name: "i8", bits: 8, signed: true },
    Ty { name: "u16", bits: 16, signed: false },
    Ty { name: "i16", bits: 16, signed: true },
    Ty { name: "u32", bits: 32, signed: false },
    Ty { name: "i32", bits: 32, signed: true },
    Ty { name: "u64", bits: 64, signed: false },
    Ty { name: "i64", bits: 64, signed: true },
    Ty { name: "usize", bits: usize::BITS, signed: false },
    Ty { name: "isize", bits: isize::BITS, signed: true },
    Ty { name: "u128", bits: 128, signed: false },
    Ty { name: "i128", bits: 128, signed: true },
];

const POSITIONS: [u32; 12] = [0, 1, 2, 7, 8, 15, 16, 31, 32, 63, 64, 127];

fn width_mask(bits: u32) -> u128 {
    if bits == 128 {
        u128::MAX
    } else {
        (1u128 << bits) - 1
    }
}

/// bit pattern + (for signed types) the value the type gives it
fn show(ty: usize, bits: u128) -> String {
    let t = &TYPES[ty];
    if t.signed && (bits >> (t.bits - 1)) & 1 == 1 {
        let v: i128 = if t.bits == 128 { bits as i128 } else { bits as i128 - (1i128 << t.bits) };
        format!("{bits:#x} (= {v}{})", t.name)
    } else {
        format!("{bits:#x}")
    }
}

/// Run the REAL iterator of type `ty` on the mask with unsigned bit pattern `bits`, handing every yielded
/// item (reinterpreted as unsigned, zero-extended) to `f` until `f` says stop.
#[inline(always)]
fn drive<F: FnMut(u128) -> bool>(ty: usize, dir: Dir, bits: u128, mut f: F) {
    macro_rules! go {
        ($t:ty, $u:ty) => {{
            let x = bits as $u as $t;
            match dir {
                Dir::Sub => {
                    for y in iter_submasks(x) {
                        if !f(y as $u as u128) {
                            break;
                        }
                    }
                }
                Dir::Sup => {
                    for y in iter_supermasks(x) {
                        if !f(y as $u as u128) {
                            break;
                        }
                    }
                }
            }
        }};
    }
    match ty {
        0 => go!(u8, u8),
        1 => go!(i8, u8),
        2 => go!(u16, u16),
        3 => go!(i16, u16),
        4 => go!(u32, u32),
        5 => go!(i32, u32),
        6 => go!(u64, u64),
        7 => go!(i64, u64),
        8 => go!(usize, usize),
        9 => go!(isize, usize),
        10 => go!(u128, u128),
        11 => go!(i128, u128),
        _ => unreachable!(),
    }
}

/// Number of free bits: the bits a submask may drop / a supermask may add.
fn free_bits(dir: Dir, x: u128, width: u32) -> u32 {
    match dir {
        Dir::Sub => x.count_ones(),
        Dir::Sup => (width_mask(width) & !x).count_ones(),
    }
}

/// Definition-level streaming oracle: membership, strict monotonicity (unsigned), count, terminal item.
/// strictly monotone + all members + exactly 2^free items  <=>  the sorted list of all sub/supermasks.
struct SeqCheck {
    dir: Dir,
    x: u128,
    wm: u128,
    expect: u64,
    prev: Option<u128>,
    cnt: u64,
    bad: bool,
    /// the item at which the signed representation wraps when stepping (MIN for -1, MAX for +1)
    boundary: u128,
    crossed: bool,
}

impl SeqCheck {
    fn new(dir: Dir, x: u128, width: u32) -> SeqCheck {
        let free = free_bits(dir, x, width);
        if free > 40 {
            die("mask with more than 40 free bits handed to the streaming oracle");
        }
        let top = 1u128 << (width - 1);
        SeqCheck {
            dir,
            x,
            wm: width_mask(width),
            expect: 1u64 << free,
            prev: None,
            cnt: 0,
            bad: false,
            boundary: match dir {
                Dir::Sub => top,
                Dir::Sup => top - 1,
            },
            crossed: false,
        }
    }

    /// false = stop iterating
    #[inline(always)]
    fn push(&mut self, y: u128) -> bool {
        self.cnt += 1;
        // non-termination guard: never consume more than 2^free + 1 items
        if self.cnt > self.expect + 1 {
            self.bad = true;
            return false;
        }
        let member = match self.dir {
            Dir::Sub => y & !self.x == 0,
            Dir::Sup => y & self.x == self.x && y & !self.wm == 0,
        };
        let ordered = match (self.prev, self.dir) {
            (None, _) => true,
            (Some(p), Dir::Sub) => y < p,
            (Some(p), Dir::Sup) => y > p,
        };
        if self.prev == Some(self.boundary) {
            self.crossed = true;
        }
        if !member || !ordered {
            self.bad = true;
            return false;
        }
        self.prev = Some(y);
        true
    }

    fn finish(&self) -> bool {
        let last = match self.dir {
            Dir::Sub => 0,
            Dir::Sup => self.wm,
        };
        !self.bad && self.cnt == self.expect && self.prev == Some(last)
    }
}

/// Spread the low bits of `v` over the set bits of `mask`, lowest first.
fn deposit(mut v: u64, mask: u128) -> u128 {
    let mut out = 0u128;
    for b in 0..128 {
        if (mask >> b) & 1 == 1 {
            if v & 1 == 1 {
                out |= 1u128 << b;
            }
            v >>= 1;
        }
    }
    out
}

/// The list the definition prescribes, built item by item (second, independent oracle).
fn expected_mask_list(dir: Dir, x: u128, width: u32) -> Vec<u128> {
    let free = free_bits(dir, x, width);
    if free > 20 {
        die("mask with more than 20 free bits handed to the list oracle");
    }
    let n = 1u64 << free;
    match dir {
        Dir::Sub => (0..n).map(|k| deposit(n - 1 - k, x)).collect(),
        Dir::Sup => (0..n).map(|k| x | deposit(k, width_mask(width) & !x)).collect(),
    }
}

fn hexlist(v: &[u128], from: usize) -> String {
    let end = (from + 6).min(v.len());
    let body: Vec<String> = v[from.min(end)..end].iter().map(|b| format!("{b:#x}")).collect();
    format!("[{}{}]", body.join(","), if end < v.len() { ",…" } else { "" })
}

/// Plain re-execution of ONE mask case against the full expected list.
fn diagnose_mask(ty: usize, dir: Dir, x: u128) -> Result<(), String> {
    let t = &TYPES[ty];
    let x = x & width_mask(t.bits);
    let exp = expected_mask_list(dir, x, t.bits);
    let limit = exp.len() + 1;
    let mut got: Vec<u128> = vec![];
    let r = catch(|| {
        drive(ty, dir, x, |y| {
            got.push(y);
            got.len() < limit
        })
    });
    let head = format!("{}::<{}>({})", dir.func(), t.name, show(ty, x));
    if let Err(p) = r {
        return Err(format!("{head} panicked after {} items: {p}; expected the {} items {}", got.len(), exp.len(), hexlist(&exp, 0)));
    }
    if got == exp {
        return Ok(());
    }
    let k = (0..got.len().min(exp.len())).find(|&k| got[k] != exp[k]).unwrap_or(got.len().min(exp.len()));
    let e = exp.get(k).map(|b| format!("{b:#x}")).unwrap_or_else(|| "end of iteration".into());
    let o = got.get(k).map(|b| format!("{b:#x}")).unwrap_or_else(|| "end of iteration".into());
    let more = if got.len() >= limit { " (stopped by the guard: more items than exist)" } else { "" };
    Err(format!(
        "{head}: expected {} items, observed {}{more}; first difference at index {k}: expected {e}, observed {o}; expected from there {}, observed {} (items as unsigned bit patterns)",
        exp.len(),
        got.len(),
        hexlist(&exp, k),
        hexlist(&got, k)
    ))
}

/// The enumerated space of one type: for <= 16 bits every bit pattern; otherwise bounded subsets of
/// POSITIONS, ordered by (size, value).  A space element S is the FREE-bit set: x = S for submasks,
/// x = !S for supermasks.
struct Space {
    all_below: Option<u64>,
    subsets: Vec<u128>,
}

impl Space {
    fn len(&self) -> usize {
        match self.all_below {
            Some(n) => n as usize,
            None => self.subsets.len(),
        }
    }
    fn free_set(&self, idx: usize) -> u128 {
        match self.all_below {
            Some(_) => idx as u128,
            None => self.subsets[idx],
        }
    }
    fn mask(&self, idx: usize, dir: Dir, width: u32) -> u128 {
        match dir {
            Dir::Sub => self.free_set(idx),
            Dir::Sup => width_mask(width) & !self.free_set(idx),
        }
    }
}

fn space_of(ty: usize, max_free_wide: u32, max_free_16: u32) -> Space {
    let w = TYPES[ty].bits;
    if w == 8 {
        return Space { all_below: Some(256), subsets: vec![] };
    }
    if w == 16 && max_free_16 >= 16 {
        return Space { all_below: Some(65536), subsets: vec![] };
    }
    if w == 16 {
        let mut v: Vec<u128> = (0..65536u128).filter(|m| m.count_ones() <= max_free_16).collect();
        v.sort_by_key(|m| (m.count_ones(), *m));
        return Space { all_below: None, subsets: v };
    }
    let pos: Vec<u32> = POSITIONS.iter().copied().filter(|&p| p < w).collect();
    let mut v = vec![];
    for s in 0u32..(1 << pos.len()) {
        if s.count_ones() <= max_free_wide {
            let mut m = 0u128;
            for (i, &p) in pos.iter().enumerate() {
                if (s >> i) & 1 == 1 {
                    m |= 1u128 << p;
                }
            }
            v.push(m);
        }
    }
    v.sort_by_key(|m| (m.count_ones(), *m));
    Space { all_below: None, subsets: v }
}

#[derive(Default, Clone, Debug)]
struct MaskStats {
    cases: u64,
    items: u64,
    nontrivial: u64,
    terminal_only: u64,
    crossed: u64,
    top_bit_free: u64,
    bad: u64,
    first_bad: Option<usize>,
}

impl MaskStats {
    fn merge(mut self, o: MaskStats) -> MaskStats {
        self.cases += o.cases;
        self.items += o.items;
        self.nontrivial += o.nontrivial;
        self.terminal_only += o.terminal_only;
        self.crossed += o.crossed;
        self.top_bit_free += o.top_bit_free;
        self.bad += o.bad;
        self.first_bad = match (self.first_bad, o.first_bad) {
            (Some(a), Some(b)) => Some(a.min(b)),
            (a, b) => a.or(b),
        };
        self
    }
}

fn mask_case(ty: usize, dir: Dir, x: u128, idx: usize) -> MaskStats {
    let w = TYPES[ty].bits;
    let mut chk = SeqCheck::new(dir, x, w);
    let r = catch(|| drive(ty, dir, x, |y| chk.push(y)));
    let ok = r.is_ok() && chk.finish();
    let top_free = match dir {
        Dir::Sub => (x >> (w - 1)) & 1 == 1,
        Dir::Sup => (x >> (w - 1)) & 1 == 0,
    };
    MaskStats {
        cases: 1,
        items: chk.cnt,
        nontrivial: (chk.cnt >= 3) as u64,
        terminal_only: (chk.cnt == 1) as u64,
        crossed: chk.crossed as u64,
        top_bit_free: top_free as u64,
        bad: !ok as u64,
        first_bad: if ok { None } else { Some(idx) },
    }
}

/// Every mask of the space, each on a watched worker thread: (statistics of the masks that completed, the
/// smallest mask on which the iterator did not return).
fn run_masks(ty: usize, dir: Dir, space: &Arc<Space>) -> (MaskStats, Option<(u128, guard::Hang)>) {
    let w = TYPES[ty].bits;
    let sp = space.clone();
    let (done, hang) = guard::map(space.len(), 64, false, move |idx| mask_case(ty, dir, sp.mask(idx, dir, w), idx)).completed();
    (done.into_iter().fold(MaskStats::default(), MaskStats::merge), hang.map(|h| (space.mask(h.index, dir, w), h)))
}

// =================================================================================================
// permutations

/// All distinct arrangements of the multiset, generated directly in lexicographic order: at every position
/// try each still-available distinct value in ascending order.
fn arrangements<T: Ord + Clone>(items: &[T]) -> Vec<Vec<T>> {
    let mut sorted = items.to_vec();
    sorted.sort();
    let mut vals: Vec<(T, usize)> = vec![];
    for v in sorted {
        if let Some(last) = vals.last_mut() {
            if last.0 == v {
                last.1 += 1;
                continue;
            }
        }
        vals.push((v, 1));
    }
    fn rec<T: Clone>(vals: &mut Vec<(T, usize)>, n: usize, cur: &mut Vec<T>, out: &mut Vec<Vec<T>>) {
        if cur.len() == n {
            out.push(cur.clone());
            return;
        }
        for i in 0..vals.len() {
            if vals[i].1 > 0 {
                vals[i].1 -= 1;
                cur.push(vals[i].0.clone());
                rec(vals, n, cur, out);
                cur.pop();
                vals[i].1 += 1;
            }
        }
    }
    let mut out = vec![];
    rec(&mut vals, items.len(), &mut vec![], &mut out);
    out
}

fn factorial(n: usize) -> u64 {
    (1..=n as u64).product()
}

/// Self-check of a reference list: right length (multinomial), strictly increasing, every entry an
/// arrangement of the multiset.
fn check_reference_list<T: Ord + Clone>(l: &[Vec<T>], items: &[T]) {
    let mut sorted = items.to_vec();
    sorted.sort();
    let mut expect = factorial(items.len());
    let mut i = 0;
    while i < sorted.len() {
        let mut j = i;
        while j < sorted.len() && sorted[j] == sorted[i] {
            j += 1;
        }
        expect /= factorial(j - i);
        i = j;
    }
    if l.len() as u64 != expect {
        die("reference arrangement list has the wrong length");
    }
    for k in 0..l.len() {
        if k > 0 && l[k - 1] >= l[k] {
            die("reference arrangement list is not strictly increasing");
        }
        let mut s = l[k].clone();
        s.sort();
        if s != sorted {
            die("reference arrangement list contains a non-arrangement");
        }
    }
}

struct NextObs {
    ret: bool,
    /// the real call changed a position before the last two (pivot not at the very end)
    deep: bool,
}

/// ONE `next_permutation` call on the real code against the successor in `l`.
fn check_next<T: Ord + Clone + Debug>(w: &[T], l: &[Vec<T>]) -> Result<NextObs, String> {
    let k = match l.binary_search_by(|p| p.as_slice().cmp(w)) {
        Ok(k) => k,
        Err(_) => die("input sequence not found in its own reference list"),
    };
    let mut d = w.to_vec();
    let r = catch(|| next_permutation(&mut d));
    let (eret, edata, note) = if k + 1 < l.len() {
        (true, &l[k + 1], format!("arrangement {} of {} in lexicographic order, so the successor exists", k + 1, l.len()))
    } else {
        (false, &l[0], format!("the last of {} arrangements, so it must wrap to ascending order", l.len()))
    };
    match r {
        Err(p) => Err(format!("next_permutation({w:?}) panicked: {p}; input is {note}; expected return {eret} and sequence {edata:?}")),
        Ok(ret) => {
            if ret != eret || d != *edata {
                Err(format!("next_permutation({w:?}): input is {note}; expected return {eret} and sequence {edata:?}, observed return {ret} and sequence {d:?}"))
            } else {
                let deep = w.len() >= 3 && (0..w.len() - 2).any(|i| w[i] != d[i]);
                Ok(NextObs { ret, deep })
            }
        }
    }
}

/// ONE `iter_permutations` call on the real code against the whole list `l`, compared on the fly.
fn check_iter<T: Ord + Clone + Debug>(w: &[T], l: &[Vec<T>]) -> Result<u64, String> {
    let head = format!("iter_permutations({w:?})");
    let r = catch(|| {
        let mut k = 0usize;
        for p in iter_permutations(w.to_vec()) {
            if k >= l.len() {
                return Err(format!("{head}: expected exactly {} arrangements, but a further item {p:?} was yielded at index {k}", l.len()));
            }
            if p != l[k] {
                return Err(format!("{head}: expected {} distinct arrangements in lexicographic order; first difference at index {k}: expected {:?}, observed {p:?}", l.len(), l[k]));
            }
            k += 1;
        }
        if k < l.len() {
            return Err(format!("{head}: expected {} arrangements, iteration ended after {k}; next expected {:?}", l.len(), l[k]));
        }
        Ok(k as u64)
    });
    match r {
        Ok(x) => x,
        Err(p) => Err(format!("{head} panicked: {p}")),
    }
}

/// pivot exists and the suffix after it holds a value EQUAL to the pivot: the cases where a `>` / `>=`
/// slip in the rightmost-greater scan changes the result.
fn tie_sensitive<T: Ord>(w: &[T]) -> bool {
    for i in (1..w.len()).rev() {
        if w[i - 1] < w[i] {
            return w[i..].iter().any(|v| *v == w[i - 1]);
        }
    }
    false
}

#[derive(Default, Debug)]
struct PStats {
    c: [u64; 8],
    bad: u64,
    first: Option<(usize, String)>,
}

impl PStats {
    fn merge(mut self, o: PStats) -> PStats {
        for i in 0..8 {
            self.c[i] += o.c[i];
        }
        self.bad += o.bad;
        self.first = match (self.first.take(), o.first) {
            (Some(a), Some(b)) => Some(if a.0 <= b.0 { a } else { b }),
            (a, b) => a.or(b),
        };
        self
    }
    fn add(&mut self, o: &PStats) {
        for i in 0..8 {
            self.c[i] += o.c[i];
        }
        self.bad += o.bad;
    }
}

// counters of the next_permutation pass
const NP_CASES: usize = 0;
const NP_TRUE: usize = 1;
const NP_FALSE: usize = 2;
const NP_TIE: usize = 3;
const NP_DEEP: usize = 4;
const NP_DUP: usize = 5;
// counters of the iter_permutations pass
const IP_CASES: usize = 0;
const IP_ITEMS: usize = 1;
const IP_UNSORTED: usize = 2;
const IP_NONTRIVIAL: usize = 3;
const IP_DUP: usize = 4;

fn has_dup<T: Ord + Clone>(w: &[T]) -> bool {
    let mut s = w.to_vec();
    s.sort();
    s.windows(2).any(|p| p[0] == p[1])
}

fn is_sorted<T: Ord>(w: &[T]) -> bool {
    w.windows(2).all(|p| p[0] <= p[1])
}

/// `next_permutation` once on every input, each on a watched worker thread: (statistics of the inputs that
/// completed, the first input on which the call did not return).
fn np_pass<T, F>(inputs: &'static [Vec<T>], list_of: F) -> (PStats, Option<guard::Hang>)
where
    T: Ord + Clone + Debug + Send + Sync + 'static,
    F: Fn(&[T]) -> &'static [Vec<T>] + Send + Sync + 'static,
{
    let (done, hang) = guard::map(inputs.len(), 16, false, move |idx| {
        let w = &inputs[idx];
        let mut s = PStats::default();
        s.c[NP_CASES] = 1;
        s.c[NP_TIE] = tie_sensitive(w) as u64;
        s.c[NP_DUP] = has_dup(w) as u64;
        match check_next(w, list_of(w)) {
            Ok(o) => {
                s.c[if o.ret { NP_TRUE } else { NP_FALSE }] = 1;
                s.c[NP_DEEP] = o.deep as u64;
            }
            Err(m) => {
                s.bad = 1;
                s.first = Some((idx, m));
            }
        }
        s
    })
    .completed();
    (done.into_iter().fold(PStats::default(), PStats::merge), hang)
}

/// `iter_permutations` read with `next()` once on every input, each on a watched worker thread.
fn ip_pass<T, F>(inputs: &'static [Vec<T>], list_of: F) -> (PStats, Option<guard::Hang>)
where
    T: Ord + Clone + Debug + Send + Sync + 'static,
    F: Fn(&[T]) -> &'static [Vec<T>] + Send + Sync + 'static,
{
    let (done, hang) = guard::map(inputs.len(), 16, false, move |idx| {
        let w = &inputs[idx];
        let mut s = PStats::default();
        s.c[IP_CASES] = 1;
        s.c[IP_UNSORTED] = !is_sorted(w) as u64;
        s.c[IP_DUP] = has_dup(w) as u64;
        match check_iter(w, list_of(w)) {
            Ok(n) => {
                s.c[IP_ITEMS] = n;
                s.c[IP_NONTRIVIAL] = (n >= 3) as u64;
            }
            Err(m) => {
                s.bad = 1;
                s.first = Some((idx, m));
            }
        }
        s
    })
    .completed();
    (done.into_iter().fold(PStats::default(), PStats::merge), hang)
}

fn words_upto(maxlen: usize) -> Vec<Vec<u8>> {
    let mut v = vec![];
    for len in 0..=maxlen {
        for code in 0..3usize.pow(len as u32) {
            let mut w = vec![0u8; len];
            let mut c = code;
            for p in (0..len).rev() {
                w[p] = (c % 3) as u8;
                c /= 3;
            }
            v.push(w);
        }
    }
    v
}

fn counts3(w: &[u8]) -> [u8; 3] {
    let mut c = [0u8; 3];
    for &x in w {
        c[x as usize] += 1;
    }
    c
}

// =================================================================================================
// neighbours

const OFF4: [(i64, i64); 4] = [(0, 1), (-1, 0), (0, -1), (1, 0)];
const OFF4D: [(i64, i64); 4] = [(-1, 1), (-1, -1), (1, -1), (1, 1)];
const OFF8: [(i64, i64); 8] = [(0, 1), (-1, 1), (-1, 0), (-1, -1), (0, -1), (1, -1), (1, 0), (1, 1)];
const NB_KINDS: [&str; 3] = ["neighbours_4", "neighbours_4d", "neighbours_8"];

fn nb_offsets(kind: &str) -> &'static [(i64, i64)] {
    match kind {
        "neighbours_4" => &OFF4,
        "neighbours_4d" => &OFF4D,
        "neighbours_8" => &OFF8,
        _ => die("unknown neighbour kind"),
    }
}

/// The order oracle: the crate's fixed offset order (as pinned by its tests), filtered to the grid.
fn nb_expected(kind: &str, n: usize, m: usize, i: usize, j: usize) -> Vec<(usize, usize)> {
    let mut v = vec![];
    for &(dx, dy) in nb_offsets(kind) {
        let (a, b) = (i as i64 + dx, j as i64 + dy);
        if a >= 0 && a < n as i64 && b >= 0 && b < m as i64 {
            v.push((a as usize, b as usize));
        }
    }
    v
}

/// The set oracle, straight from geometry (no offset table): cells of the grid at Chebyshev distance 1,
/// split by Manhattan distance.
fn nb_geometric(kind: &str, n: usize, m: usize, i: usize, j: usize) -> BTreeSet<(usize, usize)> {
    let mut s = BTreeSet::new();
    for a in 0..n {
        for b in 0..m {
            let (da, db) = ((a as i64 - i as i64).abs(), (b as i64 - j as i64).abs());
            if da.max(db) != 1 {
                continue;
            }
            let keep = match kind {
                "neighbours_4" => da + db == 1,
                "neighbours_4d" => da + db == 2,
                _ => true,
            };
            if keep {
                s.insert((a, b));
            }
        }
    }
    s
}

fn nb_real(kind: &str, n: usize, m: usize, i: usize, j: usize) -> Result<Vec<(usize, usize)>, String> {
    catch(|| match kind {
        "neighbours_4" => iter_neighbours_4(n, m, i, j).take(17).collect::<Vec<_>>(),
        "neighbours_4d" => iter_neighbours_4d(n, m, i, j).take(17).collect::<Vec<_>>(),
        _ => iter_neighbours_8(n, m, i, j).take(17).collect::<Vec<_>>(),
    })
}

/// ONE neighbour call on the real code; Ok = (number of items, bit pattern of the offsets kept).
fn check_nb(kind: &str, n: usize, m: usize, i: usize, j: usize) -> Result<(usize, u32), String> {
    let exp = nb_expected(kind, n, m, i, j);
    let head = format!("iter_{kind}(n={n}, m={m}, i={i}, j={j})");
    match nb_real(kind, n, m, i, j) {
        Err(p) => Err(format!("{head} panicked: {p}; expected {exp:?}")),
        Ok(got) => {
            if got == exp {
                // which of the fixed offsets were observed (read back from the observed cells)
                let mut pat = 0u32;
                for (b, &(dx, dy)) in nb_offsets(kind).iter().enumerate() {
                    if got.iter().any(|&(a, c)| a as i64 - i as i64 == dx && c as i64 - j as i64 == dy) {
                        pat |= 1 << b;
                    }
                }
                Ok((got.len(), pat))
            } else {
                let gs: BTreeSet<_> = got.iter().copied().collect();
                let note = if gs == nb_geometric(kind, n, m, i, j) && gs.len() == got.len() {
                    "the right cells, each once, but not in the fixed order"
                } else {
                    "not the set of in-bounds neighbours"
                };
                Err(format!("{head}: expected {exp:?}, observed {got:?} ({note})"))
            }
        }
    }
}

// =================================================================================================
// the iterator protocol: every std way of consuming, on input families that keep every class

/// The protocol inputs of one mask type, as free-bit sets (x = S for submasks, x = !S for supermasks), by
/// (size, value): 8-bit types every set; 16-bit types every set of at most 3 bits; every type of 16 bits or
/// more every subset of at most 4 of POSITIONS below the width (the top bit is one of them) and, for every
/// size from 5 to `max_free`, `per_size` sets without and `per_size` sets with the top bit: the first ones of
/// that size in the order of `space_of` (so the low positions 0,1,2 and the byte boundaries 7,8 come first).
fn protocol_space(ty: usize, max_free: u32, per_size: usize) -> Vec<u128> {
    let w = TYPES[ty].bits;
    let top = 1u128 << (w - 1);
    let mut v: Vec<u128> = match w {
        8 => (0..256).collect(),
        16 => (0..65536u128).filter(|m| m.count_ones() <= 3).collect(),
        _ => vec![],
    };
    if w > 8 {
        let pos: u128 = POSITIONS.iter().filter(|&&p| p < w).map(|&p| 1u128 << p).sum();
        let structured: Vec<u128> = if w == 16 {
            let mut s: Vec<u128> = (0..65536u128).filter(|m| m & !pos == 0).collect();
            s.sort_by_key(|m| (m.count_ones(), *m));
            s
        } else {
            space_of(ty, max_free, 0).subsets
        };
        v.extend(structured.iter().copied().filter(|m| m.count_ones() <= 4));
        for size in 5..=max_free {
            for with_top in [false, true] {
                v.extend(structured.iter().copied().filter(|m| m.count_ones() == size && (m & top != 0) == with_top).take(per_size));
            }
        }
    }
    v.sort_by_key(|m| (m.count_ones(), *m));
    v.dedup();
    v
}

fn mask_head(ty: usize, dir: Dir, x: u128) -> String {
    format!("{}::<{}>({})", dir.func(), TYPES[ty].name, show(ty, x))
}

/// Every way of consuming ONE real mask iterator against the list built bit by bit from the definition.
fn mask_protocol(ty: usize, dir: Dir, x: u128, all: bool) -> Report {
    let exp = expected_mask_list(dir, x, TYPES[ty].bits);
    // the position where the items cross the top (sign) bit, if it is free; the middle otherwise
    let marks = [exp.len() / 2];
    macro_rules! go {
        ($t:ty, $u:ty) => {{
            let xv = x as $u as $t;
            let reference: Vec<$t> = exp.iter().map(|&b| b as $u as $t).collect();
            match dir {
                Dir::Sub => protocol_case!(|| iter_submasks(xv), &reference, &marks, all),
                Dir::Sup => protocol_case!(|| iter_supermasks(xv), &reference, &marks, all),
            }
        }};
    }
    match ty {
        0 => go!(u8, u8),
        1 => go!(i8, u8),
        2 => go!(u16, u16),
        3 => go!(i16, u16),
        4 => go!(u32, u32),
        5 => go!(i32, u32),
        6 => go!(u64, u64),
        7 => go!(i64, u64),
        8 => go!(usize, usize),
        9 => go!(isize, usize),
        10 => go!(u128, u128),
        11 => go!(i128, u128),
        _ => unreachable!(),
    }
}

fn perm_protocol<T: Ord + Clone + Debug + std::hash::Hash>(w: &[T], l: &[Vec<T>], all: bool) -> Report {
    protocol_case!(|| iter_permutations(w.to_vec()), l, &[l.len() / 2], all)
}

fn nb_protocol(kind: &str, n: usize, m: usize, i: usize, j: usize, all: bool) -> Report {
    let exp = nb_expected(kind, n, m, i, j);
    match kind {
        "neighbours_4" => protocol_case!(|| iter_neighbours_4(n, m, i, j), &exp, &[], all),
        "neighbours_4d" => protocol_case!(|| iter_neighbours_4d(n, m, i, j), &exp, &[], all),
        _ => protocol_case!(|| iter_neighbours_8(n, m, i, j), &exp, &[], all),
    }
}

/// What the protocol pass of one iterator family compared.
#[derive(Default)]
struct ProtoAgg {
    inputs: u64,
    failing_inputs: u64,
    cases: [u64; N_USES],
    inputs_with_3_or_more_items: u64,
    inputs_on_the_grid_of_marks: u64,
    longest: usize,
    behind_the_end: u64,
    traits: [bool; 3],
}

impl ProtoAgg {
    fn add(&mut self, r: &Report) {
        self.inputs += 1;
        self.failing_inputs += !r.failures.is_empty() as u64;
        for (a, b) in self.cases.iter_mut().zip(r.cases) {
            *a += b;
        }
        self.inputs_with_3_or_more_items += (r.len >= 3) as u64;
        self.inputs_on_the_grid_of_marks += !r.full_grid as u64;
        self.longest = self.longest.max(r.len);
        self.behind_the_end += r.behind_the_end;
        for t in 0..3 {
            self.traits[t] |= r.traits[t];
        }
    }
    fn merge(&mut self, o: &ProtoAgg) {
        self.inputs += o.inputs;
        self.failing_inputs += o.failing_inputs;
        for (a, b) in self.cases.iter_mut().zip(o.cases) {
            *a += b;
        }
        self.inputs_with_3_or_more_items += o.inputs_with_3_or_more_items;
        self.inputs_on_the_grid_of_marks += o.inputs_on_the_grid_of_marks;
        self.longest = self.longest.max(o.longest);
        self.behind_the_end += o.behind_the_end;
        for t in 0..3 {
            self.traits[t] |= o.traits[t];
        }
    }
    fn total(&self) -> u64 {
        self.cases.iter().sum()
    }
    /// every way of consuming that does not depend on an optional trait was exercised
    fn complete(&self) -> bool {
        self.cases[..protocol::ORD_BACK].iter().all(|&c| c > 0) && self.behind_the_end > 0
    }
    fn json(&self) -> Value {
        let per: serde_json::Map<String, Value> = USE_NAMES.iter().zip(self.cases).filter(|(_, c)| *c > 0).map(|(u, c)| (u.to_string(), json!(c))).collect();
        json!({
            "inputs": self.inputs, "failing_inputs": self.failing_inputs, "cases": self.total(), "cases_per_way_of_consuming": per,
            "inputs_with_3_or_more_items": self.inputs_with_3_or_more_items,
            "inputs_judged_on_the_grid_of_marks_because_longer_than_the_full_grid_bound": self.inputs_on_the_grid_of_marks, "full_grid_bound_items": protocol::FULL_GRID_MAX,
            "longest_sequence": self.longest, "cases_aiming_behind_the_end": self.behind_the_end,
            "iterator_type_shows_DoubleEnded_ExactSize_Fused": self.traits,
        })
    }
}

/// `job(idx)` for every input of a family on watched worker threads: (what was compared, the first failing
/// input, the first input on which a call did not return).
fn run_protocol(n: usize, chunk: usize, job: impl Fn(usize) -> Report + Send + Sync + 'static) -> (ProtoAgg, Option<(usize, protocol::Failure)>, Option<guard::Hang>) {
    let (done, hang) = guard::map(n, chunk, false, job).completed();
    let mut agg = ProtoAgg::default();
    let mut first = None;
    for (idx, r) in done.iter().enumerate() {
        agg.add(r);
        if first.is_none() {
            if let Some(f) = r.failures.first() {
                first = Some((idx, f.clone()));
            }
        }
    }
    (agg, first, hang)
}

fn protocol_violation(family: &str, input: &str, head: &str, replay: Value, f: &protocol::Failure, failing: u64) -> Violation {
    Violation::new(
        format!("{family}_consumed:{input}:pre={}:{}", f.pre, f.short),
        format!("{head}: {} [{failing} failing inputs in the protocol pass of this iterator]", f.message),
        replay,
    )
}

fn protocol_hang(family: &str, input: &str, head: &str, replay: Value, h: &guard::Hang) -> Violation {
    let (short, pre, long) = describe_notes(h.notes);
    Violation::new(format!("{family}_consumed:{input}:pre={pre}:{short}"), format!("{head}: {long}: {}", h.text()), replay)
}

// =================================================================================================
// replay

fn parse_hex(s: &str) -> u128 {
    u128::from_str_radix(s.trim_start_matches("0x"), 16).unwrap_or_else(|_| die("replay: bad hex mask"))
}

/// A recorded case, parsed (no code under test involved).
enum Case {
    Mask { ty: usize, dir: Dir, x: u128 },
    SeqU8(Vec<u8>),
    SeqI32(Vec<i32>),
    Cell { kind: &'static str, g: [usize; 4] },
}

/// (the case, its family without the `_consumed` suffix, whether it is a protocol case)
fn parse_case(v: &Value) -> (Case, String, bool) {
    let kind = v["kind"].as_str().unwrap_or_else(|| die("replay: no kind"));
    let (base, consumed) = match kind.strip_suffix("_consumed") {
        Some(b) => (b, true),
        None => (kind, false),
    };
    let case = match base {
        "submasks" | "supermasks" => {
            let tname = v["type"].as_str().unwrap_or_else(|| die("replay: no type"));
            let ty = TYPES.iter().position(|t| t.name == tname).unwrap_or_else(|| die("replay: unknown type"));
            let x = parse_hex(v["bits"].as_str().unwrap_or_else(|| die("replay: no bits"))) & width_mask(TYPES[ty].bits);
            Case::Mask { ty, dir: Dir::parse(base), x }
        }
        "next_permutation" | "iter_permutations" => {
            let data: Vec<i64> = v["data"].as_array().unwrap_or_else(|| die("replay: no data")).iter().map(|x| x.as_i64().unwrap_or_else(|| die("replay: bad element"))).collect();
            // the element type only matters for Ord, which all integer types share
            match v["elem"].as_str() {
                Some("u8") => Case::SeqU8(data.iter().map(|&x| x as u8).collect()),
                _ => Case::SeqI32(data.iter().map(|&x| x as i32).collect()),
            }
        }
        k => {
            let kind = NB_KINDS.iter().copied().find(|n| *n == k).unwrap_or_else(|| die("replay: unknown kind"));
            let g = |key: &str| v[key].as_u64().unwrap_or_else(|| die("replay: missing grid coordinate")) as usize;
            Case::Cell { kind, g: [g("n"), g("m"), g("i"), g("j")] }
        }
    };
    if consumed && base == "next_permutation" {
        die("replay: next_permutation is not an iterator");
    }
    (case, base.to_string(), consumed)
}

fn case_head(case: &Case, base: &str) -> String {
    match case {
        Case::Mask { ty, dir, x } => mask_head(*ty, *dir, *x),
        Case::SeqU8(w) => format!("{base}({w:?})"),
        Case::SeqI32(w) => format!("{base}({w:?})"),
        Case::Cell { kind, g } => format!("iter_{kind}(n={}, m={}, i={}, j={})", g[0], g[1], g[2], g[3]),
    }
}

fn protocol_verdict(head: &str, rep: Report) -> Result<(), String> {
    match rep.failures.first() {
        None => Ok(()),
        Some(f) => Err(format!("{head}: {}{}", f.message, rep.others())),
    }
}

/// Plain re-execution of ONE recorded case (on the calling thread).
fn confirm_here(case: &Case, base: &str, consumed: bool) -> Result<(), String> {
    if consumed {
        guard::note(3, 1); // the notes a stuck call leaves behind are those of the protocol
        let head = case_head(case, base);
        let rep = match case {
            Case::Mask { ty, dir, x } => mask_protocol(*ty, *dir, *x, true),
            Case::SeqU8(w) => perm_protocol(w, &arrangements(w), true),
            Case::SeqI32(w) => perm_protocol(w, &arrangements(w), true),
            Case::Cell { kind, g } => nb_protocol(kind, g[0], g[1], g[2], g[3], true),
        };
        return protocol_verdict(&head, rep);
    }
    match case {
        Case::Mask { ty, dir, x } => diagnose_mask(*ty, *dir, *x),
        Case::SeqU8(w) if base == "next_permutation" => check_next(w, &arrangements(w)).map(|_| ()),
        Case::SeqU8(w) => check_iter(w, &arrangements(w)).map(|_| ()),
        Case::SeqI32(w) if base == "next_permutation" => check_next(w, &arrangements(w)).map(|_| ()),
        Case::SeqI32(w) => check_iter(w, &arrangements(w)).map(|_| ()),
        Case::Cell { kind, g } => check_nb(kind, g[0], g[1], g[2], g[3]).map(|_| ()),
    }
}

/// The recorded case on a watched thread of its own: a call that does not return is reported as such.
fn confirm(v: &Value) -> Result<(), String> {
    let (case, base, consumed) = parse_case(v);
    let head = case_head(&case, &base);
    match guard::call(move || confirm_here(&case, &base, consumed)) {
        Ok(r) => r,
        Err(h) if h.notes[3] == 1 => Err(format!("{head}: {}: {}", describe_notes(h.notes).2, h.text())),
        Err(h) => Err(format!("{head}: {}", h.text())),
    }
}

// =================================================================================================
// self-checks of the oracles (no code under test involved)

fn feed(dir: Dir, x: u128, width: u32, list: &[u128]) -> bool {
    let mut c = SeqCheck::new(dir, x, width);
    for &y in list {
        if !c.push(y) {
            break;
        }
    }
    c.finish()
}

fn oracle_self_checks() {
    // the two mask oracles agree with each other on every 8-bit mask and with hand-written lists
    for x in 0..256u128 {
        for dir in [Dir::Sub, Dir::Sup] {
            if !feed(dir, x, 8, &expected_mask_list(dir, x, 8)) {
                die("streaming mask oracle rejects the list oracle's list");
            }
        }
    }
    if expected_mask_list(Dir::Sub, 13, 32) != vec![13, 12, 9, 8, 5, 4, 1, 0] {
        die("list oracle: submasks of 13");
    }
    if expected_mask_list(Dir::Sup, 0xF2, 8) != vec![0xF2, 0xF3, 0xF6, 0xF7, 0xFA, 0xFB, 0xFE, 0xFF] {
        die("list oracle: supermasks of 0xF2");
    }
    let good = [13u128, 12, 9, 8, 5, 4, 1, 0];
    let corrupt: [&[u128]; 7] = [
        &[13, 12, 9, 8, 5, 4, 1],        // terminal dropped
        &[13, 12, 9, 8, 5, 4, 1, 0, 0],  // terminal duplicated
        &[13, 12, 8, 9, 5, 4, 1, 0],     // order
        &[13, 12, 9, 8, 4, 1, 0],        // one missing
        &[13, 12, 10, 9, 8, 5, 4, 1, 0], // foreign item
        &[12, 9, 8, 5, 4, 1, 0],         // x itself missing
        &[],                             // nothing
    ];
    if !feed(Dir::Sub, 13, 32, &good) || corrupt.iter().any(|l| feed(Dir::Sub, 13, 32, l)) {
        die("streaming mask oracle does not separate good from corrupted submask lists");
    }
    let good = [0xF2u128, 0xF3, 0xF6, 0xF7, 0xFA, 0xFB, 0xFE, 0xFF];
    let corrupt: [&[u128]; 5] = [
        &[0xF2, 0xF3, 0xF6, 0xF7, 0xFA, 0xFB, 0xFE],
        &[0xF2, 0xF3, 0xF6, 0xF7, 0xFA, 0xFB, 0xFE, 0xFF, 0xFF],
        &[0xF2, 0xF3, 0xF7, 0xF6, 0xFA, 0xFB, 0xFE, 0xFF],
        &[0xF2, 0xF3, 0xF4, 0xF6, 0xF7, 0xFA, 0xFB, 0xFE, 0xFF],
        &[0xF2, 0xF3, 0xF6, 0xF7, 0xFA, 0xFB, 0xFE, 0x1FF],
    ];
    if !feed(Dir::Sup, 0xF2, 8, &good) || corrupt.iter().any(|l| feed(Dir::Sup, 0xF2, 8, l)) {
        die("streaming mask oracle does not separate good from corrupted supermask lists");
    }
    // 128-bit: top bit handling of the oracles
    let (a, b) = (1u128 << 127, 1u128 << 100);
    if expected_mask_list(Dir::Sub, a | b, 128) != vec![a | b, a, b, 0] || !feed(Dir::Sub, a | b, 128, &[a | b, a, b, 0]) {
        die("mask oracles at 128 bits");
    }
    // neighbour order oracle reproduces the literals pinned in /repo/rlib/iter/tests/tests.rs
    let lit: [(&str, [usize; 4], &[(usize, usize)]); 9] = [
        ("neighbours_4", [10, 10, 5, 5], &[(5, 6), (4, 5), (5, 4), (6, 5)]),
        ("neighbours_4", [10, 10, 0, 0], &[(0, 1), (1, 0)]),
        ("neighbours_4", [10, 10, 9, 9], &[(8, 9), (9, 8)]),
        ("neighbours_4", [1, 10, 0, 5], &[(0, 6), (0, 4)]),
        ("neighbours_4d", [10, 10, 5, 5], &[(4, 6), (4, 4), (6, 4), (6, 6)]),
        ("neighbours_4d", [10, 10, 9, 9], &[(8, 8)]),
        ("neighbours_8", [10, 10, 5, 5], &[(5, 6), (4, 6), (4, 5), (4, 4), (5, 4), (6, 4), (6, 5), (6, 6)]),
        ("neighbours_8", [10, 10, 0, 0], &[(0, 1), (1, 0), (1, 1)]),
        ("neighbours_8", [10, 10, 9, 9], &[(8, 9), (8, 8), (9, 8)]),
    ];
    for (k, g, e) in lit {
        if nb_expected(k, g[0], g[1], g[2], g[3]) != e {
            die("neighbour order oracle disagrees with the order documented in the crate's tests");
        }
    }
}

/// true iff this build traps integer overflow (the dependency is built with the same profile)
fn overflow_checks_on() -> bool {
    catch(|| {
        let a = std::hint::black_box(255u8);
        let b = a + std::hint::black_box(1u8);
        std::hint::black_box(b);
    })
    .is_err()
}

// =================================================================================================

/// A call that does not return was met: record what is known and end the run with the violations found so
/// far — the rest of the enumeration would meet the same call again and again.
fn abandon(mut run: Run, evaluations: u64, what: &str) -> ! {
    run.cov("evaluations", evaluations);
    run.cov("distinct_nontrivial", 0u64);
    run.cov("exhaustive", false);
    run.cov("rule", format!("the enumeration was abandoned at a call into the crate that does not return ({what}); what it had found until then is reported, nothing is claimed about the rest"));
    run.cov("abandoned_at_a_call_that_does_not_return", what);
    run.sample(json!({"abandoned at": what}));
    run.finish(&confirm)
}

/// VERIF_TIMING=1: print where the wall time goes (stderr; no influence on anything else)
fn lap(t: &mut std::time::Instant, what: &str) {
    if std::env::var("VERIF_TIMING").is_ok() {
        eprintln!("timing {what}: {:.3} s", t.elapsed().as_secs_f64());
    }
    *t = std::time::Instant::now();
}

fn main() {
    let args = Args::parse();
    quiet_panics();
    let mut t = std::time::Instant::now();
    if args.replay.is_some() {
        Run::replay_main(&args, &confirm);
    }
    let mut run = Run::new(&args, "iter", "exploration");
    let tier = args.tier;
    let seed = args.seed;
    oracle_self_checks();
    if let Err(m) = protocol::self_check() {
        run.machinery_failure(&format!("iterator protocol self-check: {m}"));
    }
    let (watchdog_self_test_s, watchdog_clock) = guard::self_test();

    let mut evaluations = 0u64;
    let mut nontrivial = 0u64;
    let mut items_total = 0u64;

    // ------------------------------------------------------ reference tables (no code under test)
    let maxlen = tier.pick(6usize, 7usize);
    let maxn = tier.pick(7usize, 8usize);
    let words: &'static Vec<Vec<u8>> = Box::leak(Box::new(words_upto(maxlen)));
    let mut ltab: BTreeMap<[u8; 3], Vec<Vec<u8>>> = BTreeMap::new();
    for w in words {
        let c = counts3(w);
        if !ltab.contains_key(&c) {
            let l = arrangements(w);
            check_reference_list(&l, w);
            // cross-check the generator with the dumbest possible one: filter all words of that length
            let brute: Vec<Vec<u8>> = words.iter().filter(|v| v.len() == w.len() && counts3(v) == c).cloned().collect();
            if brute != l {
                run.machinery_failure("arrangement generator disagrees with filtering all words");
            }
            ltab.insert(c, l);
        }
    }
    // the tables live as long as the process: worker threads that may be abandoned read them
    let ltab: &'static BTreeMap<[u8; 3], Vec<Vec<u8>>> = Box::leak(Box::new(ltab));
    let word_list = move |w: &[u8]| -> &'static [Vec<u8>] { &ltab[&counts3(w)][..] };
    let plists: Vec<&'static Vec<Vec<i32>>> = (0..=maxn)
        .map(|n| {
            let base: Vec<i32> = (0..n as i32).collect();
            let l = arrangements(&base);
            check_reference_list(&l, &base);
            &*Box::leak(Box::new(l))
        })
        .collect();

    lap(&mut t, "self-checks and reference tables");
    // -------------------------------------------------------------------------- iterator protocol
    // First, so that an iterator whose next() does not return is met here, on its simplest input.
    let proto_free = 8u32;
    let proto_per_size = tier.pick(1usize, 16usize);
    let mut proto_cov = serde_json::Map::new();
    let mut proto_cases = 0u64;
    for dir in [Dir::Sub, Dir::Sup] {
        let mut agg = ProtoAgg::default();
        let mut per_type = serde_json::Map::new();
        let mut first: Option<Violation> = None;
        let mut failing_types: Vec<&str> = vec![];
        for ty in 0..TYPES.len() {
            let w = TYPES[ty].bits;
            let masks: Arc<Vec<u128>> = Arc::new(protocol_space(ty, proto_free, proto_per_size).into_iter().map(|f| if dir == Dir::Sub { f } else { width_mask(w) & !f }).collect());
            let negative = masks.iter().filter(|&&x| TYPES[ty].signed && (x >> (w - 1)) & 1 == 1).count();
            let ms = masks.clone();
            let (a, bad, hang) = run_protocol(masks.len(), 4, move |idx| mask_protocol(ty, dir, ms[idx], false));
            per_type.insert(TYPES[ty].name.into(), json!({"masks": a.inputs, "cases": a.total(), "negative_masks": negative, "failing_masks": a.failing_inputs}));
            agg.merge(&a);
            let replay = |x: u128| json!({"kind": format!("{}_consumed", dir.family()), "type": TYPES[ty].name, "bits": format!("{x:#x}")});
            if let Some((idx, f)) = &bad {
                failing_types.push(TYPES[ty].name);
                let x = masks[*idx];
                first.get_or_insert_with(|| protocol_violation(dir.family(), &format!("{}:{x:#x}", TYPES[ty].name), &mask_head(ty, dir, x), replay(x), f, a.failing_inputs));
            }
            if let Some(h) = hang {
                let x = masks[h.index];
                if let Some(v) = first.take() {
                    run.violation(v);
                }
                run.violation(protocol_hang(dir.family(), &format!("{}:{x:#x}", TYPES[ty].name), &mask_head(ty, dir, x), replay(x), &h));
                abandon(run, evaluations + proto_cases + agg.total(), &mask_head(ty, dir, x));
            }
            if bad.is_none() && (a.inputs != masks.len() as u64 || !a.complete() || a.inputs_on_the_grid_of_marks == 0 || (TYPES[ty].signed && (negative == 0 || negative == masks.len()))) {
                run.machinery_failure(&format!("protocol pass of {} {} is vacuous or lopsided", dir.family(), TYPES[ty].name));
            }
        }
        if let Some(mut v) = first {
            v.summary = format!("{} [types with at least one failing mask: {}]", v.summary, failing_types.join(","));
            run.violation(v);
        }
        proto_cases += agg.total();
        let mut j = agg.json();
        j["per_type"] = Value::Object(per_type);
        proto_cov.insert(dir.family().into(), j);
    }
    lap(&mut t, "protocol masks");
    {
        // iter_permutations: every word shorter than the longest length and, of the longest length, the
        // ascending and the descending arrangement of every multiset (the iterator sorts its input first, so
        // the order of the input reaches it only through that sort); every permutation of up to 4 distinct
        // elements, the ascending and the descending order of the longer ones (quick: up to 6 elements)
        let mut agg = ProtoAgg::default();
        let mut first: Option<Violation> = None;
        let pwords: &'static Vec<Vec<u8>> = Box::leak(Box::new(
            words.iter().filter(|w| w.len() < maxlen || is_sorted(w) || w.windows(2).all(|p| p[0] >= p[1])).cloned().collect(),
        ));
        let words = pwords;
        let two_values_twice = words.iter().filter(|w| counts3(w).iter().filter(|&&c| c >= 2).count() >= 2).count();
        let (a, bad, hang) = run_protocol(words.len(), 2, move |idx| perm_protocol(&words[idx], word_list(&words[idx]), false));
        agg.merge(&a);
        let as_i64 = |w: &[u8]| w.iter().map(|&x| x as i64).collect::<Vec<i64>>();
        if let Some((idx, f)) = &bad {
            let d = as_i64(&words[*idx]);
            first = Some(protocol_violation("iter_permutations", &format!("u8:{}", serde_json::to_string(&d).unwrap()), &format!("iter_permutations({:?})", words[*idx]), json!({"kind": "iter_permutations_consumed", "elem": "u8", "data": d}), f, a.failing_inputs));
        }
        if let Some(h) = &hang {
            let d = as_i64(&words[h.index]);
            let head = format!("iter_permutations({:?})", words[h.index]);
            if let Some(v) = first.take() {
                run.violation(v);
            }
            run.violation(protocol_hang("iter_permutations", &format!("u8:{}", serde_json::to_string(&d).unwrap()), &head, json!({"kind": "iter_permutations_consumed", "elem": "u8", "data": d}), h));
            abandon(run, evaluations + proto_cases + agg.total(), &head);
        }
        let mut pin: Vec<&'static Vec<i32>> = vec![];
        for (n, l) in plists.iter().enumerate().take(tier.pick(6, maxn) + 1) {
            if n <= 4 {
                pin.extend(l.iter());
            } else {
                pin.extend([&l[0], &l[l.len() - 1]]);
            }
        }
        let pin: &'static Vec<&'static Vec<i32>> = Box::leak(Box::new(pin));
        let pl = plists.clone();
        let (a, bad, hang) = run_protocol(pin.len(), 1, move |idx| perm_protocol(pin[idx], pl[pin[idx].len()], false));
        agg.merge(&a);
        let as_i64 = |w: &[i32]| w.iter().map(|&x| x as i64).collect::<Vec<i64>>();
        if let (None, Some((idx, f))) = (&first, &bad) {
            let d = as_i64(pin[*idx]);
            first = Some(protocol_violation("iter_permutations", &format!("i32:{}", serde_json::to_string(&d).unwrap()), &format!("iter_permutations({:?})", pin[*idx]), json!({"kind": "iter_permutations_consumed", "elem": "i32", "data": d}), f, agg.failing_inputs));
        }
        if let Some(v) = first {
            run.violation(v);
        } else if hang.is_none() && (agg.inputs != (words.len() + pin.len()) as u64 || !agg.complete() || agg.inputs_on_the_grid_of_marks == 0 || two_values_twice == 0) {
            run.machinery_failure("protocol pass of iter_permutations is vacuous");
        }
        if let Some(h) = &hang {
            let d = as_i64(pin[h.index]);
            let head = format!("iter_permutations({:?})", pin[h.index]);
            run.violation(protocol_hang("iter_permutations", &format!("i32:{}", serde_json::to_string(&d).unwrap()), &head, json!({"kind": "iter_permutations_consumed", "elem": "i32", "data": d}), h));
            abandon(run, evaluations + proto_cases + agg.total(), &head);
        }
        proto_cases += agg.total();
        let mut j = agg.json();
        j["words"] = json!(words.len());
        j["words_with_two_values_that_each_occur_at_least_twice"] = json!(two_values_twice);
        j["sequences_of_distinct_elements"] = json!(pin.len());
        proto_cov.insert("iter_permutations".into(), j);
    }
    lap(&mut t, "protocol iter_permutations");
    let maxgrid = 6usize;
    let cells: &'static Vec<[usize; 4]> = Box::leak(Box::new((0..=maxgrid).flat_map(|n| (0..=maxgrid).flat_map(move |m| (0..n).flat_map(move |i| (0..m).map(move |j| [n, m, i, j])))).collect()));
    for kind in NB_KINDS {
        let (a, bad, hang) = run_protocol(cells.len(), 8, move |idx| {
            let g = cells[idx];
            nb_protocol(kind, g[0], g[1], g[2], g[3], false)
        });
        let input = |g: [usize; 4]| format!("n={},m={},i={},j={}", g[0], g[1], g[2], g[3]);
        let head = |g: [usize; 4]| format!("iter_{kind}(n={}, m={}, i={}, j={})", g[0], g[1], g[2], g[3]);
        let replay = |g: [usize; 4]| json!({"kind": format!("{kind}_consumed"), "n": g[0], "m": g[1], "i": g[2], "j": g[3]});
        if let Some((idx, f)) = &bad {
            let g = cells[*idx];
            run.violation(protocol_violation(kind, &input(g), &head(g), replay(g), f, a.failing_inputs));
        } else if hang.is_none() && (a.inputs != cells.len() as u64 || !a.complete()) {
            run.machinery_failure(&format!("protocol pass of {kind} is vacuous"));
        }
        proto_cases += a.total();
        if let Some(h) = hang {
            let g = cells[h.index];
            run.violation(protocol_hang(kind, &input(g), &head(g), replay(g), &h));
            abandon(run, evaluations + proto_cases, &head(g));
        }
        proto_cov.insert(kind.into(), a.json());
    }
    evaluations += proto_cases;
    proto_cov.insert("cases".into(), json!(proto_cases));
    proto_cov.insert("ways_of_consuming".into(), json!(USE_NAMES));
    proto_cov.insert(
        "watchdog".into(),
        json!({"clock": watchdog_clock, "processor_seconds_allowed_per_case": guard::CPU_LIMIT_S, "wall_seconds_allowed_per_case": guard::WALL_LIMIT_S,
               "self_test": "a spinning call was reported, a returning call and a 64-index map were not", "self_test_s": (watchdog_self_test_s * 1000.0).round() / 1000.0}),
    );
    run.cov("iterator_protocol", Value::Object(proto_cov));

    lap(&mut t, "protocol neighbours");
    // ---------------------------------------------------------------------------------------- masks
    let max_free_wide = tier.pick(8u32, 10u32);
    let max_free_16 = 16u32; // measured: the complete 16-bit space takes ~1 s on 16 cores, so quick has it too
    let mut mask_cov = serde_json::Map::new();
    for dir in [Dir::Sub, Dir::Sup] {
        let mut failing_types: Vec<&str> = vec![];
        let mut first: Option<(usize, u128)> = None;
        let mut stuck: Option<(usize, u128, guard::Hang)> = None;
        for ty in 0..TYPES.len() {
            let space = Arc::new(space_of(ty, max_free_wide, max_free_16));
            let (st, hang) = run_masks(ty, dir, &space);
            evaluations += st.cases;
            nontrivial += st.nontrivial;
            items_total += st.items;
            mask_cov.insert(
                format!("{}:{}", dir.family(), TYPES[ty].name),
                json!({
                    "masks": st.cases, "items_compared": st.items, "masks_with_3_or_more_items": st.nontrivial,
                    "masks_yielding_only_the_terminal": st.terminal_only, "masks_with_top_bit_free": st.top_bit_free,
                    "masks_stepping_across_the_top_bit": st.crossed, "failing_masks": st.bad,
                    "space": if space.all_below.is_some() { "every bit pattern".to_string() } else { format!("free-bit sets = subsets of size <= {} of positions {:?}", if TYPES[ty].bits == 16 { max_free_16 } else { max_free_wide }, POSITIONS.iter().filter(|&&p| p < TYPES[ty].bits).collect::<Vec<_>>()) },
                }),
            );
            if let Some(idx) = st.first_bad {
                failing_types.push(TYPES[ty].name);
                if first.is_none() {
                    first = Some((ty, space.mask(idx, dir, TYPES[ty].bits)));
                }
            } else if let Some((x, h)) = hang {
                stuck = Some((ty, x, h));
                break;
            } else {
                // non-vacuity per type and direction
                let expect_cases = space.len() as u64;
                if st.cases != expect_cases || st.terminal_only != 1 || st.nontrivial == 0 || st.crossed == 0 || st.top_bit_free == 0 || st.top_bit_free == st.cases {
                    run.machinery_failure(&format!("mask exploration of {} {} is vacuous or lopsided: {:?}", dir.family(), TYPES[ty].name, st));
                }
            }
        }
        if let Some((ty, x)) = first {
            let replay = json!({"kind": dir.family(), "type": TYPES[ty].name, "bits": format!("{x:#x}")});
            let sig = format!("{}:{}:{:#x}", dir.family(), TYPES[ty].name, x);
            match guard::call(move || diagnose_mask(ty, dir, x)) {
                Ok(Ok(())) => run.machinery_failure(&format!("streaming oracle flagged {} {} {:#x} but the list oracle accepts it", dir.family(), TYPES[ty].name, x)),
                Ok(Err(m)) => {
                    let summary = format!("{m} [types with at least one failing mask: {}]", failing_types.join(","));
                    run.violation(Violation::new(sig, summary, replay));
                }
                Err(h) => stuck = Some((ty, x, h)),
            }
        }
        if let Some((ty, x, h)) = stuck {
            let head = mask_head(ty, dir, x);
            run.violation(Violation::new(
                format!("{}:{}:{:#x}", dir.family(), TYPES[ty].name, x),
                format!("{head} read with next(): {}", h.text()),
                json!({"kind": dir.family(), "type": TYPES[ty].name, "bits": format!("{x:#x}")}),
            ));
            abandon(run, evaluations, &head);
        }
    }
    run.cov("masks", Value::Object(mask_cov));

    lap(&mut t, "masks");
    // --------------------------------------------------------------------------------- permutations
    let mut np_tot = PStats::default();
    let mut ip_tot = PStats::default();
    let mut np_first: Option<(String, Vec<i64>, String)> = None; // (elem, data, summary)
    let mut ip_first: Option<(String, Vec<i64>, String)> = None;
    // (family, element type, data) of the first input on which a call did not return
    let mut perm_stuck: Option<(&str, &str, Vec<i64>, guard::Hang)> = None;

    let (np_w, hang) = np_pass(words, word_list);
    np_tot.add(&np_w);
    nontrivial += np_w.c[NP_DEEP];
    if let Some((idx, m)) = np_w.first {
        np_first = Some(("u8".into(), words[idx].iter().map(|&x| x as i64).collect(), m));
    }
    if let Some(h) = hang {
        perm_stuck = Some(("next_permutation", "u8", words[h.index].iter().map(|&x| x as i64).collect(), h));
    }
    let np_words_tie = np_w.c[NP_TIE];
    if perm_stuck.is_none() {
        let (ip_w, hang) = ip_pass(words, word_list);
        ip_tot.add(&ip_w);
        nontrivial += ip_w.c[IP_NONTRIVIAL];
        if let Some((idx, m)) = ip_w.first {
            ip_first = Some(("u8".into(), words[idx].iter().map(|&x| x as i64).collect(), m));
        }
        if let Some(h) = hang {
            perm_stuck = Some(("iter_permutations", "u8", words[h.index].iter().map(|&x| x as i64).collect(), h));
        }
    }

    let mut perm_inputs = 0u64;
    for (n, &l) in plists.iter().enumerate() {
        if perm_stuck.is_some() {
            break;
        }
        perm_inputs += l.len() as u64;
        let (np, hang) = np_pass(l, move |_| &l[..]);
        np_tot.add(&np);
        if let Some(h) = hang {
            perm_stuck = Some(("next_permutation", "i32", l[h.index].iter().map(|&x| x as i64).collect(), h));
            break;
        }
        let (ip, hang) = ip_pass(l, move |_| &l[..]);
        ip_tot.add(&ip);
        if let Some(h) = hang {
            perm_stuck = Some(("iter_permutations", "i32", l[h.index].iter().map(|&x| x as i64).collect(), h));
        }
        // permutations of <= 3 distinct elements also occur among the words: not counted twice
        if n >= 4 {
            nontrivial += np.c[NP_DEEP] + ip.c[IP_NONTRIVIAL];
        }
        if let (None, Some((idx, m))) = (&np_first, np.first) {
            np_first = Some(("i32".into(), l[idx].iter().map(|&x| x as i64).collect(), m));
        }
        if let (None, Some((idx, m))) = (&ip_first, ip.first) {
            ip_first = Some(("i32".into(), l[idx].iter().map(|&x| x as i64).collect(), m));
        }
    }
    evaluations += np_tot.c[NP_CASES] + ip_tot.c[IP_CASES];
    items_total += ip_tot.c[IP_ITEMS];
    for (fam, first, failing) in [("next_permutation", np_first, np_tot.bad), ("iter_permutations", ip_first, ip_tot.bad)] {
        if let Some((elem, data, m)) = first {
            let sig = format!("{fam}:{elem}:{}", serde_json::to_string(&data).unwrap());
            run.violation(Violation::new(sig, format!("{m} [{failing} failing inputs in this family]"), json!({"kind": fam, "elem": elem, "data": data})));
        }
    }
    if let Some((fam, elem, data, h)) = perm_stuck {
        let head = format!("{fam}({data:?})");
        run.violation(Violation::new(format!("{fam}:{elem}:{}", serde_json::to_string(&data).unwrap()), format!("{head}: {}", h.text()), json!({"kind": fam, "elem": elem, "data": data})));
        abandon(run, evaluations, &head);
    }
    run.cov(
        "permutations",
        json!({
            "word_alphabet": [0, 1, 2], "max_word_length": maxlen, "words": words.len(), "multisets_of_words": ltab.len(),
            "max_distinct_elements": maxn, "permutations_of_distinct_elements": perm_inputs,
            "next_permutation": {
                "calls": np_tot.c[NP_CASES], "returned_true": np_tot.c[NP_TRUE], "returned_false_wrapped_to_sorted": np_tot.c[NP_FALSE],
                "inputs_with_repeated_elements": np_tot.c[NP_DUP], "inputs_where_suffix_holds_an_element_equal_to_the_pivot": np_tot.c[NP_TIE],
                "calls_that_changed_a_position_before_the_last_two": np_tot.c[NP_DEEP], "failing_inputs": np_tot.bad,
            },
            "iter_permutations": {
                "calls": ip_tot.c[IP_CASES], "arrangements_compared": ip_tot.c[IP_ITEMS], "unsorted_inputs": ip_tot.c[IP_UNSORTED],
                "inputs_with_repeated_elements": ip_tot.c[IP_DUP], "calls_yielding_3_or_more": ip_tot.c[IP_NONTRIVIAL], "failing_inputs": ip_tot.bad,
            },
        }),
    );
    if np_tot.bad == 0 && (np_tot.c[NP_TRUE] == 0 || np_tot.c[NP_FALSE] == 0 || np_words_tie == 0 || np_tot.c[NP_DEEP] == 0 || np_tot.c[NP_TRUE] + np_tot.c[NP_FALSE] != np_tot.c[NP_CASES]) {
        run.machinery_failure("next_permutation exploration is vacuous (no true / false / tie-sensitive / deep case)");
    }
    if ip_tot.bad == 0 && (ip_tot.c[IP_UNSORTED] == 0 || ip_tot.c[IP_DUP] == 0 || ip_tot.c[IP_NONTRIVIAL] == 0 || ip_tot.c[IP_ITEMS] <= ip_tot.c[IP_CASES]) {
        run.machinery_failure("iter_permutations exploration is vacuous");
    }

    lap(&mut t, "permutations");
    // ----------------------------------------------------------------------------------- neighbours
    let mut nb_cov = serde_json::Map::new();
    let mut grids_without_cells = 0u64;
    for n in 0..=maxgrid {
        for m in 0..=maxgrid {
            if n * m == 0 {
                grids_without_cells += 1;
            }
        }
    }
    for kind in NB_KINDS {
        let full = nb_offsets(kind).len();
        let (mut calls, mut items, mut c_full, mut c_empty, mut c_cut, mut bad) = (0u64, 0u64, 0u64, 0u64, 0u64, 0u64);
        let mut patterns: BTreeSet<u32> = BTreeSet::new();
        let mut first: Option<([usize; 4], String)> = None;
        for &[n, m, i, j] in cells.iter() {
            // oracle self-check: the offset-table oracle yields the geometric neighbour set
            let e = nb_expected(kind, n, m, i, j);
            if e.iter().copied().collect::<BTreeSet<_>>() != nb_geometric(kind, n, m, i, j) || e.len() != nb_geometric(kind, n, m, i, j).len() {
                run.machinery_failure("neighbour order oracle is not the geometric neighbour set");
            }
        }
        // every cell of every grid, each call on a watched worker thread
        let (done, hang) = guard::map(cells.len(), 16, false, move |idx| {
            let [n, m, i, j] = cells[idx];
            check_nb(kind, n, m, i, j)
        })
        .completed();
        for (idx, r) in done.into_iter().enumerate() {
            calls += 1;
            match r {
                Ok((len, pat)) => {
                    items += len as u64;
                    patterns.insert(pat);
                    if len == full {
                        c_full += 1;
                    } else if len == 0 {
                        c_empty += 1;
                    } else {
                        c_cut += 1;
                    }
                }
                Err(msg) => {
                    bad += 1;
                    if first.is_none() {
                        first = Some((cells[idx], msg));
                    }
                }
            }
        }
        evaluations += calls;
        nontrivial += c_cut;
        items_total += items;
        nb_cov.insert(
            kind.to_string(),
            json!({"calls": calls, "cells_yielded": items, "cells_with_all_neighbours": c_full, "cells_with_none": c_empty,
                   "cells_where_bounds_cut_the_list": c_cut, "distinct_kept_offset_patterns": patterns.len(), "failing_cells": bad}),
        );
        if let Some((g, msg)) = first {
            let sig = format!("{kind}:n={},m={},i={},j={}", g[0], g[1], g[2], g[3]);
            run.violation(Violation::new(sig, format!("{msg} [{bad} failing cells in this family]"), json!({"kind": kind, "n": g[0], "m": g[1], "i": g[2], "j": g[3]})));
        } else if hang.is_none() && (c_full == 0 || c_empty == 0 || c_cut == 0 || patterns.len() < 9) {
            run.machinery_failure(&format!("{kind} exploration is vacuous"));
        }
        if let Some(h) = hang {
            let g = cells[h.index];
            let head = format!("iter_{kind}(n={}, m={}, i={}, j={})", g[0], g[1], g[2], g[3]);
            run.violation(Violation::new(format!("{kind}:n={},m={},i={},j={}", g[0], g[1], g[2], g[3]), format!("{head}: {}", h.text()), json!({"kind": kind, "n": g[0], "m": g[1], "i": g[2], "j": g[3]})));
            abandon(run, evaluations, &head);
        }
    }
    nb_cov.insert("grids".into(), json!(format!("all n x m with n, m in 0..={maxgrid}, every cell")));
    nb_cov.insert("grids_without_cells".into(), json!(grids_without_cells));
    run.cov("neighbours", Value::Object(nb_cov));

    lap(&mut t, "neighbours");
    // ------------------------------------------------------------------------------------- evidence
    run.cov("evaluations", evaluations);
    run.cov("distinct_nontrivial", nontrivial);
    run.cov("items_compared", items_total);
    run.cov("skipped_out_of_domain", 0u64);
    run.cov("exhaustive", true);
    run.cov("overflow_checks_in_this_build", overflow_checks_on());
    run.cov(
        "rule",
        format!(
            "every input of the stated spaces, each once, simplest first: masks = every bit pattern of u8,i8,u16,i16 and, for u32..i128/usize/isize, every mask whose free bits (set bits for submasks, zero bits for supermasks) are a subset of size <= {max_free_wide} of positions {{0,1,2,7,8,15,16,31,32,63,64,127}} below the width; sequences = every word over {{0,1,2}} of length 0..={maxlen} (u8) and every permutation of 0..n for n <= {maxn} (i32), each fed to next_permutation once and to iter_permutations once; neighbours = every cell of every grid 0..=6 x 0..=6 for the three iterators. evaluations = calls of the real function compared with the reference. distinct_nontrivial = measured number of those inputs on which the real code took a non-degenerate path: masks that yielded >= 3 items, next_permutation calls that changed a position before the last two, iter_permutations calls that yielded >= 3 arrangements (for permutations of distinct elements only n >= 4 is counted, smaller ones recur among the words), neighbour cells whose list was non-empty but cut by the bounds. ITERATOR PROTOCOL (run first; cases counted in evaluations, inputs not counted again in distinct_nontrivial): the passes above read every iterator with next() only; an iterator type can override any provided method of Iterator (fold, nth, count, last, size_hint, min, ...) and std's adaptors are built on those, so for every iterator the crate hands out a family of inputs is consumed in every std way and each observation list must equal the one the plain Vec iterator over the definition's sequence gives: next() to the end with size_hint() bounds before every call and three calls behind the first None (which may only yield items of the sequence; None for a FusedIterator); fold, for_each, count, last, sum and product (into a harness type, order-sensitive digest), min, max, reduce, collect into Vec / BTreeSet / HashSet, eq, zip, chain().fold, peekable, fuse; nth(k) [+ size_hint after it], skip(k) pulled and skip(k).fold, by_ref().take(k) then the rest, all / any / find / position of the item k ahead (then next()), step_by(1,2,3,5) — each on a fresh iterator and after j next() calls, for every pair j <= j+k <= length+1 when the sequence has at most {full} items, otherwise for j, j+k in {{0,1,2,3, length-3..length+1, middle-1..middle+1}} (middle = where mask items cross the top bit); every way stops at the first None it is handed; rev / next_back / rfold / nth_back and len() are compared too if the type the caller sees implements DoubleEndedIterator / ExactSizeIterator (an `impl Iterator` return type shows neither). Protocol inputs: masks = for submasks and supermasks of all 12 types, free-bit sets: every set (8-bit types), every set of <= 3 bits (16-bit types), every subset of <= 4 of the positions {{0,1,2,7,8,15,16,31,32,63,64,127}} below the width and for each size 5..=8 the first {per_size} such subsets without and with the top bit (types of 16 bits and more) — so every type, negative and non-negative masks, every size class 1..256 items; iter_permutations = every word over {{0,1,2}} shorter than {maxlen}, the ascending and descending arrangement of every multiset of length {maxlen}, every permutation of <= 4 distinct elements, ascending and descending order of 5..={pmax} distinct elements; neighbours = every cell of every grid 0..=6 x 0..=6 for the three iterators. WATCHDOG: every call into the crate runs on a watched thread; a call that uses more than {cpu} s of its own processor time (or {wall} s of wall time) without returning is reported as a violation 'does not terminate' for the smallest such input, the rest of the enumeration is abandoned, and the replay reports the same"
            , full = protocol::FULL_GRID_MAX, per_size = proto_per_size, pmax = tier.pick(6, maxn), cpu = guard::CPU_LIMIT_S, wall = guard::WALL_LIMIT_S
        ),
    );
    run.assume("the fixed order of the neighbour iterators is taken from the crate's own tests (/repo/rlib/iter/tests/tests.rs): offsets (0,1),(-1,0),(0,-1),(1,0) / (-1,1),(-1,-1),(1,-1),(1,1) / (0,1),(-1,1),(-1,0),(-1,-1),(0,-1),(1,-1),(1,0),(1,1) as (row,column) deltas, filtered to the grid; the engine checks that its oracle reproduces those test literals and that it equals the geometric neighbour set");
    run.assume("masks are compared as unsigned bit patterns of the type's own width (signed items are reinterpreted with `as`), as the property states");
    run.assume(&format!("usize/isize are {}-bit on this target", usize::BITS));
    run.assume("wide-type masks are structured (bounded free bits over 12 boundary positions), not all masks; 8- and 16-bit types are complete");
    run.assume("the iterator protocol is run on reduced input families (stated in `rule`), not on every input of the next()-only passes");
    run.assume("a call into the crate that never returns cannot be told from a very slow one without a clock: the watchdog's verdict 'does not terminate' means 'used more than the stated processor time of its own thread (per-thread clock of the kernel, so machine load does not count) where every case of this engine takes micro- to milliseconds'");

    // samples (plain calls; VERIF_SEED only rotates which ones are shown)
    let s = seed as usize;
    {
        // (type index, direction, mask bits); rendered in the type's own signed/unsigned reading
        let picks: [(usize, Dir, u128); 4] = [
            (1, Dir::Sub, 0x80u128 | [0x0Du128, 0x15, 0x46, 0x29][s % 4]),
            (3, Dir::Sup, 0x7FF0u128 | (s as u128 * 5 & 0xF)),
            (11, Dir::Sub, (1u128 << 127) | (1 << 64) | (1 << (s % 3))),
            (6, Dir::Sup, !((1u128 << 63) | (1 << 31) | 1) & width_mask(64)),
        ];
        for (ty, dir, x) in picks {
            let mut got: Vec<String> = vec![];
            let r = catch(|| {
                drive(ty, dir, x, |y| {
                    got.push(show(ty, y));
                    got.len() < 300
                })
            });
            run.sample(json!({"call": format!("{}::<{}>({})", dir.func(), TYPES[ty].name, show(ty, x)), "yielded": got, "panicked": r.err()}));
        }
        let w = &words[(words.len() - 1 - (s * 7 + 40) % 700).min(words.len() - 1)];
        let mut d = w.clone();
        let r = catch(|| next_permutation(&mut d));
        run.sample(json!({"call": format!("next_permutation({w:?})"), "returned": format!("{r:?}"), "sequence_after": d}));
        let mut d: Vec<u8> = vec![1, 0, (s % 3) as u8, 2, 2, 1];
        let before = d.clone();
        let r = catch(|| next_permutation(&mut d));
        run.sample(json!({"call": format!("next_permutation({before:?})"), "returned": format!("{r:?}"), "sequence_after": d}));
        let w: Vec<u8> = vec![2, 0, (s % 3) as u8, 2];
        let got = catch(|| iter_permutations(w.clone()).take(30).collect::<Vec<_>>());
        run.sample(json!({"call": format!("iter_permutations({w:?})"), "yielded": format!("{got:?}")}));
        let (n, m, i, j) = (3, 4, s % 3, 3 - s % 4);
        run.sample(json!({"call": format!("iter_neighbours_8({n},{m},{i},{j})"), "yielded": format!("{:?}", nb_real("neighbours_8", n, m, i, j))}));
        run.sample(json!({"call": format!("iter_neighbours_4d({n},{m},{i},{j})"), "yielded": format!("{:?}", nb_real("neighbours_4d", n, m, i, j))}));
    }
    lap(&mut t, "evidence and samples");
    if std::env::var("VCORE_CHILD").is_err() {
        // the same enumeration in a build with debug assertions and overflow checks
        run.run_dbg_child();
        lap(&mut t, "second pass in the dbg profile");
    }
    run.finish(&confirm)
}
