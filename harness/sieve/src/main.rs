//! C13 — sieve tables equal the arithmetic definitions for every n up to the limit.
//!
//! Form I, level "exploration".  For EVERY limit N in 0..=1500 (quick) / 0..=4096 (thorough) the real
//! `Sieve::new(N)` is built and, for every n <= N, `is_prime(n)`, `min_prime(n)` (n >= 2), the whole
//! `primes()` list and `factorize(n)` (n >= 1) are compared with a trial-division reference.  Then one
//! big limit (10^6 quick, 10^7 thorough) is compared element by element against an independent plain
//! sieve of Eratosthenes (not a linear sieve), including `factorize(n)` for every n <= N.
//!
//! The constructor is NOT assumed to be a pure function of N: what a thread has constructed before is part
//! of the case.  Every construction happens on a dedicated thread whose construction history is known —
//! "solo" (each limit is the first construction of a fresh thread) and four explicit schedules, each run on
//! one fresh thread with the full comparison after every construction: ascending 0..=Nmax, descending
//! Nmax..=0, "big first" (the largest big limit, then the other big limits, then every small limit) and
//! alternating 0, Nmax, 1, Nmax-1, ….  A violation's replay carries the shortest history that reproduces
//! it on a fresh thread (found by trying: none, N+1, the recorded predecessor, the largest limit, the whole
//! recorded prefix), and `confirm` re-executes that history on a fresh thread before the case itself.
//!
//! `factorize` divides by table entries in a loop; on a broken table that can divide by zero (a panic,
//! caught) or spin forever.  It is therefore only called for a sieve whose `min_prime(m)` has already been
//! verified for every 2 <= m <= N (otherwise the min_prime violation is the verdict for that N), never
//! when the two undemanded entries `min_prime(0)`/`min_prime(1)` would make it spin, with at most
//! `MAX_ITEMS` items taken and consumption stopped at the first wrong item.
//!
//! The iterator protocol (`protocol.rs`, family `factorize_consumed`): the comparisons above read the iterator
//! `factorize(n)` hands out with `next()` only.  In a pass of its own — first, on watched threads (`guard.rs`),
//! so that a call that does not return becomes the verdict "does not terminate" instead of a hung check — every
//! limit is constructed as the first construction of a fresh thread, its `min_prime` table is verified, and
//! `factorize(n)` is consumed in every std way (`fold`, `for_each`, `count`, `last`, `sum`, `product`, `min`,
//! `max`, `reduce`, `collect` into Vec / BTreeSet / HashSet, `eq`, `nth`, `skip`, `step_by`, `take` + rest,
//! `all`, `any`, `find`, `position`, `zip`, `chain`, `peekable`, `fuse`, `size_hint`; `rev` / `next_back` /
//! `rfold` / `len` if `PrimeIter` implements the traits), fresh and after j `next()` calls: for every n <= N of
//! every small limit, and for a structured family of n of the big limits.  (`primes()` returns a `&Vec<i32>`,
//! whose iterators are std's own; the list itself is compared as a whole.)
//!
//! Several iterators alive at once (`live.rs`, family `factorize_live`, run inside the protocol pass on the same
//! sieve): `factorize(&self)` hands out an iterator that borrows the sieve, so two, three or N of them may be
//! alive at the same time and the other methods may be called meanwhile; every interleaving of creation and
//! `next()` calls of two and three iterators, the std adaptors over live iterators (chain, zip, eq, nested loops,
//! flat_map, merge) and "all n alive" are compared with plain `Vec` iterators over the reference factorisations.
//!
//! Threads: no `Sieve` and no iterator is shared between threads or moved to another thread — the property promises
//! neither `Sync` nor `Send`, so the engine needs neither (see `big_limit_replicas`).  Every thread that needs a
//! sieve constructs it itself.

mod guard;
mod live;
mod protocol;

use protocol::{describe_notes, protocol_case, N_USES, USE_NAMES};
use rayon::prelude::*;
use rlib_sieve::Sieve;
use std::collections::{BTreeMap, BTreeSet};
use vcore::*;

const FAMILIES: [&str; 5] = ["panic_on_new", "is_prime", "min_prime", "primes_list", "factorize"];
/// the family of the iterator protocol (reported by its own pass, always as a first construction of a thread)
const CONSUMED: &str = "factorize_consumed";
const MAX_ITEMS: usize = 40;
const CHUNK: usize = 1 << 15;

// ───────────────────────────── references (independent of the code under test) ─────────────────────────────

/// Least prime factor of n >= 2 by trial division.
fn lpf_trial(n: u64) -> u64 {
    let mut d = 2u64;
    while d * d <= n {
        if n % d == 0 {
            return d;
        }
        d += 1;
    }
    n
}

/// Prime factorisation of n >= 1 by trial division: strictly increasing primes with exact exponents.
fn factor_trial(mut n: u64) -> Vec<(i32, i32)> {
    let mut out = vec![];
    let mut d = 2u64;
    while d * d <= n {
        if n % d == 0 {
            let mut e = 0;
            while n % d == 0 {
                n /= d;
                e += 1;
            }
            out.push((d as i32, e));
        }
        d += 1;
    }
    if n > 1 {
        out.push((n as i32, 1));
    }
    out
}

/// Plain sieve of Eratosthenes recording the least prime factor (0 for 0 and 1).  Every prime p crosses
/// out p*p, p*p+p, ... and a cell keeps the FIRST prime that reached it — not the linear-sieve scheme.
fn spf_eratosthenes(limit: usize) -> Vec<u32> {
    let mut spf = vec![0u32; limit + 1];
    for p in 2..=limit {
        if spf[p] != 0 {
            continue;
        }
        spf[p] = p as u32;
        if p.checked_mul(p).map_or(false, |q| q <= limit) {
            let mut m = p * p;
            while m <= limit {
                if spf[m] == 0 {
                    spf[m] = p as u32;
                }
                m += p;
            }
        }
    }
    spf
}

/// Factorisation of n >= 1 read off a least-prime-factor table (reference table only).
fn fact_from_spf(spf: &[u32], n: usize, buf: &mut Vec<(i32, i32)>) {
    buf.clear();
    let mut m = n;
    while m > 1 {
        let p = spf[m] as usize;
        let mut e = 0;
        while m % p == 0 {
            m /= p;
            e += 1;
        }
        buf.push((p as i32, e));
    }
}

// ───────────────────────────── single comparisons (shared by enumeration and replay) ─────────────────────────────

fn check_is_prime(s: &Sieve, n: usize, expected: bool) -> Result<(), String> {
    match catch(|| s.is_prime(n as i32)) {
        Err(p) => Err(format!("is_prime({n}) panicked: {p}")),
        Ok(got) if got != expected => Err(format!("is_prime({n}) expected {expected} observed {got}")),
        Ok(_) => Ok(()),
    }
}

fn check_min_prime(s: &Sieve, n: usize, expected: u64) -> Result<(), String> {
    match catch(|| s.min_prime(n as i32)) {
        Err(p) => Err(format!("min_prime({n}) panicked: {p}")),
        Ok(got) if got as i64 != expected as i64 => {
            Err(format!("min_prime({n}) expected {expected} (least prime dividing {n}) observed {got}"))
        }
        Ok(_) => Ok(()),
    }
}

/// Ok, or (index of the first difference, text).
fn check_primes_list(s: &Sieve, expected: &[i32]) -> Result<(), (usize, String)> {
    let got: Vec<i32> = match catch(|| s.primes().clone()) {
        Err(p) => return Err((0, format!("primes() panicked: {p}"))),
        Ok(v) => v,
    };
    if got.as_slice() == expected {
        return Ok(());
    }
    let i = (0..got.len().min(expected.len())).find(|&i| got[i] != expected[i]).unwrap_or(got.len().min(expected.len()));
    let show = |v: &[i32]| v.get(i).map_or("<end of list>".to_string(), |x| x.to_string());
    Err((
        i,
        format!(
            "primes() differs from the ascending list of all primes <= N at index {i}: expected {} observed {} (expected length {}, observed length {})",
            show(expected),
            show(&got),
            expected.len(),
            got.len()
        ),
    ))
}

/// The two table entries the property does not constrain decide whether `factorize` can spin on a table
/// whose entries for n >= 2 are verified: after the last division n = 1; if min_prime(1) equals the current
/// prime p the loop goes on to n = 0, and if min_prime(0) = p as well it stays there (0 / p = 0) forever.
/// (If only min_prime(1) = p, the item comes out with exponent + 1, is reported, and consumption stops.)
/// Returns true if factorize may be called (a panic while reading the entries also means "may be called":
/// the real call would then panic too and be caught).
fn factorize_cannot_spin(s: &Sieve) -> bool {
    let a = catch(|| s.min_prime(1));
    let b = catch(|| s.min_prime(0));
    match (a, b) {
        (Ok(a), Ok(b)) => !(a >= 2 && a == b),
        _ => true,
    }
}

fn check_factorize(s: &Sieve, n: usize, expected: &[(i32, i32)]) -> Result<(), String> {
    let r = catch(|| {
        let mut got: Vec<(i32, i32)> = Vec::new();
        for item in s.factorize(n as i32).take(MAX_ITEMS) {
            let k = got.len();
            got.push(item);
            if k >= expected.len() || expected[k] != item {
                break; // stop consuming at the first wrong item
            }
        }
        got
    });
    match r {
        Err(p) => Err(format!("factorize({n}) panicked: {p}")),
        Ok(got) if got.as_slice() == expected => Ok(()),
        Ok(got) => {
            let increasing = got.windows(2).all(|w| w[0].0 < w[1].0);
            let mut prod: i128 = 1;
            for &(p, e) in &got {
                for _ in 0..e.clamp(0, 64) {
                    prod = prod.saturating_mul(p as i128);
                }
            }
            Err(format!(
                "factorize({n}) expected {:?} observed {:?} (consumption stopped at the first wrong item; observed product {prod}, strictly increasing {increasing})",
                expected, got
            ))
        }
    }
}

// ───────────────────────────── book-keeping ─────────────────────────────

#[derive(Clone, Debug)]
struct Fail {
    family: &'static str,
    limit: usize,
    n: Option<usize>,
    signature: String,
    summary: String,
    replay: Value,
}

fn fail(family: &'static str, limit: usize, n: Option<usize>, key: &str, summary: String, reference: &str) -> Fail {
    let signature = match n {
        Some(n) => format!("{family}:N={limit},{key}={n}"),
        None => format!("{family}:N={limit}"),
    };
    Fail {
        family,
        limit,
        n,
        signature,
        summary: format!("Sieve::new({limit}): {summary}"),
        replay: json!({"family": family, "N": limit, "n": n, "reference": reference}),
    }
}

#[derive(Default, Clone)]
struct Counters {
    news: u64,
    is_prime: u64,
    min_prime: u64,
    primes_list: u64,
    primes_list_elements: u64,
    factorize: u64,
    factorize_items: u64,
    pairs: u64,
    skipped_out_of_domain: u64,
    factorize_skipped_min_prime_wrong: u64,
    factorize_skipped_table_could_spin: u64,
    max_exponent: u64,
    max_distinct_primes: u64,
    /// constructions of a big limit, replicas included (`news` counts a limit once)
    big_limit_constructions: u64,
    shapes: BTreeSet<u64>,
}

impl Counters {
    fn merge(&mut self, o: &Counters) {
        self.news += o.news;
        self.is_prime += o.is_prime;
        self.min_prime += o.min_prime;
        self.primes_list += o.primes_list;
        self.primes_list_elements += o.primes_list_elements;
        self.factorize += o.factorize;
        self.factorize_items += o.factorize_items;
        self.pairs += o.pairs;
        self.skipped_out_of_domain += o.skipped_out_of_domain;
        self.factorize_skipped_min_prime_wrong += o.factorize_skipped_min_prime_wrong;
        self.factorize_skipped_table_could_spin += o.factorize_skipped_table_could_spin;
        self.max_exponent = self.max_exponent.max(o.max_exponent);
        self.max_distinct_primes = self.max_distinct_primes.max(o.max_distinct_primes);
        self.big_limit_constructions += o.big_limit_constructions;
        self.shapes.extend(o.shapes.iter().copied());
    }
    fn evaluations(&self) -> u64 {
        self.news + self.is_prime + self.min_prime + self.primes_list + self.factorize
    }
    /// Record a factorisation that was observed equal to the reference.
    fn saw_factorisation(&mut self, f: &[(i32, i32)]) {
        self.factorize += 1;
        self.factorize_items += f.len() as u64;
        self.max_distinct_primes = self.max_distinct_primes.max(f.len() as u64);
        let mut shape = 1u64;
        for &(_, e) in f {
            self.max_exponent = self.max_exponent.max(e as u64);
            shape = (shape << 5) | (e as u64 & 31);
        }
        self.shapes.insert(shape);
    }
}

#[derive(Default)]
struct Outcome {
    fails: Vec<Fail>, // at most one per family, the first in enumeration order
    c: Counters,
}

impl Outcome {
    fn push(&mut self, f: Fail) {
        if !self.fails.iter().any(|g| g.family == f.family) {
            self.fails.push(f);
        }
    }
    fn has(&self, family: &str) -> bool {
        self.fails.iter().any(|g| g.family == family)
    }
}

// ───────────────────────────── small limits: every N, every n, trial division ─────────────────────────────

struct SmallRef {
    lpf: Vec<u64>,                 // 0 for n < 2
    fact: Vec<Vec<(i32, i32)>>,    // empty for 0 and 1
    primes: Vec<i32>,              // ascending, all primes <= max
}

fn small_reference(max: usize) -> SmallRef {
    let lpf: Vec<u64> = (0..=max as u64).map(|n| if n < 2 { 0 } else { lpf_trial(n) }).collect();
    let fact: Vec<Vec<(i32, i32)>> = (0..=max as u64).map(|n| if n < 2 { vec![] } else { factor_trial(n) }).collect();
    let primes: Vec<i32> = (2..=max).filter(|&n| lpf[n] == n as u64).map(|n| n as i32).collect();
    SmallRef { lpf, fact, primes }
}

fn check_small_limit(limit: usize, r: &SmallRef) -> Outcome {
    let mut o = Outcome::default();
    o.c.news = 1;
    let s = match catch(|| Sieve::new(limit)) {
        Ok(s) => s,
        Err(p) => {
            o.push(fail("panic_on_new", limit, None, "", format!("constructor panicked: {p}"), "trial"));
            return o;
        }
    };
    for n in 0..=limit {
        o.c.pairs += 1;
        o.c.is_prime += 1;
        let isp = n >= 2 && r.lpf[n] == n as u64;
        if let Err(m) = check_is_prime(&s, n, isp) {
            o.push(fail("is_prime", limit, Some(n), "n", m, "trial"));
        }
        if n >= 2 {
            o.c.min_prime += 1;
            if let Err(m) = check_min_prime(&s, n, r.lpf[n]) {
                o.push(fail("min_prime", limit, Some(n), "n", m, "trial"));
            }
        } else {
            o.c.skipped_out_of_domain += 1; // min_prime(0), min_prime(1): not constrained by the property
        }
    }
    o.c.primes_list += 1;
    let np = r.primes.partition_point(|&p| p as usize <= limit);
    o.c.primes_list_elements += np as u64;
    if let Err((i, m)) = check_primes_list(&s, &r.primes[..np]) {
        o.push(fail("primes_list", limit, Some(i), "i", m, "trial"));
    }
    o.c.skipped_out_of_domain += 1; // factorize(0): not constrained
    if o.has("min_prime") {
        o.c.factorize_skipped_min_prime_wrong += 1;
    } else if !factorize_cannot_spin(&s) {
        o.c.factorize_skipped_table_could_spin += 1;
    } else {
        for n in 1..=limit {
            match check_factorize(&s, n, &r.fact[n]) {
                Ok(()) => o.c.saw_factorisation(&r.fact[n]),
                Err(m) => {
                    o.c.factorize += 1;
                    o.push(fail("factorize", limit, Some(n), "n", m, "trial"));
                    break; // the first failing n of this limit is enough; later calls on a bad table are not needed
                }
            }
        }
    }
    o
}

// ───────────────────────────── big limit: element by element against Eratosthenes ─────────────────────────────

/// How many threads share the comparison of one big limit.  NO `Sieve` IS EVER SHARED BETWEEN THREADS OR MOVED TO
/// ANOTHER THREAD by this engine: the property promises neither `Sync` nor `Send` for `Sieve` or for the iterator
/// of `factorize` (a sieve with a `RefCell` scratch buffer or an `Rc` inside is a legal implementation), so the
/// engine must keep compiling — and judging — when an auto trait goes away.  Every thread that needs a sieve
/// constructs its own on itself: for a big limit each of the `replicas` threads is a fresh thread whose first
/// construction is `Sieve::new(limit)` (so every replica has the history "solo"), verifies on its own table
/// what `factorize` needs to terminate, and compares the chunks of n whose index is congruent to its number.
fn big_limit_replicas(limit: usize) -> usize {
    let most = if limit <= 10_000_000 { 4 } else { 2 }; // a table of 10^7 entries is 53 MB
    guard::threads().div_ceil(2).clamp(1, most)
}

/// `replicas` = 0: everything on the calling thread (inside a schedule everything stays on the schedule's thread);
/// otherwise that many fresh threads.
fn check_big_limit(limit: usize, spf: &[u32], replicas: usize) -> Outcome {
    if replicas == 0 {
        return check_big_limit_part(limit, spf, 0, 1);
    }
    let parts: Vec<Outcome> = std::thread::scope(|sc| {
        let handles: Vec<_> = (0..replicas).map(|w| sc.spawn(move || check_big_limit_part(limit, spf, w, replicas))).collect();
        handles
            .into_iter()
            .map(|h| {
                h.join().unwrap_or_else(|_| {
                    println!("MACHINERY-FAILURE engine=sieve a harness thread panicked outside the code under test");
                    std::process::exit(2)
                })
            })
            .collect()
    });
    let mut o = Outcome::default();
    let mut fails: Vec<Fail> = vec![];
    for p in parts {
        o.c.merge(&p.c);
        fails.extend(p.fails);
    }
    // every part kept its smallest failing n per family; the smallest of all parts is the one reported
    fails.sort_by_key(|f| f.n);
    for f in fails {
        o.push(f);
    }
    o
}

/// Part `part` of `of`: an own construction, then the chunks of n with index ≡ part (mod of).  Part 0 also
/// compares `primes()` and keeps the per-limit counters.
fn check_big_limit_part(limit: usize, spf: &[u32], part: usize, of: usize) -> Outcome {
    let mut o = Outcome::default();
    o.c.news = (part == 0) as u64;
    o.c.big_limit_constructions = 1;
    let s = match catch(|| Sieve::new(limit)) {
        Ok(s) => s,
        Err(p) => {
            o.push(fail("panic_on_new", limit, None, "", format!("constructor panicked: {p}"), "eratosthenes"));
            return o;
        }
    };
    let starts: Vec<usize> = (0..=limit).step_by(CHUNK).enumerate().filter(|(i, _)| i % of == part).map(|(_, a)| a).collect();
    // pass 1: is_prime, min_prime
    for &a in &starts {
        for n in a..(a + CHUNK).min(limit + 1) {
            o.c.pairs += 1;
            o.c.is_prime += 1;
            let isp = n >= 2 && spf[n] as usize == n;
            if let Err(m) = check_is_prime(&s, n, isp) {
                o.push(fail("is_prime", limit, Some(n), "n", m, "eratosthenes"));
            }
            if n >= 2 {
                o.c.min_prime += 1;
                if let Err(m) = check_min_prime(&s, n, spf[n] as u64) {
                    o.push(fail("min_prime", limit, Some(n), "n", m, "eratosthenes"));
                }
            } else {
                o.c.skipped_out_of_domain += 1;
            }
        }
    }
    // primes()
    if part == 0 {
        let expected: Vec<i32> = (2..=limit).filter(|&n| spf[n] as usize == n).map(|n| n as i32).collect();
        o.c.primes_list += 1;
        o.c.primes_list_elements += expected.len() as u64;
        if let Err((i, m)) = check_primes_list(&s, &expected) {
            o.push(fail("primes_list", limit, Some(i), "i", m, "eratosthenes"));
        }
        o.c.skipped_out_of_domain += 1; // factorize(0)
    }
    // pass 2: factorize, only on a min_prime table this thread has verified as a whole (the division chain of n
    // runs through entries of every chunk)
    let table_ok = of == 1 && !o.has("min_prime") || of > 1 && catch(|| (2..=limit).all(|n| s.min_prime(n as i32) as i64 == spf[n] as i64)).unwrap_or(false);
    if !table_ok {
        o.c.factorize_skipped_min_prime_wrong += (part == 0) as u64;
    } else if !factorize_cannot_spin(&s) {
        o.c.factorize_skipped_table_could_spin += (part == 0) as u64;
    } else {
        let mut buf = Vec::with_capacity(16);
        'chunks: for &a in &starts {
            for n in a.max(1)..(a + CHUNK).min(limit + 1) {
                fact_from_spf(spf, n, &mut buf);
                match check_factorize(&s, n, &buf) {
                    Ok(()) => o.c.saw_factorisation(&buf),
                    Err(m) => {
                        o.c.factorize += 1;
                        o.push(fail("factorize", limit, Some(n), "n", m, "eratosthenes"));
                        break 'chunks;
                    }
                }
            }
        }
    }
    o
}

// ───────────────────────────── the iterator protocol of factorize ─────────────────────────────

/// Every way of consuming the real `factorize(n)` iterator against the reference factorisation.
fn factorize_protocol(s: &Sieve, n: usize, expected: &[(i32, i32)], all: bool) -> protocol::Report {
    protocol_case!(|| s.factorize(n as i32), expected, &[], all)
}

/// The n of a big limit whose factorisation is consumed in every way: every n up to `EDGE`, the last `EDGE`
/// ones below the limit, and the smallest and the largest n <= limit of every exponent shape (the sequence of
/// exponents in the order of the primes), read off the reference table.
const EDGE: usize = 4096;

fn big_protocol_family(limit: usize, spf: &[u32]) -> Vec<usize> {
    let mut shapes: BTreeMap<u64, (usize, usize)> = BTreeMap::new();
    for n in 2..=limit {
        let (mut m, mut shape) = (n, 1u64);
        while m > 1 {
            let p = spf[m];
            let mut e = 0u64;
            while m > 1 && spf[m] == p {
                m /= p as usize;
                e += 1;
            }
            shape = (shape << 5) | (e & 31);
        }
        shapes.entry(shape).or_insert((n, n)).1 = n;
    }
    let mut v: BTreeSet<usize> = (1..=EDGE.min(limit)).chain(limit.saturating_sub(EDGE) + 1..=limit).collect();
    v.extend(shapes.values().flat_map(|&(a, b)| [a, b]));
    v.into_iter().collect()
}

/// What the protocol pass did on one limit.
struct ProtoLimit {
    limit: usize,
    /// Some(why): factorize was not consumed on this limit — what is wrong is the verdict of another family
    skipped: Option<&'static str>,
    inputs: u64,
    inputs_largest_prime_repeated: u64,
    inputs_with_3_or_more_items: u64,
    cases: [u64; N_USES],
    longest: usize,
    behind_the_end: u64,
    traits: [bool; 3],
    /// the first n whose iterator went wrong (consumption of this limit stops there)
    first: Option<(usize, protocol::Failure)>,
    /// several iterators alive at once (`live.rs`); run when every single iterator of this limit was right
    live: live::Counts,
    live_first: Option<live::Failure>,
}

/// Limits up to `LIVE_ALL_PAIRS` get every ordered pair of numbers 1..=N, limits up to `LIVE_ALL_TRIPLES` every
/// ordered triple as well; the small limits above get the ordered pairs of {1, N-1, N} (the table entries written
/// last); the largest small limit and every big limit the ordered pairs of {1, 2, the largest 2^k, the largest n
/// with the most distinct primes, the largest prime, N-1, N}.  Every small limit gets the two `all_alive` cases.
const LIVE_ALL_PAIRS: usize = 48;
const LIVE_ALL_TRIPLES: usize = 8;

fn live_plan(limit: usize, small: bool, largest_small: usize, lens: &dyn Fn(usize) -> usize, is_prime: &dyn Fn(usize) -> bool) -> live::Plan {
    let mut pair_numbers: Vec<usize> = if limit <= LIVE_ALL_PAIRS {
        (1..=limit).collect()
    } else if small && limit != largest_small {
        vec![1, limit - 1, limit]
    } else {
        let richest = if small {
            let most = (1..=limit).map(lens).max().unwrap();
            (1..=limit).rev().find(|&n| lens(n) == most).unwrap()
        } else {
            // the largest primorial: no number <= N has more distinct primes
            [2usize, 3, 5, 7, 11, 13, 17, 19, 23].iter().scan(1usize, |acc, &p| { *acc *= p; Some(*acc) }).take_while(|&x| x <= limit).last().unwrap()
        };
        let prime = (2..=limit).rev().find(|&n| is_prime(n)).unwrap();
        vec![1, 2, 1usize << limit.ilog2(), richest, prime, limit - 1, limit]
    };
    pair_numbers.sort();
    pair_numbers.dedup();
    live::Plan { pair_numbers, triple_numbers: if limit <= LIVE_ALL_TRIPLES { (1..=limit).collect() } else { vec![] }, all_alive: small }
}

/// The real sieve as a world of `live.rs` (closures: the iterator type of the crate is never named).
macro_rules! real_world {
    ($s:expr, $limit:expr) => {{
        let (s, limit): (&Sieve, usize) = ($s, $limit);
        live::Fns {
            factorize: move |n: usize| {
                if n < 1 || n > limit {
                    panic!("an item handed out earlier contains the number {n}, which is outside 1..=N: factorize is not called with it");
                }
                s.factorize(n as i32)
            },
            about: move |x: usize| [s.is_prime(x as i32) as u64, if x >= 2 { s.min_prime(x as i32) as i64 as u64 } else { 0 }],
            primes_summary: move || {
                let p = s.primes();
                [p.len() as u64, p.first().map_or(0, |&x| x as i64 as u64), p.last().map_or(0, |&x| x as i64 as u64)]
            },
        }
    }};
}

/// The n of a small limit whose factorisation is consumed in every way: every n <= N for the limits up to
/// `ALL_N_UPTO` and for the largest small limit, the last `TAIL` n (the table entries written last, at the
/// cut-off of the marking loop) for the limits between.
const ALL_N_UPTO: usize = 256;
const TAIL: usize = 16;

fn small_protocol_family(limit: usize, largest_small: usize) -> Vec<usize> {
    if limit <= ALL_N_UPTO || limit == largest_small {
        (1..=limit).collect()
    } else {
        (limit - TAIL + 1..=limit).collect()
    }
}

/// One limit, constructed on the calling (fresh) thread: the table first, then every way of consuming.
fn protocol_limit(limit: usize, refs: &Refs) -> ProtoLimit {
    guard::allow(big_step_allowance(limit));
    let mut o = ProtoLimit { limit, skipped: None, inputs: 0, inputs_largest_prime_repeated: 0, inputs_with_3_or_more_items: 0, cases: [0; N_USES], longest: 0, behind_the_end: 0, traits: [false; 3], first: None, live: live::Counts::default(), live_first: None };
    let s = match catch(|| Sieve::new(limit)) {
        Ok(s) => s,
        Err(_) => {
            o.skipped = Some("the constructor panicked");
            return o;
        }
    };
    let small = refs.covers(limit);
    let lpf = |n: usize| if small { refs.small.lpf[n] as i64 } else { refs.spf[n] as i64 };
    if !catch(|| (2..=limit).all(|n| s.min_prime(n as i32) as i64 == lpf(n))).unwrap_or(false) {
        o.skipped = Some("a min_prime entry is wrong");
        return o;
    }
    if !factorize_cannot_spin(&s) {
        o.skipped = Some("min_prime(0) = min_prime(1) >= 2");
        return o;
    }
    let ns: Vec<usize> = if small { small_protocol_family(limit, refs.small.lpf.len() - 1) } else { big_protocol_family(limit, &refs.spf) };
    let mut buf = Vec::with_capacity(16);
    for n in ns {
        // from here on every n is a step of its own for the watchdog, with the default limits
        guard::checkpoint();
        guard::note(3, n as u64);
        let expected: &[(i32, i32)] = if small {
            &refs.small.fact[n]
        } else {
            fact_from_spf(&refs.spf, n, &mut buf);
            &buf
        };
        let rep = factorize_protocol(&s, n, expected, false);
        o.inputs += 1;
        o.inputs_largest_prime_repeated += expected.last().is_some_and(|&(_, e)| e >= 2) as u64;
        o.inputs_with_3_or_more_items += (rep.len >= 3) as u64;
        for (a, b) in o.cases.iter_mut().zip(rep.cases) {
            *a += b;
        }
        o.longest = o.longest.max(rep.len);
        o.behind_the_end += rep.behind_the_end;
        for t in 0..3 {
            o.traits[t] |= rep.traits[t];
        }
        if let Some(f) = rep.failures.into_iter().next() {
            o.first = Some((n, f));
            break;
        }
    }
    if o.first.is_none() && limit >= 1 {
        // several iterators of this sieve alive at once
        let fact = |n: usize| -> Vec<(i32, i32)> {
            if small {
                refs.small.fact[n].clone()
            } else {
                let mut v = Vec::with_capacity(8);
                fact_from_spf(&refs.spf, n, &mut v);
                v
            }
        };
        let lens = |n: usize| if small { refs.small.fact[n].len() } else { fact(n).len() };
        let is_prime = |n: usize| n >= 2 && lpf(n) == n as i64;
        let summary = {
            let (mut count, mut last) = (0u64, 0u64);
            for n in 2..=limit {
                if is_prime(n) {
                    count += 1;
                    last = n as u64;
                }
            }
            [count, if count > 0 { 2 } else { 0 }, last]
        };
        let model = live::Fns { factorize: |n: usize| fact(n).into_iter(), about: |x: usize| [is_prime(x) as u64, if x >= 2 { lpf(x) as u64 } else { 0 }], primes_summary: || summary };
        let plan = live_plan(limit, small, refs.small.lpf.len() - 1, &lens, &is_prime);
        o.live_first = live::enumerate(&real_world!(&s, limit), &model, limit, &plan, &lens, &mut o.live);
    }
    o
}

fn consumed_replay(limit: usize, n: usize, refs: &Refs) -> Value {
    json!({"family": CONSUMED, "N": limit, "n": n, "reference": if refs.covers(limit) { "trial" } else { "eratosthenes" }, "history": []})
}

// ───────────────────────────── construction histories ─────────────────────────────

/// One construction on a thread.  `compare`: the full comparison (every query) is run on the sieve before
/// it is dropped; otherwise it is only constructed and dropped (a warm-up).
#[derive(Clone, Copy, PartialEq, Eq, Debug)]
struct Step {
    limit: usize,
    compare: bool,
}

fn warm_up(limit: usize) -> Step {
    Step { limit, compare: false }
}

fn compared(limit: usize) -> Step {
    Step { limit, compare: true }
}

fn steps_json(h: &[Step]) -> Value {
    Value::Array(h.iter().map(|s| json!({"N": s.limit, "compare": s.compare})).collect())
}

fn steps_parse(v: &Value) -> Result<Vec<Step>, String> {
    match v {
        Value::Null => Ok(vec![]),
        Value::Array(a) => a
            .iter()
            .map(|e| Ok(Step { limit: e["N"].as_u64().ok_or("replay: history entry without N")? as usize, compare: e["compare"].as_bool().unwrap_or(false) }))
            .collect(),
        _ => Err("replay: history is not a list".into()),
    }
}

/// Run `f` on a thread created for it (thread-local state of the code under test starts empty there).
fn on_fresh_thread<R: Send>(f: impl FnOnce() -> R + Send) -> R {
    std::thread::scope(|s| s.spawn(f).join()).unwrap_or_else(|_| {
        println!("MACHINERY-FAILURE engine=sieve a harness thread panicked outside the code under test");
        eprintln!("MACHINERY-FAILURE engine=sieve a harness thread panicked outside the code under test");
        std::process::exit(2)
    })
}

/// Limits up to this bound are compared with trial division, larger ones with the Eratosthenes table.
const TRIAL_MAX: usize = 1 << 16;

/// The references a sequence of steps needs: trial division up to `small` (at most TRIAL_MAX), Eratosthenes up to `big`.
struct Refs {
    small: SmallRef,
    spf: Vec<u32>,
}

impl Refs {
    fn for_steps(h: &[Step]) -> Refs {
        let cmp = || h.iter().filter(|s| s.compare).map(|s| s.limit);
        let small = cmp().filter(|&l| l <= TRIAL_MAX).max().unwrap_or(0);
        let big = cmp().filter(|&l| l > TRIAL_MAX).max();
        Refs { small: small_reference(small), spf: big.map_or(vec![], spf_eratosthenes) }
    }
    fn covers(&self, limit: usize) -> bool {
        limit < self.small.lpf.len()
    }
}

/// One step on the CURRENT thread: construct, compare if the step says so (sequentially, on this thread), drop.
fn exercise(st: Step, refs: &Refs) -> Outcome {
    if !st.compare {
        let _ = catch(|| Sieve::new(st.limit)); // a panic here is the verdict of that limit's own solo case
        return Outcome::default();
    }
    if refs.covers(st.limit) {
        check_small_limit(st.limit, &refs.small)
    } else {
        check_big_limit(st.limit, &refs.spf, 0)
    }
}

struct Schedule {
    name: &'static str,
    steps: Vec<Step>,
}

/// The explicit construction orders; each is run from start to end on one fresh thread.
fn schedules(max_small: usize, bigs: &[usize]) -> Vec<Schedule> {
    let ascending: Vec<Step> = (0..=max_small).map(compared).collect();
    let descending: Vec<Step> = ascending.iter().rev().copied().collect();
    let mut big_first = vec![warm_up(*bigs.last().unwrap())];
    big_first.extend(bigs.iter().rev().skip(1).map(|&b| compared(b)));
    big_first.extend(ascending.iter().copied());
    let mut alternating = vec![];
    let (mut lo, mut hi) = (0, max_small);
    while lo < hi {
        alternating.push(compared(lo));
        alternating.push(compared(hi));
        lo += 1;
        hi -= 1;
    }
    if lo == hi {
        alternating.push(compared(lo));
    }
    vec![
        Schedule { name: "ascending", steps: ascending },
        Schedule { name: "descending", steps: descending },
        Schedule { name: "big_first", steps: big_first },
        Schedule { name: "alternating", steps: alternating },
    ]
}

/// Where a failure was observed: after `prefix` had been executed on the same fresh thread.
struct Located<'a> {
    order: usize, // 0 = solo, 1.. = index of the schedule + 1
    prefix: &'a [Step],
    fail: Fail,
}

/// Does the recorded case fail when `history` and then the case are executed on a fresh thread?
fn reproduces_after(history: &[Step], case: &Value, refs: &Refs) -> bool {
    on_fresh_thread(|| {
        for &st in history {
            exercise(st, refs);
        }
        confirm_case(case).is_err()
    })
}

/// The shortest history (tried in a fixed order) after which the failure shows on a fresh thread; the whole
/// recorded prefix if none of the shorter ones does.
fn minimal_history(l: &Located, largest: usize, refs: &Refs) -> Vec<Step> {
    let mut candidates: Vec<Vec<Step>> = vec![vec![], vec![warm_up(l.fail.limit + 1)]];
    if let Some(&p) = l.prefix.last() {
        candidates.push(vec![p]);
    }
    if largest > l.fail.limit {
        candidates.push(vec![warm_up(largest)]);
    }
    candidates.into_iter().find(|c| reproduces_after(c, &l.fail.replay, refs)).unwrap_or_else(|| l.prefix.to_vec())
}

fn history_text(h: &[Step]) -> String {
    let one = |s: &Step| s.limit.to_string();
    if h.len() <= 3 {
        h.iter().map(one).collect::<Vec<_>>().join(",")
    } else {
        format!("{},{},..,{}(x{})", one(&h[0]), one(&h[1]), one(&h[h.len() - 1]), h.len())
    }
}

/// Attach the history to a failure: replay, signature and summary.
fn with_history(mut f: Fail, h: &[Step]) -> Fail {
    f.replay["history"] = steps_json(h);
    if !h.is_empty() {
        f.signature = format!("{},after=[{}]", f.signature, history_text(h));
        f.summary = format!(
            "on a thread that had constructed Sieve::new for the limits [{}] before (in that order, each dropped before the next) — {}",
            history_text(h),
            f.summary
        );
    }
    f
}

// ───────────────────────────── replay: one recorded case, no enumeration ─────────────────────────────

/// The recorded history and then the recorded case, on a watched thread created for this call: a call that
/// does not return is reported as such.
fn confirm(v: &Value) -> Result<(), String> {
    let history = steps_parse(&v["history"])?;
    let text = history_text(&history);
    let after = move |m: String| if text.is_empty() { m } else { format!("after constructing the limits [{text}] on the same thread: {m}") };
    let case = v.clone();
    let refs = Refs::for_steps(&history);
    let r = guard::call(move || {
        for &st in &history {
            guard::allow(big_step_allowance(st.limit));
            exercise(st, &refs);
            guard::checkpoint();
        }
        confirm_case(&case)
    });
    match r {
        Ok(r) => r.map_err(after),
        Err(h) if v["family"] == live::FAMILY => Err(after(format!(
            "Sieve::new({}): several iterators of one sieve alive at the same time: {}: {}",
            v["N"],
            live::Case::from_json(v).map_or("?".to_string(), |c| c.text()),
            h.text()
        ))),
        Err(h) => {
            let what = format!("Sieve::new({}): {}({})", v["N"], v["family"].as_str().unwrap_or("?").trim_end_matches("_consumed"), v["n"]);
            Err(after(if v["family"] == CONSUMED { format!("{what}: {}: {}", describe_notes(h.notes).2, h.text()) } else { format!("{what}: {}", h.text()) }))
        }
    }
}

/// Processor seconds a watched thread may spend on constructing (and, in a history, fully comparing) one
/// sieve of that limit: the default for the small limits, 5 microseconds per table entry on top.
fn big_step_allowance(limit: usize) -> f64 {
    guard::CPU_LIMIT_S + limit as f64 * 5e-6
}

/// One construction and one comparison on the current thread.
fn confirm_case(v: &Value) -> Result<(), String> {
    let family = v["family"].as_str().ok_or("replay: no family")?.to_string();
    let limit = v["N"].as_u64().ok_or("replay: no N")? as usize;
    let wrap = |m: String| format!("Sieve::new({limit}): {m}");
    guard::allow(big_step_allowance(limit));
    let s = match catch(|| Sieve::new(limit)) {
        Ok(s) => s,
        Err(p) => return Err(wrap(format!("constructor panicked: {p}"))),
    };
    guard::checkpoint();
    if family == "panic_on_new" {
        return Ok(());
    }
    if family == "primes_list" {
        // whole list against the reference that found it (trial division for small limits)
        guard::allow(big_step_allowance(limit));
        let expected: Vec<i32> = if v["reference"] == "trial" {
            (2..=limit as u64).filter(|&n| lpf_trial(n) == n).map(|n| n as i32).collect()
        } else {
            let spf = spf_eratosthenes(limit);
            (2..=limit).filter(|&n| spf[n] as usize == n).map(|n| n as i32).collect()
        };
        guard::checkpoint();
        return check_primes_list(&s, &expected).map_err(|(_, m)| wrap(m));
    }
    if family == live::FAMILY {
        return confirm_live(&s, limit, v).map_err(wrap);
    }
    let n = v["n"].as_u64().ok_or("replay: no n")? as usize;
    match family.as_str() {
        "is_prime" => check_is_prime(&s, n, n >= 2 && lpf_trial(n as u64) == n as u64).map_err(wrap),
        "min_prime" => {
            if n < 2 {
                return Err("replay: min_prime is only constrained for n >= 2".into());
            }
            check_min_prime(&s, n, lpf_trial(n as u64)).map_err(wrap)
        }
        "factorize" | CONSUMED => {
            if n < 1 {
                return Err("replay: factorize is only constrained for n >= 1".into());
            }
            // Safety walk with the real table before the real call: every entry on the division chain of n
            // must be a divisor >= 2 (then the chain strictly decreases to 1), and the entries for 1 and 0
            // must not let the loop run on at 0.
            let mut m = n;
            while m > 1 {
                match catch(|| s.min_prime(m as i32)) {
                    Ok(p) if p >= 2 && m % p as usize == 0 && p as u64 == lpf_trial(m as u64) => m /= p as usize,
                    Ok(p) => {
                        return Err(wrap(format!(
                            "factorize({n}) not executed: min_prime({m}) = {p} on its division chain is not the least prime factor {}",
                            lpf_trial(m as u64)
                        )))
                    }
                    Err(p) => return Err(wrap(format!("factorize({n}) not executed: min_prime({m}) panicked: {p}"))),
                }
            }
            if !factorize_cannot_spin(&s) {
                return Err(wrap(format!(
                    "factorize({n}) not executed: min_prime(0) = min_prime(1) >= 2, the division loop could run forever"
                )));
            }
            if family == CONSUMED {
                guard::note(3, n as u64);
                let rep = factorize_protocol(&s, n, &factor_trial(n as u64), true);
                return match rep.failures.first() {
                    None => Ok(()),
                    Some(f) => Err(wrap(format!("factorize({n}): {}{}", f.message, rep.others()))),
                };
            }
            check_factorize(&s, n, &factor_trial(n as u64)).map_err(wrap)
        }
        other => Err(format!("replay: unknown family {other}")),
    }
}

/// One recorded case of the several-live-iterators family on a sieve that was just constructed.
fn confirm_live(s: &Sieve, limit: usize, v: &Value) -> Result<(), String> {
    let case = live::Case::from_json(v)?;
    let all = matches!(case.shape, live::Shape::AllAlive { .. });
    if case.ns.iter().any(|&n| n < 1 || n > limit) || all && limit > TRIAL_MAX {
        return Err("replay: a number outside 1..=N (or all_alive on a big limit)".into());
    }
    // the reference of the replay: trial division (one Eratosthenes table for the prime count of a big limit)
    let is_prime = |n: usize| n >= 2 && lpf_trial(n as u64) == n as u64;
    let summary: [u64; 3] = if limit <= TRIAL_MAX {
        let ps: Vec<usize> = (2..=limit).filter(|&n| is_prime(n)).collect();
        [ps.len() as u64, ps.first().map_or(0, |&p| p as u64), ps.last().map_or(0, |&p| p as u64)]
    } else {
        guard::allow(big_step_allowance(limit));
        let spf = spf_eratosthenes(limit);
        let ps = (2..=limit).filter(|&n| spf[n] as usize == n);
        let r = [ps.clone().count() as u64, 2, ps.last().unwrap_or(0) as u64];
        guard::checkpoint();
        r
    };
    // safety walk with the real table before any real factorize call: every division chain that can be entered
    // (of the recorded numbers — the primes they hand out are on it; of every n for all_alive) must lead down to 1
    let numbers: Vec<usize> = if all { (1..=limit).collect() } else { case.ns.clone() };
    for &n in &numbers {
        let mut m = n;
        while m > 1 {
            match catch(|| s.min_prime(m as i32)) {
                Ok(p) if p >= 2 && m % p as usize == 0 && p as u64 == lpf_trial(m as u64) => m /= p as usize,
                _ => return Err(format!("factorize({n}) not executed: min_prime({m}) on its division chain is not the least prime factor {}", lpf_trial(m as u64))),
            }
        }
    }
    if !factorize_cannot_spin(s) {
        return Err("factorize not executed: min_prime(0) = min_prime(1) >= 2, the division loop could run forever".into());
    }
    let model = live::Fns { factorize: |n: usize| factor_trial(n as u64).into_iter(), about: |x: usize| [is_prime(x) as u64, if x >= 2 { lpf_trial(x as u64) } else { 0 }], primes_summary: || summary };
    let cap = case.ns.iter().map(|&n| factor_trial(n as u64).len()).sum::<usize>() + 4;
    match live::Judge::new().judge(&real_world!(s, limit), &model, limit, &case, cap) {
        None => Ok(()),
        Some(f) => Err(format!("several iterators of one sieve alive at the same time: {}", f.message)),
    }
}

// ───────────────────────────── main ─────────────────────────────

fn observed_sample(limit: usize, ns: &[usize]) -> Value {
    let r = catch(|| {
        let s = Sieve::new(limit);
        let pr = s.primes();
        let head: Vec<i32> = pr.iter().take(12).copied().collect();
        let tail: Vec<i32> = pr.iter().skip(pr.len().saturating_sub(3)).copied().collect();
        let mut ns: Vec<usize> = ns.iter().copied().filter(|&n| n <= limit).collect();
        ns.sort();
        ns.dedup();
        let per_n: Vec<Value> = ns
            .iter()
            .map(|&n| {
                // same protection as on the deciding path: walk the division chain with the real table first
                let mut safe = n >= 1 && factorize_cannot_spin(&s);
                let mut m = n;
                while safe && m > 1 {
                    let p = s.min_prime(m as i32);
                    safe = p >= 2 && m % p as usize == 0;
                    if safe {
                        m /= p as usize;
                    }
                }
                let f: Value = if safe { json!(s.factorize(n as i32).take(MAX_ITEMS).collect::<Vec<(i32, i32)>>()) } else { json!("not executed") };
                json!({"n": n, "is_prime": s.is_prime(n as i32), "min_prime": if n >= 2 { json!(s.min_prime(n as i32)) } else { Value::Null }, "factorize": f})
            })
            .collect();
        json!({"N": limit, "primes_len": pr.len(), "primes_first": head, "primes_last": tail, "observed": per_n})
    });
    r.unwrap_or_else(|p| json!({"N": limit, "panicked": p}))
}

fn main() {
    let args = Args::parse();
    quiet_panics();
    if args.replay.is_some() {
        Run::replay_main(&args, &confirm);
    }
    let mut run = Run::new(&args, "sieve", "exploration");
    let max_small: usize = args.tier.pick(1500, 4096);
    // (limit, known number of primes <= limit); ascending
    let bigs: Vec<(usize, usize)> = args.tier.pick(vec![(1_000_000, 78_498), (10_000_000, 664_579)], vec![(1_000_000, 78_498), (10_000_000, 664_579), (1 << 25, 2_063_689)]);
    let big: usize = bigs.last().unwrap().0;

    // references and their self-checks (independent of the code under test)
    let sref = small_reference(max_small);
    let spf = spf_eratosthenes(big);
    for n in 2..=max_small {
        if spf[n] as u64 != sref.lpf[n] {
            run.machinery_failure(&format!("the two references disagree on the least prime factor of {n}"));
        }
    }
    let mut pi_bigs = 0u64;
    for &(b, pi_known) in &bigs {
        let pi_b = (2..=b).filter(|&n| spf[n] as usize == n).count();
        if pi_b != pi_known {
            run.machinery_failure(&format!("reference Eratosthenes sieve counts {pi_b} primes <= {b}, the known value is {pi_known}"));
        }
        pi_bigs += pi_b as u64;
    }
    {
        // strided cross-check of the Eratosthenes table against trial division over the whole big range
        let stride = 997;
        let bad = (2..=big).step_by(stride).collect::<Vec<_>>().par_iter().find_first(|&&n| lpf_trial(n as u64) != spf[n] as u64).copied();
        if let Some(n) = bad {
            run.machinery_failure(&format!("reference Eratosthenes table wrong at {n}"));
        }
    }

    let big_list: Vec<usize> = bigs.iter().map(|b| b.0).collect();
    // the references live as long as the process: watched worker threads that may be abandoned read them
    let refs: &'static Refs = Box::leak(Box::new(Refs { small: sref, spf }));
    let (sref, spf) = (&refs.small, &refs.spf);
    let scheds = schedules(max_small, &big_list);

    // ── the iterator protocol of factorize: first, on watched threads, every limit a first construction ──
    let (watchdog_self_test_s, watchdog_clock) = guard::self_test();
    if let Err(m) = protocol::self_check() {
        run.machinery_failure(&format!("iterator protocol self-check: {m}"));
    }
    if let Err(m) = live::self_check() {
        run.machinery_failure(&format!("self-check of the several-live-iterators family: {m}"));
    }
    // the quick tier consumes the iterators of the smallest big limit only (one job builds a big table and
    // scans it for the exponent shapes on a single thread; the biggest limit would be the whole pass's tail)
    let proto_bigs: Vec<usize> = big_list.iter().copied().take(args.tier.pick(1, big_list.len())).collect();
    let proto_limits: Vec<usize> = (0..=max_small).chain(proto_bigs.iter().copied()).collect();
    let pl = proto_limits.clone();
    let (proto, proto_hang) = guard::map(proto_limits.len(), 1, true, move |idx| protocol_limit(pl[idx], refs)).completed();
    let mut proto_cases = [0u64; N_USES];
    let (mut proto_inputs, mut proto_top_repeated, mut proto_3plus, mut proto_behind, mut proto_longest, mut proto_failing_limits) = (0u64, 0u64, 0u64, 0u64, 0usize, 0u64);
    let mut proto_traits = [false; 3];
    let mut proto_skipped: Vec<(usize, &str)> = vec![];
    let mut proto_big_inputs = serde_json::Map::new();
    let mut proto_first: Option<Violation> = None;
    let mut live_counts = live::Counts::default();
    let (mut live_first, mut live_failing_limits, mut live_limits): (Option<Violation>, u64, u64) = (None, 0, 0);
    for o in &proto {
        live_counts.merge(&o.live);
        live_limits += (o.live.cases() > 0) as u64;
        if let Some(f) = &o.live_first {
            live_failing_limits += 1;
            live_first.get_or_insert_with(|| {
                Violation::new(
                    format!("{}:N={},{}", live::FAMILY, o.limit, f.case.short()),
                    format!("Sieve::new({}): several iterators of one sieve alive at the same time: {}", o.limit, f.message),
                    f.case.to_json(o.limit, if refs.covers(o.limit) { "trial" } else { "eratosthenes" }),
                )
            });
        }
        if let Some(why) = o.skipped {
            proto_skipped.push((o.limit, why));
        }
        proto_inputs += o.inputs;
        proto_top_repeated += o.inputs_largest_prime_repeated;
        proto_3plus += o.inputs_with_3_or_more_items;
        proto_behind += o.behind_the_end;
        proto_longest = proto_longest.max(o.longest);
        for (a, b) in proto_cases.iter_mut().zip(o.cases) {
            *a += b;
        }
        for t in 0..3 {
            proto_traits[t] |= o.traits[t];
        }
        if o.limit > max_small {
            proto_big_inputs.insert(o.limit.to_string(), json!(o.inputs));
        }
        if let Some((n, f)) = &o.first {
            proto_failing_limits += 1;
            proto_first.get_or_insert_with(|| {
                Violation::new(
                    format!("{CONSUMED}:N={},n={n}:pre={}:{}", o.limit, f.pre, f.short),
                    format!("Sieve::new({}): factorize({n}): {}", o.limit, f.message),
                    consumed_replay(o.limit, *n, refs),
                )
            });
        }
    }
    if let Some(mut v) = proto_first {
        v.summary = format!("{} [{proto_failing_limits} limits with a failing n in the protocol pass]", v.summary);
        run.violation(v);
    }
    if let Some(mut v) = live_first {
        v.summary = format!("{} [{live_failing_limits} limits with a failing case of this family]", v.summary);
        run.violation(v);
    }
    let proto_total: u64 = proto_cases.iter().sum();
    if let Some(h) = &proto_hang {
        let (limit, n) = (proto_limits[h.index], h.notes[3] as usize);
        if let Some(case) = live::Case::from_notes(h.notes) {
            // stuck inside a case of the several-live-iterators family
            let what = format!("Sieve::new({limit}): several iterators of one sieve alive at the same time: {}", case.text());
            run.violation(Violation::new(format!("{}:N={limit},{}", live::FAMILY, case.short()), format!("{what}: {}", h.text()), case.to_json(limit, if refs.covers(limit) { "trial" } else { "eratosthenes" })));
            run.cov("evaluations", proto_total);
            run.cov("distinct_nontrivial", 0u64);
            run.cov("exhaustive", false);
            run.cov("rule", format!("the enumeration was abandoned at a call into the crate that does not return ({what}); what it had found until then is reported, nothing is claimed about the rest"));
            run.sample(json!({"abandoned at": what}));
            run.finish(&confirm);
        }
        let (short, pre, long) = describe_notes(h.notes);
        let what = if n == 0 { format!("Sieve::new({limit}) or the reading of its min_prime table") } else { format!("Sieve::new({limit}): factorize({n}): {long}") };
        let sig = if n == 0 { format!("{CONSUMED}:N={limit}:construction") } else { format!("{CONSUMED}:N={limit},n={n}:pre={pre}:{short}") };
        // a construction that does not return is replayed as the constructor's own family
        let replay = if n == 0 { json!({"family": "panic_on_new", "N": limit, "n": Value::Null, "reference": "trial", "history": []}) } else { consumed_replay(limit, n, refs) };
        run.violation(Violation::new(sig, format!("{what}: {}", h.text()), replay));
        run.cov("evaluations", proto_total);
        run.cov("distinct_nontrivial", 0u64);
        run.cov("exhaustive", false);
        run.cov("rule", format!("the enumeration was abandoned at a call into the crate that does not return ({what}); what it had found until then is reported, nothing is claimed about the rest"));
        run.sample(json!({"abandoned at": what}));
        run.finish(&confirm);
    }
    let proto_per: serde_json::Map<String, Value> = USE_NAMES.iter().zip(proto_cases).filter(|(_, c)| *c > 0).map(|(u, c)| (u.to_string(), json!(c))).collect();
    run.cov(
        "iterator_protocol_factorize",
        json!({
            "limits": proto.len(), "limits_skipped_because_the_table_is_another_family_s_verdict": proto_skipped.len(),
            "inputs_N_n": proto_inputs, "inputs_of_the_big_limits": proto_big_inputs, "inputs_whose_largest_prime_is_repeated": proto_top_repeated,
            "inputs_with_3_or_more_items": proto_3plus, "longest_sequence": proto_longest, "cases": proto_total, "cases_per_way_of_consuming": proto_per,
            "cases_aiming_behind_the_end": proto_behind, "limits_with_a_failing_n": proto_failing_limits,
            "PrimeIter_shows_DoubleEnded_ExactSize_Fused": proto_traits, "ways_of_consuming": USE_NAMES,
            "watchdog": {"clock": watchdog_clock, "processor_seconds_allowed_per_step": guard::CPU_LIMIT_S, "extra_processor_seconds_per_table_entry_for_a_construction": 5e-6,
                         "wall_seconds_allowed_per_step": guard::WALL_LIMIT_S, "self_test": "a spinning call was reported, a returning call and a 64-index map were not",
                         "self_test_s": (watchdog_self_test_s * 1000.0).round() / 1000.0},
        }),
    );

    run.cov(
        "several_live_iterators_of_one_sieve",
        json!({
            "limits": live_limits, "limits_with_every_ordered_pair_of_1..=N": LIVE_ALL_PAIRS.min(max_small), "limits_with_every_ordered_triple_of_1..=N": LIVE_ALL_TRIPLES.min(max_small),
            "ordered_pairs_(a,b)": live_counts.tuples_of_2, "ordered_triples": live_counts.tuples_of_3,
            "interleavings_of_two_iterators": live_counts.schedules_of_2, "interleavings_of_three_iterators": live_counts.schedules_of_3,
            "interleavings_of_two_iterators_with_the_other_methods_called_after_every_event": live_counts.schedules_with_queries,
            "longest_interleaving_(events)": live_counts.longest_schedule, "cases_of_std_adaptors_over_two_or_three_live_iterators": live_counts.compound_cases,
            "all_alive_cases": live_counts.all_alive_cases, "iterators_created_before_the_first_item_was_taken_in_the_all_alive_cases": live_counts.all_alive_iterators,
            "cases_in_which_a_later_factorize_finds_an_earlier_iterator_unfinished": live_counts.cases_with_an_unfinished_iterator_at_a_later_factorize,
            "cases": live_counts.cases(), "limits_with_a_failing_case": live_failing_limits,
            "self_test": "a mock sieve whose iterators read a scratch buffer owned by the sieve was flagged at ns = [1, 2] and by every adaptor; one whose iterators own their data passed",
        }),
    );

    // Every construction below happens on a thread created for it, so what that thread constructed before is
    // known exactly: nothing (solo) or the schedule's prefix.  The four schedule threads run alongside the
    // solo passes.  A sieve is only ever used by the thread that constructed it (see `big_limit_replicas`).
    let (outcomes, big_outcomes, sched_outcomes): (Vec<Outcome>, Vec<Outcome>, Vec<Vec<Outcome>>) = std::thread::scope(|sc| {
        let handles: Vec<_> = scheds.iter().map(|s| sc.spawn(|| s.steps.iter().map(|&st| exercise(st, &refs)).collect::<Vec<Outcome>>())).collect();
        // solo, every small limit
        let outcomes: Vec<Outcome> = (0..=max_small).into_par_iter().map(|limit| on_fresh_thread(|| check_small_limit(limit, sref))).collect();
        // solo, the big limits (one table of the reference serves all: the least prime factor does not depend on N)
        let big_outcomes: Vec<Outcome> = big_list.iter().map(|&b| check_big_limit(b, spf, big_limit_replicas(b))).collect();
        let sched_outcomes = handles
            .into_iter()
            .map(|h| h.join().unwrap_or_else(|_| run.machinery_failure("a schedule thread panicked outside the code under test")))
            .collect();
        (outcomes, big_outcomes, sched_outcomes)
    });

    let mut total = Counters::default();
    let mut located: Vec<Located> = vec![];
    let (mut lim_prime, mut lim_sq, mut lim_pq, mut lim_next_composite, mut lim_next_prime) = (0u64, 0u64, 0u64, 0u64, 0u64);
    let mut limits_compared = 0u64;
    for (limit, o) in outcomes.iter().enumerate() {
        total.merge(&o.c);
        located.extend(o.fails.iter().map(|f| Located { order: 0, prefix: &[], fail: f.clone() }));
        if o.has("panic_on_new") {
            continue;
        }
        limits_compared += 1;
        let f = &sref.fact[limit];
        match f.as_slice() {
            [(_, 1)] => lim_prime += 1,
            [(_, 2)] => lim_sq += 1,
            [(_, 1), (_, 1)] => lim_pq += 1,
            _ => {}
        }
        if limit + 1 >= 4 && limit + 1 <= max_small {
            if sref.lpf[limit + 1] == (limit + 1) as u64 {
                lim_next_prime += 1;
            } else {
                lim_next_composite += 1;
            }
        }
    }
    let small_counters = total.clone();

    let mut big_counters = Counters::default();
    for ob in &big_outcomes {
        big_counters.merge(&ob.c);
        located.extend(ob.fails.iter().map(|f| Located { order: 0, prefix: &[], fail: f.clone() }));
    }
    total.merge(&big_counters);
    let solo_counters = total.clone();

    // the schedules: counters per schedule, and what preceded each compared construction
    let mut sched_cov = vec![];
    let mut want_pairs_sched = 0u64;
    let (mut after_larger, mut after_smaller, mut larger_earlier): (BTreeSet<usize>, BTreeSet<usize>, BTreeSet<usize>) = Default::default();
    let (mut steps_after_larger, mut steps_after_smaller, mut warm_ups) = (0u64, 0u64, 0u64);
    let mut sched_limits_with_failure = 0u64;
    for (si, (s, outs)) in scheds.iter().zip(&sched_outcomes).enumerate() {
        let mut c = Counters::default();
        let mut smalls_compared: BTreeSet<usize> = BTreeSet::new();
        let mut largest_so_far = 0usize;
        for (pos, (st, o)) in s.steps.iter().zip(outs).enumerate() {
            let largest_before = largest_so_far;
            largest_so_far = largest_so_far.max(st.limit);
            c.merge(&o.c);
            located.extend(o.fails.iter().map(|f| Located { order: si + 1, prefix: &s.steps[..pos], fail: f.clone() }));
            sched_limits_with_failure += (!o.fails.is_empty()) as u64;
            if !st.compare {
                warm_ups += 1;
                continue;
            }
            want_pairs_sched += st.limit as u64 + 1;
            if st.limit <= max_small && !o.has("panic_on_new") {
                smalls_compared.insert(st.limit);
            }
            if largest_before > st.limit {
                larger_earlier.insert(st.limit);
            }
            if pos > 0 {
                let prev = s.steps[pos - 1].limit;
                if prev > st.limit {
                    steps_after_larger += 1;
                    after_larger.insert(st.limit);
                } else if prev < st.limit {
                    steps_after_smaller += 1;
                    after_smaller.insert(st.limit);
                }
            }
        }
        if located.is_empty() && smalls_compared.len() != max_small + 1 {
            run.machinery_failure(&format!("schedule {} did not build and compare every small limit", s.name));
        }
        sched_cov.push(json!({"schedule": s.name, "constructions": s.steps.len(), "first": steps_json(&s.steps[..3.min(s.steps.len())]), "last": s.steps.last().map(|x| x.limit), "evaluations": c.evaluations(), "pairs_N_n": c.pairs}));
        total.merge(&c);
    }

    // per family the failure with the smallest (N, n), the earliest pass among equals; then its shortest history
    let mut first: Vec<Fail> = vec![];
    for fam in FAMILIES {
        if let Some(l) = located.iter().filter(|l| l.fail.family == fam).min_by_key(|l| (l.fail.limit, l.fail.n, l.order)) {
            let h = minimal_history(l, big, &refs);
            first.push(with_history(l.fail.clone(), &h));
        }
    }
    for f in &first {
        run.violation(Violation::new(f.signature.clone(), f.summary.clone(), f.replay.clone()));
    }
    let limits_with_failure = outcomes.iter().chain(&big_outcomes).filter(|o| !o.fails.is_empty()).count() as u64 + sched_limits_with_failure;

    run.cov("evaluations", total.evaluations() + proto_total + live_counts.cases());
    run.cov("distinct_nontrivial", lim_prime + lim_sq + lim_pq);
    let max_small_m1 = max_small - 1;
    run.cov(
        "rule",
        format!(
            "every limit N in 0..={max_small} (each a fresh Sieve::new(N)) x every n in 0..=N: is_prime(n); min_prime(n) for n>=2; factorize(n) for n>=1; primes() whole list — against trial division; plus every N in {big_list:?} element by element (is_prime, min_prime, factorize for every n<=N, primes()) against a plain Eratosthenes sieve. The constructor is not assumed pure: every construction happens on a dedicated thread whose construction history is part of the case. Pass 'solo': each limit (small and big) is the first construction of a thread created for it. Then four schedules, each executed from start to end on one fresh thread with the full comparison after every construction and the sieve dropped before the next: 'ascending' 0..={max_small}; 'descending' {max_small}..=0; 'big_first' (Sieve::new({big}) constructed and dropped, then the other big limits in descending order, then 0..={max_small}); 'alternating' 0,{max_small},1,{max_small_m1},… . So every small limit is compared 5 times: as a first construction, right after N-1, right after N+1, after a big limit, and after a distant smaller/larger one. A failure is reported with the shortest history that reproduces it on a fresh thread (tried in this order: none; N+1 constructed and dropped; the recorded predecessor; the largest limit constructed and dropped; the whole recorded prefix), the replay re-executes that history on a fresh thread. The whole enumeration is run a second time in a build with debug assertions and integer overflow checks (an overflow panic on an in-domain n is a violation there). evaluations = calls of the real code compared with the reference (constructor + is_prime + min_prime + primes() + factorize calls). distinct_nontrivial = number of distinct small limits N, built and compared, whose last table entry N is a prime, a prime square p^2 or a product p*q of two distinct primes (classified by the trial-division reference): the limits where the last outer iteration appends a prime, or where the last composite is written at the very edge of the table by the cut-off `prime*i >= len`. ITERATOR PROTOCOL of factorize (family factorize_consumed; run first, on watched threads; its cases are counted in evaluations): the comparisons above read the iterator factorize(n) hands out with next() only; an iterator type can override any provided method of Iterator (fold, nth, count, last, size_hint, ...) and std's adaptors are built on those, so for every limit (each the first construction of a fresh thread, its min_prime table verified first) factorize(n) is consumed in every std way and each observation list must equal the one the plain Vec iterator over the reference factorisation gives: next() to the end with size_hint() bounds before every call and three calls behind the first None (which may only yield items of the factorisation); fold, for_each, count, last, sum and product (into a harness type, order-sensitive digest), min, max, reduce, collect into Vec / BTreeSet / HashSet, eq, zip, chain().fold, peekable, fuse; nth(k) [+ size_hint after it], skip(k) pulled and skip(k).fold, by_ref().take(k) then the rest, all / any / find / position of the item k ahead (then next()), step_by(1,2,3,5) — each on a fresh iterator and after j next() calls, for every pair j <= j+k <= length+1 (a factorisation has at most 8 items); every way stops at the first None it is handed; rev / next_back / rfold / nth_back and len() are compared too if PrimeIter implements DoubleEndedIterator / ExactSizeIterator. Protocol inputs (N, n): every n in 1..=N for every limit N <= {ALL_N_UPTO} and for N = {max_small}; the last {TAIL} n for the limits between (the table entries written last); for each big limit in {proto_bigs:?} every n <= {EDGE}, the last {EDGE} n, and the smallest and the largest n <= N of every exponent shape (sequence of exponents in the order of the primes) — so every shape, with the largest prime repeated or not, occurs. WATCHDOG: a call of the protocol pass or of a replay that uses more than {cpu} s of its own processor time (constructions: plus 5 microseconds per table entry; or {wall} s of wall time) without returning is reported as a violation 'does not terminate' for the smallest such limit, the rest of the enumeration is abandoned,  and the replay reports the same. SEVERAL ITERATORS ALIVE AT ONCE (family factorize_live; run in the protocol pass, on the same sieve, after every single iterator of the limit was found right; its cases are counted in evaluations): factorize(&self) hands out an iterator that borrows the sieve, so any number of them may be alive at once and the other methods may be called meanwhile; each must yield the factorisation of ITS OWN n. Every case is a small program run on the real sieve and on plain Vec iterators over the reference factorisations, the observation lists must be equal. (a) schedules: k = 2 or 3 iterators for an ordered tuple of numbers; event i = `factorize(ns[i])` the first time, `next()` on that iterator afterwards, every iterator pulled until it has handed out its None; EVERY interleaving of the k event sequences with the iterators created in index order (tuples are ordered, so every creation order occurs) — this contains create-all-then-consume (chain, zip), lock step, and the nested loop (an inner iterator created and drained between two next() of the outer one); for pairs a second time with is_prime / min_prime of the numbers involved and of N and length / first / last of primes() observed after every event. (b) std adaptors over live iterators: chain pulled and folded, zip, eq, cmp, lt, nested for loops (inner: factorize(b) / factorize(the prime just handed out)), flat_map pulled and folded, two-pointer merge through peekable, j items of a then all of b through fold then the rest of a through fold (every j), a created - b created - b folded - a folded; for triples chain.chain.fold and zip.zip. (c) all_alive: an iterator for every n in 1..=N created first, then drained in reverse order of creation / round robin. Tuples: every ordered pair of 1..=N for N <= {LIVE_ALL_PAIRS}, every ordered triple for N <= {LIVE_ALL_TRIPLES}; for the other small limits the ordered pairs of {{1, N-1, N}} (the table entries written last); for N = {max_small} and the big limits {proto_bigs:?} the ordered pairs of {{1, 2, the largest 2^k, the largest n with the most distinct primes (big limits: the largest primorial), the largest prime, N-1, N}}; all_alive for every small limit. THREADS: no Sieve (and no iterator) is shared between threads or moved to another thread — neither Sync nor Send is needed from the crate's types; every thread that needs a sieve constructs it itself (the comparison of a big limit is split over threads that each build the limit as their first construction)"
            , cpu = guard::CPU_LIMIT_S, wall = guard::WALL_LIMIT_S
        ),
    );
    run.cov("exhaustive", true);
    run.cov("small_limit_max", max_small as u64);
    run.cov("big_limit", big as u64);
    run.cov("big_limits", json!(big_list));
    run.cov("big_limits_factorize_max_distinct_primes", big_counters.max_distinct_primes);
    run.cov("big_limits_factorize_max_exponent", big_counters.max_exponent);
    run.cov("limits_built", total.news);
    run.cov("limits_built_solo", solo_counters.news);
    run.cov("big_limit_constructions_solo_replicas_included", solo_counters.big_limit_constructions);
    run.cov("threads_sharing_the_comparison_of_a_big_limit_each_with_a_sieve_of_its_own", json!(big_list.iter().map(|&b| big_limit_replicas(b)).collect::<Vec<_>>()));
    run.cov("schedules", json!(sched_cov));
    run.cov("schedule_warm_up_constructions_not_compared", warm_ups);
    run.cov("schedule_constructions_right_after_a_larger_limit", steps_after_larger);
    run.cov("schedule_constructions_right_after_a_smaller_limit", steps_after_smaller);
    run.cov("distinct_limits_compared_right_after_a_larger_limit", after_larger.len() as u64);
    run.cov("distinct_limits_compared_right_after_a_smaller_limit", after_smaller.len() as u64);
    run.cov("distinct_limits_compared_with_a_larger_limit_earlier_on_the_thread", larger_earlier.len() as u64);
    run.cov("limits_compared_small", limits_compared);
    run.cov("limits_with_a_failure", limits_with_failure);
    run.cov("pairs_N_n", total.pairs);
    run.cov("pairs_N_n_small", small_counters.pairs);
    run.cov("calls_is_prime", total.is_prime);
    run.cov("calls_min_prime", total.min_prime);
    run.cov("calls_factorize", total.factorize);
    run.cov("calls_primes_list", total.primes_list);
    run.cov("primes_list_elements_compared", total.primes_list_elements);
    run.cov("factorize_items_compared", total.factorize_items);
    run.cov("factorize_distinct_exponent_shapes", total.shapes.len() as u64);
    run.cov("factorize_max_exponent", total.max_exponent);
    run.cov("factorize_max_distinct_primes", total.max_distinct_primes);
    run.cov("factorize_skipped_limits_min_prime_wrong", total.factorize_skipped_min_prime_wrong);
    run.cov("factorize_skipped_limits_table_could_spin", total.factorize_skipped_table_could_spin);
    run.cov("skipped_out_of_domain", total.skipped_out_of_domain);
    run.cov("skipped_out_of_domain_note", "min_prime(0), min_prime(1) and factorize(0) per limit: not constrained by the statement, never compared");
    run.cov("small_limits_N_prime", lim_prime);
    run.cov("small_limits_N_prime_square", lim_sq);
    run.cov("small_limits_N_semiprime_pq", lim_pq);
    run.cov("small_limits_table_len_N_plus_1_composite", lim_next_composite);
    run.cov("small_limits_table_len_N_plus_1_prime", lim_next_prime);
    run.cov("reference_prime_count_big_limits_total", pi_bigs);

    // samples (VERIF_SEED only rotates which ones are printed)
    let rot = (args.seed % 64) as usize;
    for &limit in &[1usize, 4, 9 + rot, 120 + rot, max_small - rot] {
        run.sample(observed_sample(limit, &[0, 1, 2, limit.saturating_sub(1), limit]));
    }
    run.assume("several live iterators: the interleavings are exhaustive for two and three iterators on the stated tuples of numbers; four or more are covered only by the all_alive cases (creation of all, then two fixed orders of consumption); iterators are always pulled to their None, an iterator dropped half-way while another one lives occurs only between cases");
    run.assume("the iterator protocol of factorize is run on the (N, n) family stated in `rule` and in the solo setting only (first construction of a fresh thread), not after the construction schedules");
    run.assume("a call into the crate that never returns cannot be told from a very slow one without a clock: the watchdog's verdict 'does not terminate' means 'used more than the stated processor time of its own thread (per-thread clock of the kernel, so machine load does not count)'; the passes that read factorize with next() only are not watched — they run after the protocol pass has consumed the same iterators under the watchdog");
    run.assume("state of the code under test that is shared between threads (process-wide statics) is not modelled: a construction's history is what its own thread constructed before");
    run.sample(observed_sample(big, &[1, 2, 720_720 + rot, 999_983, 1 << 19, 9_699_690, 1 << 23, big - 1, big]));

    // a table that could make factorize spin was never exercised: no verdict possible on that clause
    if !run.has_violations() {
        if let Some((limit, why)) = proto_skipped.first() {
            run.machinery_failure(&format!("the protocol pass did not consume factorize for limit {limit} ({why}) although no other family reports a violation"));
        }
        let want_inputs: u64 = (0..=max_small).map(|l| small_protocol_family(l, max_small).len() as u64).sum::<u64>() + proto_big_inputs.values().filter_map(|v| v.as_u64()).sum::<u64>();
        if proto.len() != max_small + 1 + proto_bigs.len() || proto_inputs != want_inputs || proto_cases[..protocol::ORD_BACK].iter().any(|&c| c == 0) || proto_behind == 0 || proto_top_repeated < 100 || proto_longest < 7 || proto_big_inputs.values().any(|v| v.as_u64().unwrap_or(0) < 2 * EDGE as u64) {
            run.machinery_failure("the protocol pass of factorize is vacuous or incomplete");
        }
        let want_pairs_live: u64 = (1..=max_small).map(|l| if l <= LIVE_ALL_PAIRS { (l * l) as u64 } else { 9 }).sum();
        if live_limits != (max_small + proto_bigs.len()) as u64 || live_counts.tuples_of_2 < want_pairs_live || live_counts.schedules_of_3 == 0 || live_counts.all_alive_cases != 2 * max_small as u64 || live_counts.longest_schedule < 12 || live_counts.cases_with_an_unfinished_iterator_at_a_later_factorize * 2 < live_counts.cases() {
            run.machinery_failure("the several-live-iterators family is vacuous or incomplete");
        }
        if total.factorize_skipped_table_could_spin > 0 {
            run.machinery_failure("min_prime(0) = min_prime(1) >= 2 for some limit: factorize could not be executed safely, no verdict");
        }
        // non-vacuity
        let want_pairs: u64 = (0..=max_small as u64).map(|n| n + 1).sum::<u64>() + big_list.iter().map(|&b| b as u64 + 1).sum::<u64>();
        if solo_counters.pairs != want_pairs || total.pairs != want_pairs + want_pairs_sched {
            run.machinery_failure(&format!("compared {} (N,n) pairs, expected {}", total.pairs, want_pairs + want_pairs_sched));
        }
        let sched_steps: u64 = scheds.iter().map(|s| s.steps.len() as u64).sum();
        if solo_counters.news != (max_small + 1 + bigs.len()) as u64 || limits_compared != max_small as u64 + 1 || total.news != solo_counters.news + sched_steps - warm_ups {
            run.machinery_failure("not every limit was built and compared");
        }
        // every small limit was compared with a larger construction somewhere before it, right after a larger
        // one (except the largest small limit) and right after a smaller one (except 0)
        if larger_earlier.range(..=max_small).count() != max_small + 1 || after_larger.range(..=max_small).count() != max_small || after_smaller.range(..=max_small).count() != max_small || warm_ups == 0 {
            run.machinery_failure("the schedules did not put a larger and a smaller construction before every small limit");
        }
        if total.factorize != total.pairs - total.news {
            run.machinery_failure("factorize was not compared for every n >= 1 of every limit");
        }
        if lim_prime < 100 || lim_sq < 10 || lim_pq < 100 || lim_next_composite < 100 || lim_next_prime < 100 {
            run.machinery_failure("limits adjacent to primes / prime squares / semiprimes were not all visited");
        }
        if small_counters.max_exponent < 10 || small_counters.max_distinct_primes < 4 || total.shapes.len() < 50 {
            run.machinery_failure("factorisations with high exponents / several distinct primes were not seen");
        }
        // the factorisation shapes that only exist near 10^7: 2*3*5*7*11*13*17*19 and 2^23
        if big_counters.max_distinct_primes < 8 || big_counters.max_exponent < 23 {
            run.machinery_failure("the big limits did not reach a factorisation with 8 distinct primes / exponent 23");
        }
        if total.primes_list_elements < pi_bigs {
            run.machinery_failure("prime lists were not compared");
        }
    }
    if std::env::var("VCORE_CHILD").is_err() {
        // the same enumeration in a build with debug assertions and overflow checks
        run.run_dbg_child();
    }
    run.finish(&confirm)
}
