//! The iterator protocol: whatever std way an iterator handed out by the library is consumed in, the caller
//! must see the reference sequence.
//! (This file is kept identical in /verif/harness/iter/src and /verif/harness/sieve/src.)
//!
//! `consume` runs ONE way of consuming on any `Iterator`; `judge` runs every way on the real iterator and on
//! the plain `Vec` iterator over the reference sequence and demands equal observation lists.  An iterator type
//! may override any provided method of `Iterator` (`fold`, `nth`, `count`, `last`, `size_hint`, `min`, …) and
//! the adaptors of std are built on those (`skip` and `step_by` on `nth`; `for_each`, `sum`, `count`, `last`,
//! `max`, `unzip`, `HashSet::from_iter`, `Chain::fold`, `Skip::fold` on `fold`), so a sequence that is right
//! under `next()` can be wrong under every one of them.
//!
//! What is NOT demanded: anything about calls made after the iterator has returned `None` once (std leaves
//! that open unless the type implements `FusedIterator`), except that it never yields an item that is not in
//! the reference sequence.  Every way of consuming therefore stops at the first `None` it is handed.
//! `size_hint` is only held to its contract: lower bound <= items left <= upper bound.

use crate::guard;
use std::collections::{BTreeSet, HashSet};
use std::fmt::Debug;
use std::hash::{Hash, Hasher};
use std::iter::FusedIterator;
use std::marker::PhantomData;
use vcore::catch;

pub trait Item: Clone + Ord + Hash + Debug {}
impl<T: Clone + Ord + Hash + Debug> Item for T {}

/// One observation.
#[derive(Clone, PartialEq, Eq)]
pub enum Ob<T> {
    It(T),
    /// a `None` handed out by the iterator / adaptor / method
    End,
    Num(u64),
    Flag(bool),
}

impl<T: Debug> Debug for Ob<T> {
    fn fmt(&self, f: &mut std::fmt::Formatter<'_>) -> std::fmt::Result {
        match self {
            Ob::It(x) => write!(f, "{x:?}"),
            Ob::End => write!(f, "None"),
            Ob::Num(n) => write!(f, "#{n}"),
            Ob::Flag(b) => write!(f, "{b}"),
        }
    }
}

fn opt<T>(x: Option<T>) -> Ob<T> {
    x.map_or(Ob::End, Ob::It)
}

/// sequences up to this length get every (calls before, argument) pair; longer ones a grid of marks
pub const FULL_GRID_MAX: usize = 8;
pub const STEPS: [usize; 4] = [1, 2, 3, 5];
const TOO_MANY: &str = "the iteration does not end: more items were handed out than the reference sequence has (stopped by the harness)";
const HARD_CAP: u64 = 1 << 22;

pub const USE_NAMES: [&str; 31] = [
    "next_and_size_hint",
    "fold",
    "for_each",
    "count",
    "last",
    "sum",
    "product",
    "min",
    "max",
    "reduce",
    "collect_vec",
    "collect_btreeset",
    "collect_hashset",
    "eq",
    "nth",
    "size_hint_after_nth",
    "skip",
    "skip_fold",
    "step_by",
    "take_then_rest",
    "all",
    "any",
    "find",
    "position",
    "zip",
    "chain_fold",
    "peekable",
    "fuse",
    "double_ended",
    "exact_size",
    "fused_promise",
];
pub const N_USES: usize = USE_NAMES.len();
const ORD_WALK: usize = 0;
const ORD_HINT_AFTER_NTH: usize = 15;
pub const ORD_BACK: usize = 28;
pub const ORD_LEN: usize = 29;

/// One way of consuming an iterator that has already yielded `pre` items through `next()`.
#[derive(Clone, Copy, Debug, PartialEq, Eq)]
pub enum Use {
    Fold,
    ForEach,
    Count,
    Last,
    Sum,
    Product,
    Min,
    Max,
    Reduce,
    CollectVec,
    CollectBTreeSet,
    CollectHashSet,
    EqRef,
    Nth(usize),
    Skip(usize),
    SkipFold(usize),
    StepBy(usize),
    Take(usize),
    /// the argument of the four searches is the position (counted from the current one) of the item searched
    /// for; a position behind the end searches for an item that never comes
    All(usize),
    Any(usize),
    Find(usize),
    Position(usize),
    Zip,
    Chain,
    Peekable,
    Fuse,
}

const SINGLES: [Use; 17] = [
    Use::Fold,
    Use::ForEach,
    Use::Count,
    Use::Last,
    Use::Sum,
    Use::Product,
    Use::Min,
    Use::Max,
    Use::Reduce,
    Use::CollectVec,
    Use::CollectBTreeSet,
    Use::CollectHashSet,
    Use::EqRef,
    Use::Zip,
    Use::Chain,
    Use::Peekable,
    Use::Fuse,
];

impl Use {
    /// index into `USE_NAMES`
    pub fn ord(self) -> usize {
        match self {
            Use::Fold => 1,
            Use::ForEach => 2,
            Use::Count => 3,
            Use::Last => 4,
            Use::Sum => 5,
            Use::Product => 6,
            Use::Min => 7,
            Use::Max => 8,
            Use::Reduce => 9,
            Use::CollectVec => 10,
            Use::CollectBTreeSet => 11,
            Use::CollectHashSet => 12,
            Use::EqRef => 13,
            Use::Nth(_) => 14,
            Use::Skip(_) => 16,
            Use::SkipFold(_) => 17,
            Use::StepBy(_) => 18,
            Use::Take(_) => 19,
            Use::All(_) => 20,
            Use::Any(_) => 21,
            Use::Find(_) => 22,
            Use::Position(_) => 23,
            Use::Zip => 24,
            Use::Chain => 25,
            Use::Peekable => 26,
            Use::Fuse => 27,
        }
    }

    fn arg(self) -> usize {
        match self {
            Use::Nth(k) | Use::Skip(k) | Use::SkipFold(k) | Use::StepBy(k) | Use::Take(k) | Use::All(k) | Use::Any(k) | Use::Find(k) | Use::Position(k) => k,
            _ => 0,
        }
    }

    /// compact, for signatures
    pub fn short(self) -> String {
        short_of(self.ord(), self.arg())
    }

    /// what the observation list holds
    pub fn long(self) -> String {
        match self {
            Use::Fold => "fold() collecting the items in the order they are handed to the closure".into(),
            Use::ForEach => "for_each() collecting the items in the order they are handed to the closure".into(),
            Use::Count => "[count()]".into(),
            Use::Last => "[last()]".into(),
            Use::Sum => "sum() into a harness type: [number of items, order-sensitive digest of the items]".into(),
            Use::Product => "product() into a harness type: [number of items, order-sensitive digest of the items]".into(),
            Use::Min => "[min()]".into(),
            Use::Max => "[max()]".into(),
            Use::Reduce => "[reduce() with an order-sensitive choice between the two items]".into(),
            Use::CollectVec => "collect::<Vec<_>>()".into(),
            Use::CollectBTreeSet => "collect::<BTreeSet<_>>(): [size, members ascending]".into(),
            Use::CollectHashSet => "collect::<HashSet<_>>(): [size, members ascending]".into(),
            Use::EqRef => "[eq(the rest of the reference sequence)]".into(),
            Use::Nth(k) => format!("[nth({k}), next(), nth({k}), next()] up to the first None"),
            Use::Skip(k) => format!("the items of skip({k}) pulled with next() up to the first None"),
            Use::SkipFold(k) => format!("skip({k}).fold() collecting the items"),
            Use::StepBy(s) => format!("the items of step_by({s}) pulled with next() up to the first None"),
            Use::Take(k) => format!("by_ref().take({k}).collect::<Vec<_>>(), its length, then (if {k} items came) the rest pulled with next()"),
            Use::All(t) => format!("[all(item != the item {t} positions ahead), then next() if it stopped early]"),
            Use::Any(t) => format!("[any(item == the item {t} positions ahead), then next() if it stopped early]"),
            Use::Find(t) => format!("[find(the item {t} positions ahead), then next() if it was found]"),
            Use::Position(t) => format!("[position(the item {t} positions ahead), then next() if it was found]"),
            Use::Zip => "zip(0..) pulled with next(): item, index, item, index, …".into(),
            Use::Chain => "chain(None).fold() collecting the items".into(),
            Use::Peekable => "peekable(): [peek(), next()] repeated up to the first None".into(),
            Use::Fuse => "fuse() pulled with next() up to the first None, then two more next()".into(),
        }
    }
}

fn short_of(ord: usize, arg: usize) -> String {
    match ord {
        ORD_WALK => "next()".into(),
        14 => format!("nth({arg})"),
        ORD_HINT_AFTER_NTH => format!("nth({arg}).size_hint()"),
        16 => format!("skip({arg})"),
        17 => format!("skip({arg}).fold()"),
        18 => format!("step_by({arg})"),
        19 => format!("by_ref().take({arg})+rest"),
        20 => format!("all(!=item+{arg})"),
        21 => format!("any(==item+{arg})"),
        22 => format!("find(item+{arg})"),
        23 => format!("position(item+{arg})"),
        24 => "zip(0..)".into(),
        25 => "chain(None).fold()".into(),
        26 => "peekable()".into(),
        27 => "fuse()".into(),
        ORD_BACK => "next_back()/rev()/rfold()".into(),
        ORD_LEN => "len()".into(),
        o if o < N_USES => format!("{}()", USE_NAMES[o]),
        _ => "?".into(),
    }
}

/// The consumption a stuck job was in, from the notes it published: (compact, sentence).
pub fn describe_notes(notes: [u64; 4]) -> (String, usize, String) {
    let (ord, arg, pre) = (notes[0] as usize, notes[1] as usize, notes[2] as usize);
    let short = short_of(ord, arg);
    let long = if ord == ORD_WALK {
        format!("next() call number {} (counting from 1, none of the earlier ones went wrong)", pre + 1)
    } else {
        format!("after {pre} next() calls, {short}")
    };
    (short, if ord == ORD_WALK { 0 } else { pre }, long)
}

// ---------------------------------------------------------------------------------------------------
// digest types: `sum` / `product` are called on the iterator itself with a harness type as the result

struct Fnv(u64);

impl Hasher for Fnv {
    fn write(&mut self, bytes: &[u8]) {
        for &b in bytes {
            self.0 ^= b as u64;
            self.0 = self.0.wrapping_mul(0x100000001b3);
        }
    }
    fn finish(&self) -> u64 {
        self.0
    }
}

fn key<T: Hash>(x: &T) -> u64 {
    let mut h = Fnv(0xcbf29ce484222325);
    x.hash(&mut h);
    h.finish()
}

pub struct Digest {
    n: u64,
    h: u64,
}

fn digest_of<T: Hash>(it: impl Iterator<Item = T>, seed: u64) -> Digest {
    it.fold(Digest { n: 0, h: seed }, |d, x| {
        if d.n > HARD_CAP {
            panic!("{}", TOO_MANY);
        }
        Digest { n: d.n + 1, h: d.h.wrapping_mul(1_000_003).wrapping_add(key(&x)) }
    })
}

impl<T: Hash> std::iter::Sum<T> for Digest {
    fn sum<I: Iterator<Item = T>>(it: I) -> Digest {
        digest_of(it, 1)
    }
}

impl<T: Hash> std::iter::Product<T> for Digest {
    fn product<I: Iterator<Item = T>>(it: I) -> Digest {
        digest_of(it, 2)
    }
}

// ---------------------------------------------------------------------------------------------------

fn pull<I: Iterator>(mut it: I, cap: usize, out: &mut Vec<Ob<I::Item>>) {
    loop {
        match it.next() {
            Some(x) => {
                out.push(Ob::It(x));
                if out.len() > cap + 4 {
                    return; // more than the reference has: the lists differ already
                }
            }
            None => {
                out.push(Ob::End);
                return;
            }
        }
    }
}

fn fold_list<I: Iterator>(it: I, cap: usize, out: &mut Vec<Ob<I::Item>>) {
    let v = it.fold(Vec::new(), |mut v, x| {
        if v.len() > cap {
            panic!("{}", TOO_MANY);
        }
        v.push(x);
        v
    });
    out.extend(v.into_iter().map(Ob::It));
}

/// What the consumption observes, in order, written to `out`.  `cap`: the length of the reference sequence
/// plus a margin — bounds what is collected from an iterator that does not end.  `target`: the item the four
/// searches look for (None: an item that never comes).  `rest`: what the reference says is left after `pre`.
pub fn consume<I>(mut it: I, pre: usize, u: Use, cap: usize, target: Option<&I::Item>, rest: &[I::Item], out: &mut Vec<Ob<I::Item>>)
where
    I: Iterator,
    I::Item: Item,
{
    out.clear();
    for _ in 0..pre {
        it.next();
    }
    match u {
        Use::Fold => fold_list(it, cap, out),
        Use::ForEach => {
            let mut v = Vec::new();
            it.for_each(|x| {
                if v.len() > cap {
                    panic!("{}", TOO_MANY);
                }
                v.push(x)
            });
            out.extend(v.into_iter().map(Ob::It));
        }
        Use::Count => out.push(Ob::Num(it.count() as u64)),
        Use::Last => out.push(opt(it.last())),
        Use::Sum => {
            let d: Digest = it.sum();
            out.extend([Ob::Num(d.n), Ob::Num(d.h)]);
        }
        Use::Product => {
            let d: Digest = it.product();
            out.extend([Ob::Num(d.n), Ob::Num(d.h)]);
        }
        Use::Min => out.push(opt(it.min())),
        Use::Max => out.push(opt(it.max())),
        Use::Reduce => out.push(opt(it.reduce(|a, b| if key(&b) & 1 == 1 { b } else { a }))),
        Use::CollectVec => out.extend(it.collect::<Vec<_>>().into_iter().map(Ob::It)),
        Use::CollectBTreeSet => {
            let s: BTreeSet<I::Item> = it.collect();
            out.push(Ob::Num(s.len() as u64));
            out.extend(s.into_iter().map(Ob::It));
        }
        Use::CollectHashSet => {
            let s: HashSet<I::Item> = it.collect();
            let mut v: Vec<I::Item> = s.into_iter().collect();
            v.sort();
            out.push(Ob::Num(v.len() as u64));
            out.extend(v.into_iter().map(Ob::It));
        }
        Use::EqRef => out.push(Ob::Flag(it.eq(rest.iter().cloned()))),
        Use::Nth(k) => {
            for step in 0..4 {
                let x = if step % 2 == 0 { it.nth(k) } else { it.next() };
                let end = x.is_none();
                out.push(opt(x));
                if end {
                    break;
                }
            }
        }
        Use::Skip(k) => pull(it.skip(k), cap, out),
        Use::SkipFold(k) => fold_list(it.skip(k), cap, out),
        Use::StepBy(s) => pull(it.step_by(s), cap, out),
        Use::Take(k) => {
            let first: Vec<I::Item> = it.by_ref().take(k).collect();
            let full = first.len() == k;
            out.extend(first.into_iter().map(Ob::It));
            out.push(Ob::Num(out.len() as u64));
            if full {
                pull(it, cap, out);
            }
        }
        Use::All(_) => {
            let r = it.all(|x| Some(&x) != target);
            out.push(Ob::Flag(r));
            if !r {
                out.push(opt(it.next()));
            }
        }
        Use::Any(_) => {
            let r = it.any(|x| Some(&x) == target);
            out.push(Ob::Flag(r));
            if r {
                out.push(opt(it.next()));
            }
        }
        Use::Find(_) => {
            let r = it.find(|x| Some(x) == target);
            let hit = r.is_some();
            out.push(opt(r));
            if hit {
                out.push(opt(it.next()));
            }
        }
        Use::Position(_) => {
            let r = it.position(|x| Some(&x) == target);
            out.push(r.map_or(Ob::End, |p| Ob::Num(p as u64)));
            if r.is_some() {
                out.push(opt(it.next()));
            }
        }
        Use::Zip => {
            for (x, i) in it.zip(0u64..) {
                out.push(Ob::It(x));
                out.push(Ob::Num(i));
                if out.len() > 2 * cap + 8 {
                    return;
                }
            }
            out.push(Ob::End);
        }
        Use::Chain => fold_list(it.chain(None), cap, out),
        Use::Peekable => {
            let mut p = it.peekable();
            loop {
                out.push(opt(p.peek().cloned()));
                let x = p.next();
                let end = x.is_none();
                out.push(opt(x));
                if end || out.len() > 2 * cap + 8 {
                    break;
                }
            }
        }
        Use::Fuse => {
            let mut f = it.fuse();
            pull(f.by_ref(), cap, out);
            out.push(opt(f.next()));
            out.push(opt(f.next()));
        }
    }
}

/// (numbers of `next()` calls made first, positions aimed at) — positions run up to l + 1, i.e. one and two
/// behind the last item.  Sequences of at most `FULL_GRID_MAX` items get all of them; longer ones 0..=3, the
/// last three items, the end, one and two behind it, and the three positions around every mark.
pub fn grid(l: usize, marks: &[usize]) -> (Vec<usize>, Vec<usize>) {
    let ts: Vec<usize> = if l <= FULL_GRID_MAX {
        (0..=l + 1).collect()
    } else {
        let mut v: Vec<usize> = vec![0, 1, 2, 3, l - 3, l - 2, l - 1, l, l + 1];
        for &m in marks {
            v.extend([m.saturating_sub(1), m, m + 1]);
        }
        v.retain(|&t| t <= l + 1);
        v.sort();
        v.dedup();
        v
    };
    let js = ts.iter().copied().filter(|&j| j <= l).collect();
    (js, ts)
}

#[derive(Clone, Debug)]
pub struct Failure {
    /// index into `USE_NAMES`
    pub ord: usize,
    pub pre: usize,
    pub short: String,
    pub message: String,
}

/// What judging one iterator (one input) did.
#[derive(Clone, Debug)]
pub struct Report {
    /// cases compared per entry of `USE_NAMES`
    pub cases: [u64; N_USES],
    pub len: usize,
    #[allow(dead_code)] // read by the engines that have sequences longer than the full-grid bound
    pub full_grid: bool,
    /// nth / skip / take / search cases that aim behind the end
    pub behind_the_end: u64,
    /// the first failure (enumeration order: calls before, then the way of consuming, then its argument); in
    /// `all` mode the first failure of every way of consuming
    pub failures: Vec<Failure>,
    /// implemented by the iterator type as the caller sees it: DoubleEndedIterator, ExactSizeIterator, FusedIterator
    pub traits: [bool; 3],
}

impl Report {
    pub fn optional(&mut self, ord: usize, r: Option<Result<u64, String>>) {
        match r {
            None => {}
            Some(r) => {
                self.traits[ord - ORD_BACK] = true;
                match r {
                    Ok(n) => self.cases[ord] += n,
                    Err(message) => {
                        self.cases[ord] += 1;
                        self.failures.push(Failure { ord, pre: 0, short: short_of(ord, 0), message });
                    }
                }
            }
        }
    }

    /// ", also wrong on this input: …" for the summary of a replay
    pub fn others(&self) -> String {
        if self.failures.len() <= 1 {
            return String::new();
        }
        let l: Vec<String> = self.failures[1..].iter().map(|f| format!("{} after {} next()", f.short, f.pre)).collect();
        format!(" [ways of consuming that also go wrong on this input, first case of each: {}]", l.join("; "))
    }
}

fn short_list<T: Debug>(v: &[Ob<T>]) -> String {
    if v.len() <= 14 {
        format!("{v:?}")
    } else {
        format!("{:?} and {} more", &v[..14], v.len() - 14)
    }
}

/// `next()` to exhaustion with `size_hint()` before every call, then three more calls.
fn walk<I, F>(mk: &F, reference: &[I::Item], promises_fused: bool) -> Result<(), String>
where
    F: Fn() -> I,
    I: Iterator,
    I::Item: Item,
{
    let l = reference.len();
    let r = catch(|| {
        let mut it = mk();
        for j in 0..=l {
            guard::note(2, j as u64);
            let left = l - j;
            let (lo, hi) = it.size_hint();
            if lo > left || hi.is_some_and(|h| h < left) {
                return Err(format!("after {j} next() calls size_hint() = ({lo}, {hi:?}) but {left} items are left"));
            }
            let x = it.next();
            if x.as_ref() != reference.get(j) {
                return Err(format!("next() call number {} gave {:?}, the reference sequence ({l} items) gives {:?}", j + 1, x, reference.get(j)));
            }
        }
        for extra in 1..=3 {
            guard::note(2, (l + extra) as u64);
            if let Some(x) = it.next() {
                if promises_fused {
                    return Err(format!("the type implements FusedIterator, but next() call number {extra} after the first None gave {x:?}"));
                }
                if !reference.contains(&x) {
                    return Err(format!("next() call number {extra} after the first None gave {x:?}, which is not an item of the reference sequence at all"));
                }
            }
        }
        Ok(())
    });
    match r {
        Ok(r) => r,
        Err(p) => Err(format!("next() / size_hint() panicked: {p}")),
    }
}

/// Every way of consuming the iterator `mk()` hands out must observe `reference`.
/// `all`: go on after a failure and record the first failure of every way of consuming (for a replay).
pub fn judge<I, F>(mk: &F, reference: &[I::Item], marks: &[usize], promises_fused: bool, all: bool) -> Report
where
    F: Fn() -> I,
    I: Iterator,
    I::Item: Item,
{
    let l = reference.len();
    let cap = l + 2;
    let mut rep = Report { cases: [0; N_USES], len: l, full_grid: l <= FULL_GRID_MAX, behind_the_end: 0, failures: vec![], traits: [false, false, promises_fused] };
    guard::checkpoint();
    for c in 0..3 {
        guard::note(c, 0);
    }
    rep.cases[ORD_WALK] += (l + 4) as u64;
    if let Err(message) = walk(mk, reference, promises_fused) {
        // nothing else is judged on an input whose next() sequence is wrong
        rep.failures.push(Failure { ord: ORD_WALK, pre: 0, short: short_of(ORD_WALK, 0), message });
        return rep;
    }
    let (js, ts) = grid(l, marks);
    let mut failed = [false; N_USES];
    let (mut exp, mut got): (Vec<Ob<I::Item>>, Vec<Ob<I::Item>>) = (vec![], vec![]);
    for &j in &js {
        guard::note(2, j as u64);
        let rest = &reference[j..];
        let mut uses: Vec<Use> = SINGLES.to_vec();
        uses.extend(STEPS.iter().map(|&s| Use::StepBy(s)));
        for &t in ts.iter().filter(|&&t| t >= j) {
            let k = t - j;
            uses.extend([Use::Nth(k), Use::Skip(k), Use::SkipFold(k), Use::Take(k), Use::All(k), Use::Any(k), Use::Find(k), Use::Position(k)]);
        }
        uses.sort_by_key(|u| u.ord()); // stable: arguments stay ascending
        for u in uses {
            let ord = u.ord();
            if failed[ord] {
                continue;
            }
            // one consumption = one step for the watchdog
            guard::checkpoint();
            guard::note(0, ord as u64);
            guard::note(1, u.arg() as u64);
            rep.cases[ord] += 1;
            let aims_at = j + u.arg();
            if !matches!(u, Use::StepBy(_)) && ord >= 14 && ord <= 23 && aims_at >= l {
                rep.behind_the_end += 1;
            }
            let target = if ord >= 20 && ord <= 23 { reference.get(aims_at) } else { None };
            consume(rest.iter().cloned(), 0, u, cap, target, rest, &mut exp);
            let verdict = match catch(|| consume(mk(), j, u, cap, target, rest, &mut got)) {
                Ok(()) if got == exp => None,
                Ok(()) => Some(format!("after {j} next() calls, {}: observed {}, the reference sequence ({l} items) gives {}", u.long(), short_list(&got), short_list(&exp))),
                Err(p) => Some(format!("after {j} next() calls, {}: panicked: {p}; the reference sequence ({l} items) gives {}", u.long(), short_list(&exp))),
            };
            if let Some(message) = verdict {
                rep.failures.push(Failure { ord, pre: j, short: u.short(), message });
                failed[ord] = true;
                if !all {
                    return rep;
                }
            }
            // size_hint() right after an nth() that found its item
            if let Use::Nth(k) = u {
                if aims_at < l && !failed[ORD_HINT_AFTER_NTH] {
                    guard::checkpoint();
                    guard::note(0, ORD_HINT_AFTER_NTH as u64);
                    rep.cases[ORD_HINT_AFTER_NTH] += 1;
                    let left = l - aims_at - 1;
                    let r = catch(|| {
                        let mut it = mk();
                        for _ in 0..j {
                            it.next();
                        }
                        it.nth(k);
                        it.size_hint()
                    });
                    let bad = match r {
                        Ok((lo, hi)) if lo > left || hi.is_some_and(|h| h < left) => Some(format!("after {j} next() calls and nth({k}) size_hint() = ({lo}, {hi:?}) but {left} items are left")),
                        Ok(_) => None,
                        Err(p) => Some(format!("after {j} next() calls, nth({k}) then size_hint() panicked: {p}")),
                    };
                    if let Some(message) = bad {
                        rep.failures.push(Failure { ord: ORD_HINT_AFTER_NTH, pre: j, short: short_of(ORD_HINT_AFTER_NTH, k), message });
                        failed[ORD_HINT_AFTER_NTH] = true;
                        if !all {
                            return rep;
                        }
                    }
                }
            }
        }
    }
    rep
}

// ---------------------------------------------------------------------------------------------------
// traits the iterator type may implement on top of Iterator.  Whether it does is decided where the concrete
// type is known (macro `protocol_case!`), by method resolution: the `…Yes` impls exist only for types with the
// trait and are preferred, the `…No` impls on the reference catch the rest.  For an `impl Iterator` return
// type the caller can name no other trait, so these checks are compiled out for it.

pub struct Probe<'a, I, F: Fn() -> I>(pub &'a F, PhantomData<I>);

impl<'a, I, F: Fn() -> I> Probe<'a, I, F> {
    pub fn new(f: &'a F) -> Self {
        Probe(f, PhantomData)
    }
}

pub trait BackYes<T> {
    fn back_check(&self, reference: &[T]) -> Option<Result<u64, String>>;
}
pub trait BackNo<T> {
    fn back_check(&self, _reference: &[T]) -> Option<Result<u64, String>> {
        None
    }
}
impl<I: Iterator, F: Fn() -> I> BackNo<I::Item> for &Probe<'_, I, F> {}

impl<I, F> BackYes<I::Item> for Probe<'_, I, F>
where
    I: DoubleEndedIterator,
    F: Fn() -> I,
    I::Item: Item,
{
    fn back_check(&self, reference: &[I::Item]) -> Option<Result<u64, String>> {
        let l = reference.len();
        let cap = l + 2;
        let reversed: Vec<I::Item> = reference.iter().rev().cloned().collect();
        let mk = self.0;
        let r = catch(|| {
            let mut cases = 0u64;
            let mut got = vec![];
            pull(mk().rev(), cap, &mut got);
            let mut exp: Vec<Ob<I::Item>> = reversed.iter().cloned().map(Ob::It).collect();
            exp.push(Ob::End);
            cases += 1;
            if got != exp {
                return Err(format!("rev() pulled with next() gave {}, the reversed reference sequence gives {}", short_list(&got), short_list(&exp)));
            }
            got.clear();
            exp.pop();
            cases += 1;
            let v = mk().rfold(Vec::new(), |mut v, x| {
                if v.len() > cap {
                    panic!("{}", TOO_MANY);
                }
                v.push(x);
                v
            });
            got.extend(v.into_iter().map(Ob::It));
            if got != exp {
                return Err(format!("rfold() handed out {}, the reversed reference sequence gives {}", short_list(&got), short_list(&exp)));
            }
            // j items from the front, then alternately back / front until the first None
            for j in 0..=l.min(FULL_GRID_MAX) {
                cases += 1;
                let (mut it, mut model) = (mk(), reference.iter().cloned());
                for _ in 0..j {
                    it.next();
                    model.next();
                }
                for step in 0..=l {
                    let (a, b) = if step % 2 == 0 { (it.next_back(), model.next_back()) } else { (it.next(), model.next()) };
                    if a != b {
                        return Err(format!("after {j} next() calls, call number {} of alternating next_back() / next() gave {a:?}, the reference sequence gives {b:?}", step + 1));
                    }
                    if a.is_none() {
                        break;
                    }
                }
            }
            for k in 0..=(l + 1).min(FULL_GRID_MAX) {
                cases += 1;
                let (a, b) = (mk().nth_back(k), reference.iter().cloned().nth_back(k));
                if a != b {
                    return Err(format!("nth_back({k}) gave {a:?}, the reference sequence gives {b:?}"));
                }
            }
            Ok(cases)
        });
        Some(r.unwrap_or_else(|p| Err(format!("a DoubleEndedIterator method panicked: {p}"))))
    }
}

pub trait LenYes<T> {
    fn len_check(&self, reference: &[T]) -> Option<Result<u64, String>>;
}
pub trait LenNo<T> {
    fn len_check(&self, _reference: &[T]) -> Option<Result<u64, String>> {
        None
    }
}
impl<I: Iterator, F: Fn() -> I> LenNo<I::Item> for &Probe<'_, I, F> {}

impl<I, F> LenYes<I::Item> for Probe<'_, I, F>
where
    I: ExactSizeIterator,
    F: Fn() -> I,
    I::Item: Item,
{
    fn len_check(&self, reference: &[I::Item]) -> Option<Result<u64, String>> {
        let l = reference.len();
        let mk = self.0;
        let r = catch(|| {
            let mut it = mk();
            for j in 0..=l {
                // len() itself asserts that size_hint() is exact
                let n = it.len();
                if n != l - j {
                    return Err(format!("after {j} next() calls len() = {n} but {} items are left", l - j));
                }
                it.next();
            }
            Ok(l as u64 + 1)
        });
        Some(r.unwrap_or_else(|p| Err(format!("len() panicked: {p}"))))
    }
}

#[allow(dead_code)] // used only when an iterator type of the crate implements FusedIterator
pub trait FusedYes {
    fn promises_fused(&self) -> bool;
}
pub trait FusedNo {
    fn promises_fused(&self) -> bool {
        false
    }
}
impl<I: Iterator, F: Fn() -> I> FusedNo for &Probe<'_, I, F> {}
impl<I: FusedIterator, F: Fn() -> I> FusedYes for Probe<'_, I, F> {
    fn promises_fused(&self) -> bool {
        true
    }
}

/// Judge the iterator `$mk()` hands out against `$reference`: every way of consuming, plus what the type
/// promises on top of `Iterator` as far as the caller can see.  Must be expanded where the iterator's type is
/// concrete (not inside a function generic over it).
macro_rules! protocol_case {
    ($mk:expr, $reference:expr, $marks:expr, $all:expr) => {{
        #[allow(unused_imports)]
        use $crate::protocol::{BackNo, BackYes, FusedNo, FusedYes, LenNo, LenYes};
        let mk = $mk;
        let reference: &[_] = $reference;
        let probe = $crate::protocol::Probe::new(&mk);
        let fused = (&probe).promises_fused();
        let mut rep = $crate::protocol::judge(&mk, reference, $marks, fused, $all);
        if rep.failures.is_empty() || ($all && rep.failures[0].ord != 0) {
            $crate::guard::checkpoint();
            $crate::guard::note(0, $crate::protocol::ORD_BACK as u64);
            rep.optional($crate::protocol::ORD_BACK, (&probe).back_check(reference));
            $crate::guard::checkpoint();
            $crate::guard::note(0, $crate::protocol::ORD_LEN as u64);
            rep.optional($crate::protocol::ORD_LEN, (&probe).len_check(reference));
        }
        rep
    }};
}
pub(crate) use protocol_case;

// ---------------------------------------------------------------------------------------------------
// self-check of this module: deliberately wrong iterator types must be flagged in the right place

#[derive(Clone, Copy, PartialEq, Eq, Debug)]
enum Flaw {
    None,
    FoldDropsFirst,
    NthOffByOneWhenFresh,
    HintTooLarge,
    CountOneMore,
    ForeignItemAfterEnd,
}

struct Flawed {
    v: std::vec::IntoIter<u32>,
    fresh: bool,
    flaw: Flaw,
}

impl Iterator for Flawed {
    type Item = u32;
    fn next(&mut self) -> Option<u32> {
        self.fresh = false;
        match self.v.next() {
            None if self.flaw == Flaw::ForeignItemAfterEnd => Some(99),
            x => x,
        }
    }
    fn size_hint(&self) -> (usize, Option<usize>) {
        let n = self.v.len();
        if self.flaw == Flaw::HintTooLarge && n == 1 {
            (2, None)
        } else {
            (n, Some(n))
        }
    }
    fn fold<B, G: FnMut(B, u32) -> B>(mut self, init: B, g: G) -> B {
        if self.flaw == Flaw::FoldDropsFirst {
            self.v.next();
        }
        self.v.fold(init, g)
    }
    fn nth(&mut self, k: usize) -> Option<u32> {
        let fresh = std::mem::replace(&mut self.fresh, false);
        if self.flaw == Flaw::NthOffByOneWhenFresh && fresh && k >= 2 {
            return self.v.nth(k - 1);
        }
        self.v.nth(k)
    }
    fn count(self) -> usize {
        self.v.count() + (self.flaw == Flaw::CountOneMore) as usize
    }
}

impl DoubleEndedIterator for Flawed {
    fn next_back(&mut self) -> Option<u32> {
        self.v.next_back()
    }
}
impl ExactSizeIterator for Flawed {}

/// Err(what went wrong) if the protocol does not separate a correct iterator type from flawed ones.
pub fn self_check() -> Result<(), String> {
    let reference: Vec<u32> = vec![5, 3, 8, 1, 7];
    let expect: [(Flaw, Option<usize>); 6] = [
        (Flaw::None, None),
        (Flaw::FoldDropsFirst, Some(1)),
        (Flaw::NthOffByOneWhenFresh, Some(14)),
        (Flaw::HintTooLarge, Some(ORD_WALK)),
        (Flaw::CountOneMore, Some(3)),
        (Flaw::ForeignItemAfterEnd, Some(ORD_WALK)),
    ];
    for (flaw, want) in expect {
        let r = reference.clone();
        let rep = protocol_case!(move || Flawed { v: r.clone().into_iter(), fresh: true, flaw }, &reference, &[2], false);
        let got = rep.failures.first().map(|f| f.ord);
        if got != want {
            return Err(format!("flaw {flaw:?}: first failure in {:?}, expected {:?}", got.map(|o| USE_NAMES[o]), want.map(|o| USE_NAMES[o])));
        }
        if flaw == Flaw::None && rep.traits != [true, true, false] {
            return Err("DoubleEndedIterator / ExactSizeIterator of a named type were not detected".into());
        }
        if flaw == Flaw::None && (rep.cases.iter().take(ORD_LEN + 1).any(|&c| c == 0) || rep.behind_the_end == 0) {
            return Err(format!("a way of consuming was not exercised: {:?}", rep.cases));
        }
    }
    // an opaque type shows no further trait
    fn opaque(v: Vec<u32>) -> impl Iterator<Item = u32> {
        v.into_iter()
    }
    let rep = protocol_case!(|| opaque(reference.clone()), &reference, &[], false);
    if !rep.failures.is_empty() || rep.traits != [false, false, false] {
        return Err("an opaque correct iterator was not accepted as such".into());
    }
    // the long-sequence grid
    let long: Vec<u32> = (0..40).collect();
    let (js, ts) = grid(long.len(), &[20]);
    if js != vec![0, 1, 2, 3, 19, 20, 21, 37, 38, 39, 40] || ts.last() != Some(&41) {
        return Err("the grid of marks is not what the rule text says".into());
    }
    let rep = protocol_case!(|| Flawed { v: long.clone().into_iter(), fresh: true, flaw: Flaw::NthOffByOneWhenFresh }, &long, &[20], true);
    if rep.failures.iter().map(|f| f.ord).collect::<Vec<_>>() != vec![14, 15, 16, 17] {
        return Err(format!("a flawed nth() must show in nth, size_hint after nth, skip and skip().fold(): {:?}", rep.failures.iter().map(|f| USE_NAMES[f.ord]).collect::<Vec<_>>()));
    }
    Ok(())
}
