//! Watchdog for calls into the code under test that may not return.
//! (This file is kept identical in /verif/harness/iter/src and /verif/harness/sieve/src.)
//!
//! A call that loops forever cannot be decided by enumeration; it is turned into a VERDICT ("does not
//! terminate") instead of a hung check or an exit 2:
//!
//! * `map(n, …, job)` runs `job(0..n)` on worker threads of its own that pull indices in ascending order from
//!   one counter, while the calling thread only coordinates and watches.  A worker that stays inside ONE index
//!   (one step of it, if the job marks steps with `checkpoint()`) for `CPU_LIMIT_S` seconds of its OWN processor time (read from /proc/self/task/<tid>/schedstat, so a
//!   loaded machine cannot fake it; every case of these engines takes micro- to milliseconds) — or for
//!   `WALL_LIMIT_S` seconds of wall time without returning, which also covers a blocked thread and a system
//!   without /proc — is abandoned (it keeps spinning until the process exits), no index above it is started,
//!   every index below it still completes (or is found stuck too), workers inside a larger index are not waited
//!   for, and the SMALLEST stuck index is reported.
//!   Because indices are handed out in order and the code under test is deterministic, that index does not
//!   depend on timing.
//! * `call(f)` runs one closure on a thread of its own under the same rule (used by `--replay`, so a replay
//!   of a non-terminating case ends with the same verdict instead of hanging).
//! * a job that consists of several steps calls `checkpoint()` between them (the limits then hold per step), and
//!   announces a step that is big by construction (building a table of 10^7 entries) with `allow(seconds)`.
//! * the running job publishes where it is with `note(cell, value)`; the notes of a stuck job come back in
//!   `Hang::notes`, so the verdict names the call that did not return.

use std::cell::RefCell;
use std::sync::atomic::{AtomicU64, AtomicUsize, Ordering};
use std::sync::{mpsc, Arc};
use std::time::{Duration, Instant};

/// processor time one index / one guarded call may use before it is declared non-terminating
pub const CPU_LIMIT_S: f64 = 1.0;
/// wall time one index / one guarded call may take without returning (blocked thread, no /proc)
pub const WALL_LIMIT_S: f64 = 45.0;
const TICK: Duration = Duration::from_millis(20);
/// a case is looked at only after it has been running this long
const GRACE: Duration = Duration::from_millis(100);

fn die(msg: &str) -> ! {
    println!("MACHINERY-FAILURE engine-watchdog {msg}");
    eprintln!("MACHINERY-FAILURE engine-watchdog {msg}");
    std::process::exit(2)
}

struct Slot {
    /// odd while a case is running; bumped at every start and end
    epoch: AtomicU64,
    index: AtomicU64,
    notes: [AtomicU64; 4],
    /// kernel thread id of the thread running the case (0 = unknown)
    tid: AtomicU64,
    /// processor milliseconds the running job asked for beyond the default (0 = none); reset with the epoch
    allow_ms: AtomicU64,
}

impl Slot {
    fn new() -> Arc<Slot> {
        Arc::new(Slot { epoch: AtomicU64::new(0), index: AtomicU64::new(0), notes: Default::default(), tid: AtomicU64::new(0), allow_ms: AtomicU64::new(0) })
    }
    fn begin(&self, index: usize) {
        self.index.store(index as u64, Ordering::Relaxed);
        for n in &self.notes {
            n.store(0, Ordering::Relaxed);
        }
        self.allow_ms.store(0, Ordering::Relaxed);
        self.epoch.fetch_add(1, Ordering::Release);
    }
    fn end(&self) {
        self.epoch.fetch_add(1, Ordering::Release);
    }
    fn notes(&self) -> [u64; 4] {
        [0, 1, 2, 3].map(|i| self.notes[i].load(Ordering::Relaxed))
    }
}

thread_local! {
    static CUR: RefCell<Option<Arc<Slot>>> = const { RefCell::new(None) };
}

/// Publish where the running job is (no effect on a thread that is not guarded).
#[inline]
pub fn note(cell: usize, value: u64) {
    CUR.with(|c| {
        if let Some(s) = c.borrow().as_ref() {
            s.notes[cell].store(value, Ordering::Relaxed);
        }
    })
}

/// The running job has reached a new step: the watchdog's clocks start again (the notes stay).
#[inline]
pub fn checkpoint() {
    CUR.with(|c| {
        if let Some(s) = c.borrow().as_ref() {
            s.allow_ms.store(0, Ordering::Relaxed);
            s.epoch.fetch_add(2, Ordering::Release);
        }
    })
}

/// The step the running job is about to take is a big one (a table of millions of entries): allow it this
/// much processor time instead of the default.  Holds until the next `checkpoint` / the end of the job.
#[allow(dead_code)]
pub fn allow(cpu_s: f64) {
    CUR.with(|c| {
        if let Some(s) = c.borrow().as_ref() {
            s.allow_ms.store((cpu_s * 1000.0) as u64, Ordering::Relaxed);
        }
    })
}

fn adopt(slot: &Arc<Slot>) {
    slot.tid.store(own_tid(), Ordering::Relaxed);
    CUR.with(|c| *c.borrow_mut() = Some(slot.clone()));
}

fn own_tid() -> u64 {
    std::fs::read_link("/proc/thread-self")
        .ok()
        .and_then(|p| p.file_name().and_then(|f| f.to_str()).and_then(|s| s.parse().ok()))
        .unwrap_or(0)
}

/// Processor time used so far by the thread with that kernel id, in seconds.
fn thread_cpu_s(tid: u64) -> Option<f64> {
    if tid == 0 {
        return None;
    }
    if let Ok(s) = std::fs::read_to_string(format!("/proc/self/task/{tid}/schedstat")) {
        if let Some(ns) = s.split_whitespace().next().and_then(|x| x.parse::<u64>().ok()) {
            return Some(ns as f64 * 1e-9);
        }
    }
    // utime + stime in clock ticks (USER_HZ = 100 in the Linux ABI): fields 14 and 15, counted behind the ")"
    let s = std::fs::read_to_string(format!("/proc/self/task/{tid}/stat")).ok()?;
    let rest: Vec<&str> = s.rsplit_once(')')?.1.split_whitespace().collect();
    let t = rest.get(11)?.parse::<u64>().ok()? + rest.get(12)?.parse::<u64>().ok()?;
    Some(t as f64 / 100.0)
}

/// Which clock the watchdog can read for another thread on this system.
pub fn clock_name() -> &'static str {
    let tid = own_tid();
    if tid != 0 && std::fs::read_to_string(format!("/proc/self/task/{tid}/schedstat")).is_ok() {
        "per-thread processor time from /proc/self/task/<tid>/schedstat"
    } else if thread_cpu_s(tid).is_some() {
        "per-thread processor time from /proc/self/task/<tid>/stat"
    } else {
        "wall time only (no /proc)"
    }
}

#[derive(Clone, Copy)]
pub struct Limits {
    pub cpu_s: f64,
    pub wall_s: f64,
}

pub const LIMITS: Limits = Limits { cpu_s: CPU_LIMIT_S, wall_s: WALL_LIMIT_S };

/// A job that did not return.
#[derive(Clone, Debug)]
pub struct Hang {
    pub index: usize,
    pub notes: [u64; 4],
    /// which limit was exceeded (fixed text, no measured number: two replays must say the same)
    pub reason: &'static str,
}

impl Hang {
    pub fn text(&self) -> String {
        format!("does not terminate ({})", self.reason)
    }
}

struct Watch {
    epoch: u64,
    since: Instant,
    cpu0: Option<f64>,
}

/// Is the case that `slot` is running stuck?
fn stuck(slot: &Slot, watch: &mut Option<Watch>, lim: Limits) -> Option<&'static str> {
    let e = slot.epoch.load(Ordering::Acquire);
    if e % 2 == 0 {
        *watch = None;
        return None;
    }
    match watch {
        Some(w) if w.epoch == e => {
            let wall = w.since.elapsed();
            if wall < GRACE {
                return None;
            }
            let cpu = thread_cpu_s(slot.tid.load(Ordering::Relaxed));
            let mut reason = None;
            match (w.cpu0, cpu) {
                (None, Some(c)) => w.cpu0 = Some(c),
                (Some(c0), Some(c)) if c - c0 >= lim.cpu_s.max(slot.allow_ms.load(Ordering::Relaxed) as f64 / 1000.0) => reason = Some("the call used more processor time than the watchdog allows without returning"),
                _ => {}
            }
            if reason.is_none() && wall.as_secs_f64() >= lim.wall_s {
                reason = Some("the call did not return within the watchdog's wall-time limit");
            }
            // the case may have ended while the clocks were read
            reason.filter(|_| slot.epoch.load(Ordering::Acquire) == e)
        }
        _ => {
            *watch = Some(Watch { epoch: e, since: Instant::now(), cpu0: None });
            None
        }
    }
}

/// Run `f` on a thread of its own; Err if it does not return.
pub fn call_with<R: Send + 'static>(lim: Limits, f: impl FnOnce() -> R + Send + 'static) -> Result<R, Hang> {
    let slot = Slot::new();
    let (tx, rx) = mpsc::channel();
    let s = slot.clone();
    std::thread::spawn(move || {
        adopt(&s);
        s.begin(0);
        let r = f();
        s.end();
        let _ = tx.send(r);
    });
    let mut watch = None;
    loop {
        match rx.recv_timeout(TICK) {
            Ok(r) => return Ok(r),
            Err(mpsc::RecvTimeoutError::Timeout) => {
                if let Some(reason) = stuck(&slot, &mut watch, lim) {
                    return Err(Hang { index: 0, notes: slot.notes(), reason });
                }
            }
            Err(mpsc::RecvTimeoutError::Disconnected) => die("a guarded harness thread panicked outside the code under test"),
        }
    }
}

pub fn call<R: Send + 'static>(f: impl FnOnce() -> R + Send + 'static) -> Result<R, Hang> {
    call_with(LIMITS, f)
}

/// What `map` returns: `results[i]` is Some for every index that completed — every index if `hang` is None,
/// at least every index below `hang.index` otherwise.
pub struct Mapped<R> {
    pub results: Vec<Option<R>>,
    pub hang: Option<Hang>,
}

impl<R> Mapped<R> {
    /// the results of the indices below the stuck one (all, if none is stuck), in index order
    pub fn completed(self) -> (Vec<R>, Option<Hang>) {
        let upto = self.hang.as_ref().map_or(self.results.len(), |h| h.index);
        let v: Vec<R> = self.results.into_iter().take(upto).map(|r| r.unwrap_or_else(|| die("an index below the stuck one has no result"))).collect();
        (v, self.hang)
    }
}

enum Msg<R> {
    Done(usize, R),
    Exit(usize),
}

pub fn threads() -> usize {
    std::env::var("RAYON_NUM_THREADS").ok().and_then(|s| s.parse().ok()).filter(|&n: &usize| n > 0).unwrap_or_else(|| std::thread::available_parallelism().map_or(4, |n| n.get()))
}

/// `job(i)` for every i in 0..n, indices handed out in ascending order in blocks of `chunk`.
/// `fresh`: every index runs on a thread created for it (thread-local state of the code under test starts
/// empty for every index).
pub fn map<R: Send + 'static>(n: usize, chunk: usize, fresh: bool, job: impl Fn(usize) -> R + Send + Sync + 'static) -> Mapped<R> {
    let chunk = chunk.max(1);
    let job = Arc::new(job);
    let next = Arc::new(AtomicUsize::new(0));
    let limit = Arc::new(AtomicUsize::new(n));
    let workers = threads().min(n.div_ceil(chunk)).max(1);
    let (tx, rx) = mpsc::channel::<Msg<R>>();
    let slots: Vec<Arc<Slot>> = (0..workers).map(|_| Slot::new()).collect();
    for (w, slot) in slots.iter().enumerate() {
        let (job, next, limit, tx, slot) = (job.clone(), next.clone(), limit.clone(), tx.clone(), slot.clone());
        std::thread::spawn(move || {
            if !fresh {
                adopt(&slot);
            }
            'pull: loop {
                let a = next.fetch_add(chunk, Ordering::Relaxed);
                if a >= n {
                    break;
                }
                for i in a..(a + chunk).min(n) {
                    if i >= limit.load(Ordering::Relaxed) {
                        break 'pull;
                    }
                    if fresh {
                        let (job, tx, slot) = (job.clone(), tx.clone(), slot.clone());
                        let h = std::thread::spawn(move || {
                            adopt(&slot);
                            slot.begin(i);
                            let r = job(i);
                            slot.end();
                            let _ = tx.send(Msg::Done(i, r));
                        });
                        if h.join().is_err() {
                            break 'pull; // the coordinator sees the missing result
                        }
                    } else {
                        slot.begin(i);
                        let r = job(i);
                        slot.end();
                        let _ = tx.send(Msg::Done(i, r));
                    }
                }
            }
            let _ = tx.send(Msg::Exit(w));
        });
    }
    drop(tx);
    let mut results: Vec<Option<R>> = (0..n).map(|_| None).collect();
    let mut watches: Vec<Option<Watch>> = (0..workers).map(|_| None).collect();
    let mut abandoned = vec![false; workers];
    let mut alive = workers;
    let mut hang: Option<Hang> = None;
    let mut last_scan = Instant::now();
    while alive > 0 {
        match rx.recv_timeout(TICK) {
            Ok(Msg::Done(i, r)) => results[i] = Some(r),
            Ok(Msg::Exit(w)) => {
                if !abandoned[w] {
                    alive -= 1;
                }
            }
            Err(mpsc::RecvTimeoutError::Timeout) => {}
            Err(mpsc::RecvTimeoutError::Disconnected) => break,
        }
        if last_scan.elapsed() < TICK {
            continue;
        }
        last_scan = Instant::now();
        for w in 0..workers {
            if abandoned[w] {
                continue;
            }
            if let Some(reason) = stuck(&slots[w], &mut watches[w], LIMITS) {
                let index = slots[w].index.load(Ordering::Relaxed) as usize;
                let notes = slots[w].notes();
                if watches[w].as_ref().map(|x| x.epoch) != Some(slots[w].epoch.load(Ordering::Acquire)) {
                    continue; // it returned after all, while index and notes were read
                }
                abandoned[w] = true;
                alive -= 1;
                limit.fetch_min(index, Ordering::Relaxed);
                if hang.as_ref().map_or(true, |h| index < h.index) {
                    hang = Some(Hang { index, notes, reason });
                }
            }
        }
        // once an index is known to be stuck, only the indices below it matter: a worker that is inside a
        // larger index is not waited for (whether it is stuck as well is of no interest)
        if let Some(h) = &hang {
            for w in 0..workers {
                let e = slots[w].epoch.load(Ordering::Acquire);
                if !abandoned[w] && e % 2 == 1 && slots[w].index.load(Ordering::Relaxed) as usize > h.index && slots[w].epoch.load(Ordering::Acquire) == e {
                    abandoned[w] = true;
                    alive -= 1;
                }
            }
        }
    }
    // results that were still in flight when the last worker left
    while let Ok(m) = rx.try_recv() {
        if let Msg::Done(i, r) = m {
            results[i] = Some(r);
        }
    }
    let upto = hang.as_ref().map_or(n, |h| h.index);
    if results[..upto].iter().any(|r| r.is_none()) {
        die("a guarded worker thread panicked outside the code under test (an index has no result)");
    }
    Mapped { results, hang }
}

/// Self-test: a spinning closure is reported, a returning one is not.  (seconds spent, clock used)
pub fn self_test() -> (f64, &'static str) {
    let t = Instant::now();
    let lim = Limits { cpu_s: 0.05, wall_s: 5.0 };
    let spin = call_with(lim, || {
        note(1, 7);
        let mut x = 1u64;
        loop {
            x = std::hint::black_box(x.wrapping_mul(6364136223846793005).wrapping_add(1));
            if x == 0 {
                break;
            }
        }
    });
    match spin {
        Err(h) if h.notes[1] == 7 => {}
        _ => die("self-test: a spinning call was not reported as non-terminating"),
    }
    if call_with(lim, || 41 + 1).ok() != Some(42) {
        die("self-test: a returning call was reported as non-terminating");
    }
    let m = map(64, 4, false, |i| i * 2);
    if m.hang.is_some() || m.results.iter().enumerate().any(|(i, r)| *r != Some(i * 2)) {
        die("self-test: the guarded map lost a result");
    }
    (t.elapsed().as_secs_f64(), clock_name())
}
