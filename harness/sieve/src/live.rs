//! Several iterators of ONE sieve alive at the same time (family `factorize_live`).
//!
//! `factorize(&self, n)` hands out an iterator that borrows the sieve; a caller may hold any number of them at
//! once (`s.factorize(a).chain(s.factorize(b))`, `zip`, a two-pointer merge of two factorisations, a loop over
//! one factorisation that factorises inside), and may call the other methods of the sieve while an iterator is
//! alive.  The property speaks about what `factorize(n)` yields for its n — every one of these iterators must
//! yield the factorisation of ITS OWN number, whatever else the sieve is asked meanwhile.  The other families
//! consume one iterator at a time, so an iterator that reads state owned by the sieve (a scratch buffer
//! written by `factorize`, a cursor, a cache) instead of state of its own is right there and wrong here.
//!
//! Every case is a small program run twice — on the real sieve and on the reference factorisations (plain
//! `Vec` iterators, each with its own data) — and the two observation lists must be equal:
//!
//! * `schedule`: k = 2 or 3 iterators for the numbers ns[0..k]; an event "i" creates iterator i
//!   (`factorize(ns[i])`) the first time and calls `next()` on it afterwards; every iterator is created and then
//!   pulled until it has handed out its `None` (length + 1 calls); EVERY interleaving of these event sequences in
//!   which the iterators are created in the order of their index is a case (ns runs over ordered tuples, so
//!   every creation order occurs).  This contains create-all-then-consume (chain, zip, lock step) as well as the
//!   nested loop (an inner iterator created and drained between two `next()` of the outer one).
//!   With `queries`: after every event `is_prime` and `min_prime` of the numbers involved and of N, and
//!   length / first / last entry of `primes()` are observed too.
//! * compound adaptors of std over two (three) live iterators: `chain` pulled and folded, `zip` pulled, `eq`,
//!   `cmp`, `lt`, nested `for` loops (the inner one factorises b, or the prime the outer one just handed out),
//!   `flat_map` pulled and folded, a two-pointer merge through `peekable`, "j items of a, then all of b through
//!   `fold`, then the rest of a through `fold`" for every j, "a created, b created, b folded, a folded".
//! * `all_alive`: an iterator for EVERY n in 1..=N is created first; then they are drained in reverse order of
//!   creation / round-robin, one `next()` each, until all are exhausted.

use crate::guard;
use crate::protocol::Ob;
use vcore::{catch, json, Value};

pub type Item = (i32, i32);
pub const FAMILY: &str = "factorize_live";
/// first note cell of a job that is inside this family (the protocol uses values below `N_USES`)
pub const NOTE_BASE: u64 = 1000;

/// The sieve as this family sees it.
pub trait World {
    type It: Iterator<Item = Item>;
    fn factorize(&self, n: usize) -> Self::It;
    /// [is_prime(x), min_prime(x) (0 for x < 2: not constrained, not called)]
    fn about(&self, x: usize) -> [u64; 2];
    /// (length, first, last) of `primes()`
    fn primes_summary(&self) -> [u64; 3];
}

/// A world made of three closures (so that the engine never has to name the iterator type of the crate).
pub struct Fns<F, A, P> {
    pub factorize: F,
    pub about: A,
    pub primes_summary: P,
}

impl<I: Iterator<Item = Item>, F: Fn(usize) -> I, A: Fn(usize) -> [u64; 2], P: Fn() -> [u64; 3]> World for Fns<F, A, P> {
    type It = I;
    fn factorize(&self, n: usize) -> I {
        (self.factorize)(n)
    }
    fn about(&self, x: usize) -> [u64; 2] {
        (self.about)(x)
    }
    fn primes_summary(&self) -> [u64; 3] {
        (self.primes_summary)()
    }
}

#[derive(Clone, Copy, Debug, PartialEq, Eq)]
pub enum Compound {
    ChainPull,
    ChainFold,
    ZipPull,
    IterEq,
    IterCmp,
    IterLt,
    NestedFor,
    NestedForOverThePrime,
    FlatMapPull,
    FlatMapFold,
    MergePeekable,
    /// j items of a through next(), all of b through fold, the rest of a through fold
    Interrupted(usize),
    CreatedFirstFoldedLast,
    /// three iterators
    Chain3Fold,
    Zip3Pull,
}

const PAIR_COMPOUNDS: [Compound; 12] = [
    Compound::ChainPull,
    Compound::ChainFold,
    Compound::ZipPull,
    Compound::IterEq,
    Compound::IterCmp,
    Compound::IterLt,
    Compound::NestedFor,
    Compound::NestedForOverThePrime,
    Compound::FlatMapPull,
    Compound::FlatMapFold,
    Compound::MergePeekable,
    Compound::CreatedFirstFoldedLast,
];
const TRIPLE_COMPOUNDS: [Compound; 2] = [Compound::Chain3Fold, Compound::Zip3Pull];

impl Compound {
    fn name(self) -> &'static str {
        match self {
            Compound::ChainPull => "chain_pull",
            Compound::ChainFold => "chain_fold",
            Compound::ZipPull => "zip_pull",
            Compound::IterEq => "eq",
            Compound::IterCmp => "cmp",
            Compound::IterLt => "lt",
            Compound::NestedFor => "nested_for",
            Compound::NestedForOverThePrime => "nested_for_over_the_prime",
            Compound::FlatMapPull => "flat_map_pull",
            Compound::FlatMapFold => "flat_map_fold",
            Compound::MergePeekable => "merge_peekable",
            Compound::Interrupted(_) => "interrupted",
            Compound::CreatedFirstFoldedLast => "created_first_folded_last",
            Compound::Chain3Fold => "chain3_fold",
            Compound::Zip3Pull => "zip3_pull",
        }
    }
    fn arg(self) -> usize {
        match self {
            Compound::Interrupted(j) => j,
            _ => 0,
        }
    }
    fn from_name(s: &str, arg: usize) -> Option<Compound> {
        if s == "interrupted" {
            return Some(Compound::Interrupted(arg));
        }
        PAIR_COMPOUNDS.iter().chain(&TRIPLE_COMPOUNDS).copied().find(|c| c.name() == s)
    }
    fn text(self) -> String {
        match self {
            Compound::ChainPull => "a.chain(b) pulled with next() [a = factorize(ns[0]), b = factorize(ns[1]), both created before the first item is taken]".into(),
            Compound::ChainFold => "a.chain(b).fold() collecting the items".into(),
            Compound::ZipPull => "a.zip(b) pulled with next(): item of a, item of b, …".into(),
            Compound::IterEq => "[a.eq(b)]".into(),
            Compound::IterCmp => "[a.cmp(b)] (0 less, 1 equal, 2 greater)".into(),
            Compound::IterLt => "[a.lt(b)]".into(),
            Compound::NestedFor => "for x in factorize(ns[0]) { x; for y in factorize(ns[1]) { y } }".into(),
            Compound::NestedForOverThePrime => "for (p, e) in factorize(ns[0]) { (p, e); for y in factorize(p) { y } }".into(),
            Compound::FlatMapPull => "factorize(ns[0]).flat_map(|(p, _)| factorize(p)) pulled with next()".into(),
            Compound::FlatMapFold => "factorize(ns[0]).flat_map(|(p, _)| factorize(p)).fold() collecting the items".into(),
            Compound::MergePeekable => "two-pointer merge of a.peekable() and b.peekable(): the smaller head is taken (both on equal primes) until one side ends".into(),
            Compound::Interrupted(j) => format!("{j} items of a through next(), then b = factorize(ns[1]) created and folded, then the rest of a folded"),
            Compound::CreatedFirstFoldedLast => "a created, b created, b folded, a folded".into(),
            Compound::Chain3Fold => "a.chain(b).chain(c).fold() collecting the items, all three created first".into(),
            Compound::Zip3Pull => "a.zip(b).zip(c) pulled with next()".into(),
        }
    }
}

#[derive(Clone, Debug, PartialEq, Eq)]
pub enum Shape {
    /// events: index of the iterator that is created (first occurrence) / advanced
    Schedule { events: Vec<u8>, queries: bool },
    Compound(Compound),
    /// every n in 1..=N gets an iterator first; then: false = drained in reverse order of creation, true = round robin
    AllAlive { round_robin: bool },
}

#[derive(Clone, Debug, PartialEq, Eq)]
pub struct Case {
    pub ns: Vec<usize>,
    pub shape: Shape,
}

impl Case {
    pub fn short(&self) -> String {
        let ns = format!("{:?}", self.ns).replace(' ', "");
        match &self.shape {
            Shape::Schedule { events, queries } => format!("ns={ns}:schedule={}{}", events.iter().map(|e| char::from(b'0' + e)).collect::<String>(), if *queries { ":queries" } else { "" }),
            Shape::Compound(c) => match c {
                Compound::Interrupted(j) => format!("ns={ns}:interrupted({j})"),
                _ => format!("ns={ns}:{}", c.name()),
            },
            Shape::AllAlive { round_robin } => format!("all_alive:{}", if *round_robin { "round_robin" } else { "reverse" }),
        }
    }

    pub fn text(&self) -> String {
        match &self.shape {
            Shape::Schedule { events, queries } => format!(
                "{} iterators of the same sieve for the numbers {:?}; events {:?} (event i = `factorize(ns[i])` the first time, `next()` on that iterator afterwards{})",
                self.ns.len(),
                self.ns,
                events,
                if *queries { "; after every event is_prime / min_prime of these numbers and of N and length, first and last entry of primes() are observed as well" } else { "" }
            ),
            Shape::Compound(c) => format!("ns = {:?}: {}", self.ns, c.text()),
            Shape::AllAlive { round_robin } => format!(
                "an iterator factorize(n) for every n in 1..=N is created first, then they are {}",
                if *round_robin { "pulled round robin, one next() each, until every one has handed out its None" } else { "drained one after the other in reverse order of creation" }
            ),
        }
    }

    pub fn to_json(&self, limit: usize, reference: &str) -> Value {
        let (shape, events, queries, arg) = match &self.shape {
            Shape::Schedule { events, queries } => ("schedule".to_string(), events.clone(), *queries, 0),
            Shape::Compound(c) => (c.name().to_string(), vec![], false, c.arg()),
            Shape::AllAlive { round_robin } => (if *round_robin { "all_alive_round_robin" } else { "all_alive_reverse" }.to_string(), vec![], false, 0),
        };
        json!({"family": FAMILY, "N": limit, "n": Value::Null, "ns": self.ns, "shape": shape, "events": events, "queries": queries, "arg": arg, "reference": reference, "history": []})
    }

    pub fn from_json(v: &Value) -> Result<Case, String> {
        let ns: Vec<usize> = v["ns"].as_array().ok_or("replay: no ns")?.iter().map(|x| x.as_u64().unwrap_or(0) as usize).collect();
        let shape = match v["shape"].as_str().ok_or("replay: no shape")? {
            "schedule" => Shape::Schedule { events: v["events"].as_array().ok_or("replay: no events")?.iter().map(|x| x.as_u64().unwrap_or(0) as u8).collect(), queries: v["queries"].as_bool().unwrap_or(false) },
            "all_alive_round_robin" => Shape::AllAlive { round_robin: true },
            "all_alive_reverse" => Shape::AllAlive { round_robin: false },
            other => Shape::Compound(Compound::from_name(other, v["arg"].as_u64().unwrap_or(0) as usize).ok_or_else(|| format!("replay: unknown shape {other}"))?),
        };
        let c = Case { ns, shape };
        c.well_formed()?;
        Ok(c)
    }

    fn well_formed(&self) -> Result<(), String> {
        match &self.shape {
            Shape::Schedule { events, .. } => {
                if self.ns.is_empty() || self.ns.len() > 3 || events.iter().any(|&e| e as usize >= self.ns.len()) {
                    return Err("replay: a schedule needs 1 to 3 numbers and events that name them".into());
                }
            }
            Shape::Compound(c) => {
                let need = if TRIPLE_COMPOUNDS.contains(c) { 3 } else { 2 };
                if self.ns.len() != need {
                    return Err(format!("replay: {} needs {need} numbers", c.name()));
                }
            }
            Shape::AllAlive { .. } => {}
        }
        Ok(())
    }

    /// the case packed into the note cells of the watchdog: [NOTE_BASE + shape, ns, events / argument, flags]
    fn notes(&self) -> [u64; 4] {
        let ns = pack_numbers(&self.ns);
        match &self.shape {
            Shape::Schedule { events, queries } => schedule_notes(&self.ns, events, *queries),
            Shape::Compound(c) => [NOTE_BASE + 1 + PAIR_COMPOUNDS.iter().chain(&TRIPLE_COMPOUNDS).position(|x| x.name() == c.name()).map_or(20, |p| p) as u64, ns, c.arg() as u64, 0],
            Shape::AllAlive { round_robin } => [NOTE_BASE + 50, 0, 0, *round_robin as u64],
        }
    }

    /// the case a stuck job was in (the inverse of `notes`)
    pub fn from_notes(n: [u64; 4]) -> Option<Case> {
        if n[0] < NOTE_BASE {
            return None;
        }
        let mut ns = vec![];
        let mut packed = n[1];
        while packed > 3 {
            ns.push((packed & 0xfffff) as usize);
            packed >>= 20;
        }
        ns.reverse();
        if n[0] != NOTE_BASE + 50 && packed as usize != ns.len() {
            return None;
        }
        let shape = match n[0] - NOTE_BASE {
            0 => {
                let (mut events, mut x) = (vec![], n[2]);
                while x > 1 {
                    events.push((x % 3) as u8);
                    x /= 3;
                }
                Shape::Schedule { events, queries: n[3] != 0 }
            }
            50 => Shape::AllAlive { round_robin: n[3] != 0 },
            21 => Shape::Compound(Compound::Interrupted(n[2] as usize)),
            k => Shape::Compound(*PAIR_COMPOUNDS.iter().chain(&TRIPLE_COMPOUNDS).nth(k as usize - 1)?),
        };
        Some(Case { ns, shape })
    }
}

fn pack_numbers(ns: &[usize]) -> u64 {
    ns.iter().fold(ns.len() as u64, |acc, &n| (acc << 20) | (n as u64 & 0xfffff))
}

fn schedule_notes(ns: &[usize], events: &[u8], queries: bool) -> [u64; 4] {
    [NOTE_BASE, pack_numbers(ns), events.iter().rev().fold(1u64, |acc, &e| acc * 3 + e as u64), queries as u64]
}

// ---------------------------------------------------------------------------------------------------
// running one case on a world

fn pull<I: Iterator<Item = Item>>(mut it: I, cap: usize, out: &mut Vec<Ob<Item>>) {
    let stop = out.len() + cap;
    loop {
        match it.next() {
            Some(x) => {
                out.push(Ob::It(x));
                if out.len() > stop {
                    return; // more than the reference can have: the lists differ already
                }
            }
            None => {
                out.push(Ob::End);
                return;
            }
        }
    }
}

const TOO_MANY: &str = "the iteration does not end: more items were handed out than the reference sequences have together (stopped by the harness)";

fn fold_list<I: Iterator<Item = Item>>(it: I, cap: usize, out: &mut Vec<Ob<Item>>) {
    let v = it.fold(Vec::new(), |mut v, x| {
        if v.len() > cap {
            panic!("{}", TOO_MANY);
        }
        v.push(x);
        v
    });
    out.extend(v.into_iter().map(Ob::It));
    out.push(Ob::End);
}

fn observe_queries<W: World>(w: &W, xs: &[usize], out: &mut Vec<Ob<Item>>) {
    for &x in xs {
        let a = w.about(x);
        out.extend([Ob::Num(a[0]), Ob::Num(a[1])]);
    }
    out.extend(w.primes_summary().map(Ob::Num));
}

fn run_schedule<W: World>(w: &W, limit: usize, ns: &[usize], events: &[u8], queries: bool, out: &mut Vec<Ob<Item>>) {
    out.clear();
    let mut its: [Option<W::It>; 3] = [None, None, None];
    let mut xs = [limit; 4];
    xs[..ns.len()].copy_from_slice(ns);
    for &e in events {
        let i = e as usize;
        match &mut its[i] {
            None => its[i] = Some(w.factorize(ns[i])),
            Some(it) => out.push(it.next().map_or(Ob::End, Ob::It)),
        }
        if queries {
            observe_queries(w, &xs[..=ns.len()], out);
        }
    }
}

/// Run the case; what it observes, in order.  `cap`: more items than any correct run hands out in total.
pub fn run<W: World>(w: &W, limit: usize, case: &Case, cap: usize, out: &mut Vec<Ob<Item>>) {
    out.clear();
    let ns = &case.ns;
    match &case.shape {
        Shape::Schedule { events, queries } => run_schedule(w, limit, ns, events, *queries, out),
        Shape::Compound(c) => {
            // a is created first; b (c) right after it where the program says so
            let a = w.factorize(ns[0]);
            match *c {
                Compound::ChainPull => pull(a.chain(w.factorize(ns[1])), cap, out),
                Compound::ChainFold => fold_list(a.chain(w.factorize(ns[1])), cap, out),
                Compound::ZipPull => {
                    for (x, y) in a.zip(w.factorize(ns[1])) {
                        out.extend([Ob::It(x), Ob::It(y)]);
                        if out.len() > 2 * cap {
                            return;
                        }
                    }
                    out.push(Ob::End);
                }
                Compound::IterEq => out.push(Ob::Flag(a.take(cap).eq(w.factorize(ns[1]).take(cap)))),
                Compound::IterCmp => out.push(Ob::Num((a.take(cap).cmp(w.factorize(ns[1]).take(cap)) as i8 + 1) as u64)),
                Compound::IterLt => out.push(Ob::Flag(a.take(cap).lt(w.factorize(ns[1]).take(cap)))),
                Compound::NestedFor => {
                    for x in a {
                        out.push(Ob::It(x));
                        for y in w.factorize(ns[1]) {
                            out.push(Ob::It(y));
                            if out.len() > cap * cap + cap {
                                return;
                            }
                        }
                        out.push(Ob::End);
                    }
                    out.push(Ob::End);
                }
                Compound::NestedForOverThePrime => {
                    for x in a {
                        out.push(Ob::It(x));
                        for y in w.factorize(x.0 as usize) {
                            out.push(Ob::It(y));
                            if out.len() > 4 * cap {
                                return;
                            }
                        }
                        out.push(Ob::End);
                    }
                    out.push(Ob::End);
                }
                Compound::FlatMapPull => pull(a.flat_map(|(p, _)| w.factorize(p as usize)), cap, out),
                Compound::FlatMapFold => fold_list(a.flat_map(|(p, _)| w.factorize(p as usize)), cap, out),
                Compound::MergePeekable => {
                    let (mut a, mut b) = (a.peekable(), w.factorize(ns[1]).peekable());
                    while let (Some(&(p, _)), Some(&(q, _))) = (a.peek(), b.peek()) {
                        if p <= q {
                            out.push(a.next().map_or(Ob::End, Ob::It));
                        }
                        if q <= p {
                            out.push(b.next().map_or(Ob::End, Ob::It));
                        }
                        if out.len() > 2 * cap {
                            return;
                        }
                    }
                    out.push(a.next().map_or(Ob::End, Ob::It));
                    out.push(b.next().map_or(Ob::End, Ob::It));
                }
                Compound::Interrupted(j) => {
                    let mut a = a;
                    for _ in 0..j {
                        out.push(a.next().map_or(Ob::End, Ob::It));
                    }
                    fold_list(w.factorize(ns[1]), cap, out);
                    fold_list(a, cap, out);
                }
                Compound::CreatedFirstFoldedLast => {
                    let b = w.factorize(ns[1]);
                    fold_list(b, cap, out);
                    fold_list(a, cap, out);
                }
                Compound::Chain3Fold => {
                    let (b, c) = (w.factorize(ns[1]), w.factorize(ns[2]));
                    fold_list(a.chain(b).chain(c), cap, out)
                }
                Compound::Zip3Pull => {
                    let (b, c) = (w.factorize(ns[1]), w.factorize(ns[2]));
                    for ((x, y), z) in a.zip(b).zip(c) {
                        out.extend([Ob::It(x), Ob::It(y), Ob::It(z)]);
                        if out.len() > 3 * cap {
                            return;
                        }
                    }
                    out.push(Ob::End);
                }
            }
        }
        Shape::AllAlive { round_robin } => {
            let mut its: Vec<Option<W::It>> = (1..=limit).map(|n| Some(w.factorize(n))).collect();
            if *round_robin {
                let mut alive = its.len();
                let mut rounds = 0;
                while alive > 0 && rounds <= 64 {
                    rounds += 1;
                    for slot in its.iter_mut() {
                        if let Some(it) = slot {
                            match it.next() {
                                Some(x) => out.push(Ob::It(x)),
                                None => {
                                    out.push(Ob::End);
                                    *slot = None;
                                    alive -= 1;
                                }
                            }
                        }
                    }
                }
            } else {
                while let Some(it) = its.pop() {
                    pull(it.unwrap(), 64, out);
                }
            }
        }
    }
}

/// What went wrong in one case.
#[derive(Clone, Debug)]
pub struct Failure {
    pub case: Case,
    pub message: String,
}

/// the whole list if it is short, else the observations around position `at`
fn short_list(v: &[Ob<Item>], at: usize) -> String {
    if v.len() <= 24 {
        format!("{v:?}")
    } else {
        let (a, b) = (at.saturating_sub(4).min(v.len()), (at + 8).min(v.len()));
        format!("[observations {a}..{b} of {}] {:?}", v.len(), &v[a..b])
    }
}

/// The case on the real sieve against the case on the reference.  Buffers are reused between cases.
pub struct Judge {
    exp: Vec<Ob<Item>>,
    got: Vec<Ob<Item>>,
}

impl Judge {
    pub fn new() -> Judge {
        Judge { exp: vec![], got: vec![] }
    }

    /// A schedule given by its parts (the `Case` is only built when it fails).
    pub fn judge_schedule<R: World, M: World>(&mut self, real: &R, model: &M, limit: usize, ns: &[usize], events: &[u8], queries: bool) -> Option<Failure> {
        guard::checkpoint();
        for (c, v) in schedule_notes(ns, events, queries).into_iter().enumerate() {
            guard::note(c, v);
        }
        run_schedule(model, limit, ns, events, queries, &mut self.exp);
        let got = &mut self.got;
        if let Ok(()) = catch(|| run_schedule(real, limit, ns, events, queries, got)) {
            if self.got == self.exp {
                return None;
            }
        }
        // again through the general path, for the message
        self.judge(real, model, limit, &Case { ns: ns.to_vec(), shape: Shape::Schedule { events: events.to_vec(), queries } }, 0)
    }

    pub fn judge<R: World, M: World>(&mut self, real: &R, model: &M, limit: usize, case: &Case, cap: usize) -> Option<Failure> {
        // one case = one step for the watchdog; the notes say which
        guard::checkpoint();
        for (c, v) in case.notes().into_iter().enumerate() {
            guard::note(c, v);
        }
        run(model, limit, case, cap, &mut self.exp);
        let got = &mut self.got;
        let message = match catch(|| run(real, limit, case, cap, got)) {
            Ok(()) if self.got == self.exp => return None,
            Ok(()) => {
                let at = (0..self.got.len().min(self.exp.len())).find(|&i| self.got[i] != self.exp[i]).unwrap_or(self.got.len().min(self.exp.len()));
                format!("{}: observed {}, the reference factorisations give {} (first difference at observation {at}, counting from 0)", case.text(), short_list(&self.got, at), short_list(&self.exp, at))
            }
            Err(p) => format!("{}: panicked: {p}; observed until then {}, the reference factorisations give {}", case.text(), short_list(&self.got, self.got.len()), short_list(&self.exp, self.got.len())),
        };
        Some(Failure { case: case.clone(), message })
    }
}

// ---------------------------------------------------------------------------------------------------
// enumeration

/// Every interleaving of k event sequences with `counts[i]` events each in which sequence i+1 does not start
/// before sequence i has started, in lexicographic order; `f` returns false to stop.
pub fn for_each_schedule(counts: &[usize], f: &mut impl FnMut(&[u8]) -> bool) -> bool {
    fn rec(left: &mut [usize], total: &[usize], cur: &mut Vec<u8>, f: &mut impl FnMut(&[u8]) -> bool) -> bool {
        if left.iter().all(|&l| l == 0) {
            return f(cur);
        }
        for i in 0..left.len() {
            // created in the order of the index
            if left[i] == 0 || (i > 0 && left[i] == total[i] && left[i - 1] == total[i - 1]) {
                continue;
            }
            left[i] -= 1;
            cur.push(i as u8);
            let go_on = rec(left, total, cur, f);
            cur.pop();
            left[i] += 1;
            if !go_on {
                return false;
            }
        }
        true
    }
    let mut left = counts.to_vec();
    rec(&mut left, counts, &mut Vec::new(), f)
}

#[derive(Clone, Default, Debug)]
pub struct Counts {
    pub tuples_of_2: u64,
    pub tuples_of_3: u64,
    pub schedules_of_2: u64,
    pub schedules_of_3: u64,
    pub schedules_with_queries: u64,
    pub compound_cases: u64,
    pub all_alive_cases: u64,
    pub all_alive_iterators: u64,
    pub longest_schedule: u64,
    /// cases in which a later `factorize` call happens while an earlier iterator still has items to hand out
    pub cases_with_an_unfinished_iterator_at_a_later_factorize: u64,
}

impl Counts {
    pub fn merge(&mut self, o: &Counts) {
        self.tuples_of_2 += o.tuples_of_2;
        self.tuples_of_3 += o.tuples_of_3;
        self.schedules_of_2 += o.schedules_of_2;
        self.schedules_of_3 += o.schedules_of_3;
        self.schedules_with_queries += o.schedules_with_queries;
        self.compound_cases += o.compound_cases;
        self.all_alive_cases += o.all_alive_cases;
        self.all_alive_iterators += o.all_alive_iterators;
        self.longest_schedule = self.longest_schedule.max(o.longest_schedule);
        self.cases_with_an_unfinished_iterator_at_a_later_factorize += o.cases_with_an_unfinished_iterator_at_a_later_factorize;
    }
    pub fn cases(&self) -> u64 {
        self.schedules_of_2 + self.schedules_of_3 + self.schedules_with_queries + self.compound_cases + self.all_alive_cases
    }
}

/// Does a later creation find an earlier iterator that still has items?
fn overlaps(events: &[u8], lens: &[usize]) -> bool {
    let mut pulled = [usize::MAX; 3]; // MAX = not created
    for &e in events {
        let i = e as usize;
        if pulled[i] == usize::MAX {
            if (0..lens.len()).any(|j| j != i && pulled[j] != usize::MAX && pulled[j] < lens[j]) {
                return true;
            }
            pulled[i] = 0;
        } else {
            pulled[i] += 1;
        }
    }
    false
}

/// Which tuples of numbers of one limit are enumerated.
pub struct Plan {
    /// every ordered pair of these
    pub pair_numbers: Vec<usize>,
    /// every ordered triple of these
    pub triple_numbers: Vec<usize>,
    pub all_alive: bool,
}

/// All cases of one limit in enumeration order, stopping at the first failure.
/// `lens(n)`: length of the reference factorisation of n.
pub fn enumerate<R: World, M: World>(real: &R, model: &M, limit: usize, plan: &Plan, lens: &dyn Fn(usize) -> usize, counts: &mut Counts) -> Option<Failure> {
    let mut judge = Judge::new();
    let mut failure: Option<Failure> = None;
    // pairs: schedules, compounds, schedules with queries
    for &a in &plan.pair_numbers {
        for &b in &plan.pair_numbers {
            counts.tuples_of_2 += 1;
            let ns = vec![a, b];
            let (la, lb) = (lens(a), lens(b));
            let cap = la + lb + 4;
            for queries in [false, true] {
                for_each_schedule(&[la + 2, lb + 2], &mut |ev| {
                    if queries {
                        counts.schedules_with_queries += 1;
                    } else {
                        counts.schedules_of_2 += 1;
                    }
                    counts.longest_schedule = counts.longest_schedule.max(ev.len() as u64);
                    counts.cases_with_an_unfinished_iterator_at_a_later_factorize += overlaps(ev, &[la, lb]) as u64;
                    failure = judge.judge_schedule(real, model, limit, &ns, ev, queries);
                    failure.is_none()
                });
                if failure.is_some() {
                    return failure;
                }
                if !queries {
                    let compounds = PAIR_COMPOUNDS.iter().copied().chain((0..=la + 1).map(Compound::Interrupted));
                    for c in compounds {
                        counts.compound_cases += 1;
                        counts.cases_with_an_unfinished_iterator_at_a_later_factorize += (la > 0) as u64;
                        failure = judge.judge(real, model, limit, &Case { ns: ns.clone(), shape: Shape::Compound(c) }, cap);
                        if failure.is_some() {
                            return failure;
                        }
                    }
                }
            }
        }
    }
    for &a in &plan.triple_numbers {
        for &b in &plan.triple_numbers {
            for &c in &plan.triple_numbers {
                counts.tuples_of_3 += 1;
                let ns = vec![a, b, c];
                let l = [lens(a), lens(b), lens(c)];
                let cap = l[0] + l[1] + l[2] + 4;
                for_each_schedule(&[l[0] + 2, l[1] + 2, l[2] + 2], &mut |ev| {
                    counts.schedules_of_3 += 1;
                    counts.longest_schedule = counts.longest_schedule.max(ev.len() as u64);
                    counts.cases_with_an_unfinished_iterator_at_a_later_factorize += overlaps(ev, &l) as u64;
                    failure = judge.judge_schedule(real, model, limit, &ns, ev, false);
                    failure.is_none()
                });
                if failure.is_some() {
                    return failure;
                }
                for comp in TRIPLE_COMPOUNDS {
                    counts.compound_cases += 1;
                    failure = judge.judge(real, model, limit, &Case { ns: ns.clone(), shape: Shape::Compound(comp) }, cap);
                    if failure.is_some() {
                        return failure;
                    }
                }
            }
        }
    }
    if plan.all_alive {
        for round_robin in [false, true] {
            counts.all_alive_cases += 1;
            counts.all_alive_iterators += limit as u64;
            counts.cases_with_an_unfinished_iterator_at_a_later_factorize += (limit >= 3) as u64;
            failure = judge.judge(real, model, limit, &Case { ns: vec![], shape: Shape::AllAlive { round_robin } }, 0);
            if failure.is_some() {
                return failure;
            }
        }
    }
    None
}

// ---------------------------------------------------------------------------------------------------
// self-check: a sieve whose iterators read a scratch buffer owned by the sieve must be flagged, one whose
// iterators own their data must pass

pub struct Mock {
    pub shared: bool,
    scratch: std::cell::RefCell<Vec<Item>>,
}

pub struct MockIter<'a> {
    mock: &'a Mock,
    own: Vec<Item>,
    at: usize,
}

impl Iterator for MockIter<'_> {
    type Item = Item;
    fn next(&mut self) -> Option<Item> {
        let x = if self.mock.shared { self.mock.scratch.borrow().get(self.at).copied() } else { self.own.get(self.at).copied() };
        self.at += x.is_some() as usize;
        x
    }
}

pub fn trial(mut n: usize) -> Vec<Item> {
    let mut out = vec![];
    let mut d = 2;
    while n > 1 {
        let mut e = 0;
        while n % d == 0 {
            n /= d;
            e += 1;
        }
        if e > 0 {
            out.push((d as i32, e));
        }
        d += 1;
    }
    out
}

pub struct MockRef<'a>(pub &'a Mock);

impl<'a> World for MockRef<'a> {
    type It = MockIter<'a>;
    fn factorize(&self, n: usize) -> MockIter<'a> {
        let f = trial(n);
        *self.0.scratch.borrow_mut() = f.clone();
        MockIter { mock: self.0, own: f, at: 0 }
    }
    fn about(&self, x: usize) -> [u64; 2] {
        let f = trial(x);
        [(f.len() == 1 && f[0].1 == 1) as u64, f.first().map_or(0, |p| p.0 as u64)]
    }
    fn primes_summary(&self) -> [u64; 3] {
        [0, 0, 0]
    }
}

pub fn self_check() -> Result<(), String> {
    // the number of interleavings is the one the rule text promises: C(c0 + c1 - 1, c0 - 1) for two sequences
    let mut n = 0u64;
    for_each_schedule(&[4, 5], &mut |_| {
        n += 1;
        true
    });
    if n != 56 {
        return Err(format!("{n} interleavings of 4 + 5 events with a fixed first event, expected C(8,3) = 56"));
    }
    let mut n3 = 0u64;
    for_each_schedule(&[2, 2, 2], &mut |_| {
        n3 += 1;
        true
    });
    if n3 != 15 {
        return Err(format!("{n3} interleavings of 2 + 2 + 2 events with ordered first events, expected 90 / 3! = 15"));
    }
    let plan = Plan { pair_numbers: (1..=12).collect(), triple_numbers: (1..=6).collect(), all_alive: true };
    let lens = |n: usize| trial(n).len();
    for shared in [false, true] {
        let m = Mock { shared, scratch: Default::default() };
        let model = Mock { shared: false, scratch: Default::default() };
        let mut counts = Counts::default();
        let f = enumerate(&MockRef(&m), &MockRef(&model), 12, &plan, &lens, &mut counts);
        match (shared, &f) {
            (false, Some(f)) => return Err(format!("iterators that own their data were flagged: {}", f.message)),
            (true, None) => return Err("iterators that read a scratch buffer of the sieve were not flagged".into()),
            (true, Some(f)) if f.case.ns != vec![1, 2] => return Err(format!("the first flagged case should be ns = [1, 2], it is {}", f.case.short())),
            _ => {}
        }
        if !shared && (counts.schedules_of_3 == 0 || counts.compound_cases == 0 || counts.all_alive_cases != 2 || counts.cases_with_an_unfinished_iterator_at_a_later_factorize == 0) {
            return Err(format!("the enumeration is incomplete: {counts:?}"));
        }
        // every compound alone must flag the shared buffer on some pair
        if shared {
            for c in PAIR_COMPOUNDS.iter().copied().chain([Compound::Interrupted(1)]) {
                let mut j = Judge::new();
                let hit = [(6usize, 35usize), (12, 10), (6, 6), (30, 2)].iter().any(|&(a, b)| j.judge(&MockRef(&m), &MockRef(&model), 40, &Case { ns: vec![a, b], shape: Shape::Compound(c) }, 12).is_some());
                if !hit && !matches!(c, Compound::IterLt) {
                    return Err(format!("{} does not notice a scratch buffer shared by the iterators", c.name()));
                }
            }
        }
    }
    // notes round trip
    for case in [
        Case { ns: vec![12, 1048575], shape: Shape::Schedule { events: vec![0, 1, 0, 0, 1, 1, 0], queries: true } },
        Case { ns: vec![3, 2, 1], shape: Shape::Schedule { events: vec![0, 1, 2, 2, 1, 0], queries: false } },
        Case { ns: vec![7, 9], shape: Shape::Compound(Compound::MergePeekable) },
        Case { ns: vec![7, 9], shape: Shape::Compound(Compound::Interrupted(3)) },
        Case { ns: vec![7, 9, 4], shape: Shape::Compound(Compound::Zip3Pull) },
        Case { ns: vec![], shape: Shape::AllAlive { round_robin: true } },
    ] {
        if Case::from_notes(case.notes()).as_ref() != Some(&case) {
            return Err(format!("the watchdog notes do not carry the case {}", case.short()));
        }
        if Case::from_json(&case.to_json(1 << 20, "trial")).as_ref() != Ok(&case) {
            return Err(format!("the replay record does not carry the case {}", case.short()));
        }
    }
    Ok(())
}
