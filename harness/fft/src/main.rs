//! C04 — FFT multiplication is exact inside the published envelope, whatever the transformer object
//! computed before.
//!
//! The persistent state of an `FFT` object that can influence a later call is the size of its twiddle /
//! bit-reversal tables (the work buffers are cleared on entry): states 4, 8, …, 2^K, a call needing size
//! n moves the object to max(state, n).  ALL states (each reached both through `update_n` and through a
//! large multiply) x ALL calls of the alphabet: every length pair of the tier's length set x coefficient
//! patterns at the envelope boundary; exhaustive 5-letter vectors for lengths <= 4.  Every call is
//! compared with the schoolbook convolution in i128, with the same call on a fresh object, with the
//! accumulate-into variant on a pre-filled destination and with forward x forward -> inverse.
//!
//! Destination lengths: every call with a transform size <= 16 runs each accumulate-into variant
//! (`multiply_into`, `fft_inv_into`, `fft_into`) on a pre-filled destination of EVERY length from 0 to two
//! beyond what is due (product length / transform size): the positions that exist receive the leading
//! coefficients of the exact result, everything else stays as it was.
//!
//! Further families: every public way of obtaining an object (`new`, `Default::default`, a clone of
//! either) is an initial state, and the table sizes 1 and 2 below the pre-sized 4 are object states as
//! well, so the smallest transforms are the first thing each kind of fresh object computes; operands
//! that ALIAS (views of one buffer: the same slice twice, prefixes, suffixes, overlapping and adjacent
//! windows) judged against the convolution of their values; and buffer-reuse histories, in which one
//! object is called again and again with the SAME input / spectrum / destination buffers (same address,
//! same length, same n) refilled in place with other contents between the calls.
//!
//! Threads and other objects.  What a THREAD did before a call is part of the call's history as well (a
//! library may keep tables per thread or share them between objects).  So: (i) every call into the crate -
//! constructors, clones, `update_n`, the multiply that grows an object, every transform / multiply
//! variant, explicit drops - runs inside `vcore::catch` and is judged (a panic is a violation with a
//! replay, never the end of the process); (ii) the family `several_objects` makes the thread's history
//! the thing that is enumerated: two or three live objects (f64/f64, f64/f32, f64/f32/f64) created on one
//! fresh thread, every word over {judged product of a size class on an object, update_n, drop + new in
//! place, replace by a clone of another object, continue on the second thread (objects move), lend an
//! object to the other thread (which clones it through a shared reference and uses the clone)}.  Its
//! replay is the whole script and runs on fresh threads of its own, so it is deterministic whatever else
//! the process did; it runs first.  (iii) The other families run on the threads of the rayon pool, which
//! have made the calls of earlier units (objects of both float types, every size) - unrecorded
//! interference.  Hence every failure they see is re-judged on FRESH threads before it is reported:
//! what shows alone is reported as it is.  What does not is a sign of a history-dependent defect: if the
//! scripts report a violation it is left to them (listed in the evidence); otherwise it is retried after
//! each entry of a small menu of recorded thread histories (another object of either float type, grown
//! to a small / medium / larger-than-any table, dropped or kept alive) and the first history that shows
//! it becomes part of its replay and signature; if no fresh thread shows it and nothing else is reported,
//! the run ends without a verdict (exit 2).  Every replay runs on a fresh thread.

use rayon::prelude::*;
use rlib_fft::{Complex, FFT};
use rlib_num_traits::{Float, ZeroOne};
use std::sync::atomic::{AtomicU64, Ordering::Relaxed};
use vcore::*;

static SHORT_DEST_JUDGED: AtomicU64 = AtomicU64::new(0);
static SHORT_DEST_REFUSED: AtomicU64 = AtomicU64::new(0);
static FRESH_THREADS: AtomicU64 = AtomicU64::new(0);
/// destination-length family: calls judged per variant [multiply_into, fft_inv_into, fft_into], of which
/// with an odd destination shorter than what is due, and calls refused by a panic (not judged)
static DEST_LEN_JUDGED: [AtomicU64; 3] = [AtomicU64::new(0), AtomicU64::new(0), AtomicU64::new(0)];
static DEST_LEN_ODD_SHORT: [AtomicU64; 3] = [AtomicU64::new(0), AtomicU64::new(0), AtomicU64::new(0)];
static DEST_LEN_REFUSED: [AtomicU64; 3] = [AtomicU64::new(0), AtomicU64::new(0), AtomicU64::new(0)];
const DEST_VARIANTS: [&str; 3] = ["multiply_into", "fft_inv_into", "fft_into"];
/// Calls whose transform size is at most this get EVERY destination length 0..=due + DEST_LEN_BEYOND for
/// each accumulate-into variant (due = product length for multiply_into, transform size for the others).
const DEST_LEN_MAX_N: usize = 16;
const DEST_LEN_BEYOND: usize = 2;

fn harness_thread_failed(what: &str) -> ! {
    println!("MACHINERY-FAILURE property=C04 engine=fft {what} (not a verdict)");
    std::process::exit(2)
}

/// `f` on a FRESH thread, waited for: nothing was called on that thread before, so whatever the library
/// keeps per thread starts from scratch there, and what the thread has done when a call is judged is
/// exactly what `f` did before it.  The calling thread itself never calls into the crate.
fn on_fresh_thread<T: Send>(f: impl FnOnce() -> T + Send) -> T {
    FRESH_THREADS.fetch_add(1, Relaxed);
    let joined = std::thread::scope(|sc| match std::thread::Builder::new().spawn_scoped(sc, f) {
        Ok(h) => h.join(),
        Err(e) => harness_thread_failed(&format!("cannot start a thread: {e}")),
    });
    // calls into the crate are caught where they are made: what arrives here is a panic of the harness
    joined.unwrap_or_else(|_| harness_thread_failed("a harness thread panicked outside a call into the library"))
}

fn conv(a: &[i32], b: &[i32]) -> Vec<i64> {
    if a.is_empty() || b.is_empty() {
        return vec![];
    }
    if a.len() as u64 * b.len() as u64 > 50_000_000 {
        // long operands: exact schoolbook in i64 (|result| <= 1e12 inside the envelope, checked), output
        // index ranges in parallel
        let n = a.len() + b.len() - 1;
        let bound = a.iter().map(|x| x.unsigned_abs() as u128).max().unwrap() * b.iter().map(|x| x.unsigned_abs() as u128).max().unwrap() * a.len().min(b.len()) as u128;
        assert!(bound < (1u128 << 62), "reference convolution would overflow i64");
        let (s, l): (&[i32], &[i32]) = if a.len() <= b.len() { (a, b) } else { (b, a) };
        return (0..n)
            .into_par_iter()
            .map(|k| {
                let lo = k.saturating_sub(l.len() - 1);
                let hi = k.min(s.len() - 1);
                let mut acc = 0i64;
                for i in lo..=hi {
                    acc += s[i] as i64 * l[k - i] as i64;
                }
                acc
            })
            .collect();
    }
    let mut r = vec![0i128; a.len() + b.len() - 1];
    for (i, &x) in a.iter().enumerate() {
        if x == 0 {
            continue;
        }
        for (j, &y) in b.iter().enumerate() {
            r[i + j] += x as i128 * y as i128;
        }
    }
    r.into_iter().map(|v| v as i64).collect()
}

/// deterministic coefficient patterns of magnitude <= a
fn pattern(kind: u8, len: usize, a: i32) -> Vec<i32> {
    (0..len)
        .map(|i| match kind {
            0 => a,
            1 => -a,
            2 => {
                if i % 2 == 0 {
                    a
                } else {
                    -a
                }
            }
            3 => {
                if i == 0 {
                    a
                } else {
                    0
                }
            }
            4 => {
                if i + 1 == len {
                    -a
                } else {
                    0
                }
            }
            5 => {
                if i == len / 2 {
                    a
                } else {
                    0
                }
            }
            6 => {
                if i == 0 || i + 1 == len {
                    a
                } else {
                    0
                }
            }
            7 => (i as i64 % (a as i64 + 1)) as i32,
            // pseudo-irregular, full range [-a, a]
            _ => (((i as i64 * i as i64 * 31 + i as i64 * 17 + 7) % (2 * a as i64 + 1)) - a as i64) as i32,
        })
        .collect()
}

const PATTERN_PAIRS: &[(u8, u8)] = &[(0, 0), (1, 0), (2, 2), (2, 0), (3, 4), (5, 5), (6, 6), (7, 7), (8, 8), (8, 2), (0, 8), (1, 1)];
const PATTERN_NAMES: &[&str] = &["all +A", "all -A", "alternating ±A", "spike at 0", "negative spike at end", "spike in the middle", "A at both ends", "ramp", "irregular full range"];

#[derive(Clone, Copy, PartialEq, Debug)]
enum Prec {
    F64,
    F32,
}

fn envelope(prec: Prec) -> f64 {
    match prec {
        Prec::F64 => 1e12,
        Prec::F32 => 1e3,
    }
}

/// Largest magnitude allowed for these lengths.  The crate's published envelope (precision.rs) is a
/// table L(A, B): arrays of values in [0..=A] / [0..=B], BOTH of length L, multiply correctly; shorter
/// arrays are covered as zero-padded ones, so a call (a, b) is inside the published envelope when
/// max(len a, len b) <= L.  The property's quantifier summarises this as A^2 * min(len) <= 1e12, which for
/// very unequal lengths reaches outside the table (measured: len 1 x len 5000 at A = 1e6 is off by one);
/// the check therefore uses A^2 * MAX(len a, len b) <= 1e12, which satisfies the quantifier's formula
/// and stays >= 25x inside every table entry.
fn amax(prec: Prec, la: usize, lb: usize) -> i32 {
    let m = la.max(lb).max(1) as f64;
    let mut a = (envelope(prec) / m).sqrt().floor() as i64;
    while (a as f64) * (a as f64) * m > envelope(prec) {
        a -= 1;
    }
    a.clamp(0, i32::MAX as i64) as i32
}

fn magnitudes(prec: Prec, la: usize, lb: usize) -> Vec<i32> {
    let top = amax(prec, la, lb);
    let mut v = vec![1, top];
    if top > 3 {
        v.push((top as f64).sqrt() as i32 + 1);
    }
    v.retain(|&a| a >= 1 && a <= top);
    v.sort();
    v.dedup();
    v
}

/// The public ways of obtaining an object: `FFT::new()`, `Default::default()`, `Clone::clone` of either
/// (the crate has no other constructor, no `From`, no `with_capacity`).
#[derive(Clone, Copy, PartialEq, Eq, Hash, Debug)]
enum Ctor {
    New,
    Default,
    CloneOfNew,
    CloneOfDefault,
}

const CTORS: [Ctor; 4] = [Ctor::New, Ctor::Default, Ctor::CloneOfNew, Ctor::CloneOfDefault];

impl Ctor {
    fn name(self) -> &'static str {
        match self {
            Ctor::New => "new",
            Ctor::Default => "default",
            Ctor::CloneOfNew => "clone-of-new",
            Ctor::CloneOfDefault => "clone-of-default",
        }
    }
    fn from_name(s: &str) -> Ctor {
        CTORS.iter().copied().find(|c| c.name() == s).unwrap_or(Ctor::New)
    }
    fn make<F: Float>(self) -> FFT<F> {
        match self {
            Ctor::New => FFT::new(),
            Ctor::Default => Default::default(),
            Ctor::CloneOfNew => {
                let f = FFT::<F>::new();
                f.clone()
            }
            Ctor::CloneOfDefault => {
                let f: FFT<F> = Default::default();
                f.clone()
            }
        }
    }
}

/// Operands that are views of ONE buffer (they may overlap or coincide); the lengths are those of
/// `CallSpec::a` / `CallSpec::b`, which hold the values of the two views.
#[derive(Clone, Debug)]
struct Views {
    buf: Vec<i32>,
    a0: usize,
    b0: usize,
}

#[derive(Clone, Debug)]
struct CallSpec {
    prec: Prec,
    /// how the object was obtained
    ctor: Ctor,
    /// table size of the object before the call (1 and 2: `update_n` below the pre-sized 4, which changes
    /// nothing in an object that pre-sizes its tables)
    state: usize,
    /// how the state was reached: false = update_n, true = a multiply needing that transform size
    grown_by_multiply: bool,
    a: Vec<i32>,
    b: Vec<i32>,
    /// None: a and b are separately allocated vectors
    views: Option<Views>,
}

impl CallSpec {
    fn plain(prec: Prec, state: usize, a: Vec<i32>, b: Vec<i32>) -> CallSpec {
        CallSpec { prec, ctor: Ctor::New, state, grown_by_multiply: false, a, b, views: None }
    }
}

/// (family, message) of a failed judgement
type Failed = (&'static str, String);

fn show(v: &[i64]) -> String {
    if v.len() <= 12 {
        format!("{:?}", v)
    } else {
        format!("{:?}…({} values)", &v[..12], v.len())
    }
}

fn first_diff(x: &[i64], y: &[i64]) -> String {
    match x.iter().zip(y.iter()).position(|(p, q)| p != q) {
        Some(i) => format!("first difference at index {i}: got {} expected {}", x[i], y[i]),
        None => format!("lengths {} vs {}", x.len(), y.len()),
    }
}

/// The object state of a spec: obtained by `ctor`, brought to table size `state`.  A panic while the
/// object is obtained or grown is a violation like any other, and the multiply that grows it is judged
/// (ones x ones inside the envelope: coefficient k is the number of index pairs with sum k).
fn grow<F: Float>(prec: Prec, ctor: Ctor, state: usize, by_multiply: bool) -> Result<FFT<F>, Failed> {
    let mut f = catch(|| ctor.make::<F>()).map_err(|p| ("object_state_panics", format!("obtaining the object ({}) panicked: {p}", ctor.name())))?;
    if by_multiply {
        // needs n = state: la + lb - 1 in (state/2, state]
        let n = state.max(2);
        let la = n / 2 + 1;
        let lb = n - la + 1;
        let got = catch(|| f.multiply(&vec![1; la], &vec![1; lb])).map_err(|p| ("multiply_panics", format!("the multiply of all-ones vectors of lengths {la} and {lb} that brings the object to table size {state} panicked: {p}")))?;
        let exp: Vec<i64> = (0..la + lb - 1).map(|k| (k + 1).min(la).min(lb).min(la + lb - 1 - k) as i64).collect();
        if amax(prec, la, lb) >= 1 && got != exp {
            return Err(("multiply_exact", format!("the multiply of all-ones vectors of lengths {la} and {lb} that brings the object to table size {state} returned {}, the integer convolution is {}; {}", show(&got), show(&exp), first_diff(&got, &exp))));
        }
    } else {
        catch(|| f.update_n(state)).map_err(|p| ("object_state_panics", format!("update_n({state}) on the new object panicked: {p}")))?;
    }
    Ok(f)
}

/// Previous contents of an i64 destination: arbitrary values - small ones, and ones that no float type
/// represents exactly (above 2^24 / 2^53), of both signs, far from overflowing when a product is added.
fn pre(i: usize) -> i64 {
    match i % 5 {
        0 => 1000 + 7 * i as i64,
        1 => (1i64 << 53) + 1 + i as i64,
        2 => -(1i64 << 60) - 3 * i as i64,
        3 => (1i64 << 24) + 1,
        _ => (1i64 << 61) + 12345,
    }
}

/// Previous contents of a spectrum destination: small integers, both parts non-zero.
fn cpre<F: Float>(i: usize) -> Complex<F> {
    Complex::new(F::from_i32(3 + 2 * (i % 7) as i32), F::from_i32(-5 - (i % 4) as i32))
}

/// What an accumulate-into call left in a destination that held `pre(i)`, against `due` (the coefficients
/// a destination that is long enough receives): every position that exists holds its previous value plus
/// its coefficient, a position beyond what is due its previous value.
fn judge_dest(what: &str, due: &[i64], dest: &[i64]) -> Result<(), String> {
    for (i, &d) in dest.iter().enumerate() {
        let term = due.get(i).copied().unwrap_or(0);
        if d != pre(i) + term {
            let beyond = if i >= due.len() { ", beyond what is due: it must stay as it was" } else { "" };
            return Err(format!("{what} on a pre-filled destination of length {} ({} coefficients are due): entry {i} held {} before, is {d} after, expected {} (coefficient {term}{beyond})", dest.len(), due.len(), pre(i), pre(i) + term));
        }
    }
    Ok(())
}

fn count_dest_len(variant: usize, k: usize, due: usize) {
    DEST_LEN_JUDGED[variant].fetch_add(1, Relaxed);
    if k < due && k % 2 == 1 {
        DEST_LEN_ODD_SHORT[variant].fetch_add(1, Relaxed);
    }
}

/// DESTINATION LENGTHS of the transform variants (transform size n <= DEST_LEN_MAX_N): `fft_into(a, n, D)`,
/// `fft_into(b, n, D)` and `fft_inv_into(fft(a) * fft(b), D)` with a pre-filled D of EVERY length
/// 0..=n + DEST_LEN_BEYOND.  The crate zips the destination with the n values, so the positions that exist
/// receive their values (the first len(D) coefficients of the product; for the forward transform the sum, in
/// the float type, of what they held and the value `fft` returns on an object in the same state) and
/// positions beyond n stay as they were.  A version that refuses a length other than n by panicking is not
/// judged there (counted).  `small_tables`: every call on its own copy of the object, so that each length
/// is the call that grows the tables; otherwise (tables >= n, nothing grows) one copy serves all lengths.
fn judge_destination_lengths<F: Float>(obj: &FFT<F>, small_tables: bool, a: &[i32], b: &[i32], n: usize, due: &[i64]) -> Result<(), Failed> {
    let cloned = || catch(|| obj.clone()).map_err(|p| ("object_state_panics", format!("cloning the object panicked: {p}")));
    let lengths = 0..=n + DEST_LEN_BEYOND;
    let mut spectra = vec![];
    for (name, v) in [("a", a), ("b", b)] {
        let mut o = cloned()?;
        let full = catch(|| o.fft(v, n)).map_err(|p| ("transform_panics", format!("fft({name}, {n}) panicked: {p}")))?;
        for k in lengths.clone() {
            if small_tables {
                o = cloned()?;
            }
            let mut dest: Vec<Complex<F>> = (0..k).map(cpre).collect();
            match catch(|| o.fft_into(v, n, &mut dest)) {
                Err(p) if k == n => return Err(("transform_panics", format!("fft_into({name}, {n}) on a pre-filled destination of length {n} panicked: {p}"))),
                Err(_) => {
                    DEST_LEN_REFUSED[2].fetch_add(1, Relaxed);
                    o = cloned()?;
                }
                Ok(()) => {
                    count_dest_len(2, k, n);
                    for i in 0..k {
                        let want = if i < n { cpre::<F>(i) + full[i] } else { cpre(i) };
                        if dest[i] != want {
                            let beyond = if i >= n { " (beyond the transform size: it must stay as it was)" } else { "" };
                            return Err(("fft_into_destination_length", format!("fft_into({name}, {n}) on a pre-filled destination of length {k}: entry {i} held {:?} before, is {:?} after; fft({name}, {n})[{i}] is {:?}, expected {:?}{beyond}", cpre::<F>(i), dest[i], full.get(i), want)));
                        }
                    }
                }
            }
        }
        spectra.push(full);
    }
    let prod: Vec<Complex<F>> = spectra[0].iter().zip(spectra[1].iter()).map(|(x, y)| *x * *y).collect();
    let mut o = cloned()?;
    for k in lengths {
        if small_tables {
            o = cloned()?;
        }
        let mut dest: Vec<i64> = (0..k).map(pre).collect();
        match catch(|| o.fft_inv_into(&prod, &mut dest)) {
            Err(p) if k == n => return Err(("transform_panics", format!("fft_inv_into of a spectrum of {n} values on a pre-filled destination of length {n} panicked: {p}"))),
            Err(_) => {
                DEST_LEN_REFUSED[1].fetch_add(1, Relaxed);
                o = cloned()?;
            }
            Ok(()) => {
                count_dest_len(1, k, n);
                judge_dest(&format!("fft_inv_into of fft(a, {n}) * fft(b, {n})"), due, &dest).map_err(|m| ("fft_inv_into_destination_length", m))?;
            }
        }
    }
    Ok(())
}

/// All judgements of one call.  Err((family, message)).  `small_tables`: the object's tables may be
/// smaller than DEST_LEN_MAX_N (see `judge_destination_lengths`).
fn judge_call<F: Float>(obj: &FFT<F>, small_tables: bool, a: &[i32], b: &[i32]) -> Result<(), Failed> {
    let exp = conv(a, b);
    let cloned = || catch(|| obj.clone()).map_err(|p| ("object_state_panics", format!("cloning the object panicked: {p}")));
    // 1. multiply on the (possibly grown) object
    let mut o1 = cloned()?;
    let got = catch(|| o1.multiply(a, b)).map_err(|p| ("multiply_panics", format!("multiply panicked: {p}")))?;
    if got != exp {
        return Err(("multiply_exact", format!("multiply returned {}, the integer convolution is {}; {}", show(&got), show(&exp), first_diff(&got, &exp))));
    }
    // 2. the same call on a fresh object
    let mut fresh = catch(FFT::<F>::new).map_err(|p| ("object_state_panics", format!("FFT::new() panicked: {p}")))?;
    let gf = catch(|| fresh.multiply(a, b)).map_err(|p| ("multiply_panics", format!("multiply on a fresh object panicked: {p}")))?;
    if gf != got {
        return Err(("history_independence", format!("the reused object returned {}, a fresh object {}; {}", show(&got), show(&gf), first_diff(&got, &gf))));
    }
    // 2b. a second identical call on the same object
    let again = catch(|| o1.multiply(a, b)).map_err(|p| ("multiply_panics", format!("second multiply panicked: {p}")))?;
    if again != exp {
        return Err(("history_independence", format!("repeating the call on the same object returned {}; {}", show(&again), first_diff(&again, &exp))));
    }
    // 3. accumulate-into variant on a pre-filled destination, longer than needed
    let mut o2 = cloned()?;
    let dl = exp.len() + 3;
    let mut dest: Vec<i64> = (0..dl).map(pre).collect();
    catch(|| o2.multiply_into(a, b, &mut dest)).map_err(|p| ("multiply_panics", format!("multiply_into panicked: {p}")))?;
    for i in 0..dl {
        let want = pre(i) + if i < exp.len() { exp[i] } else { 0 };
        if dest[i] != want {
            return Err(("multiply_into_accumulates", format!("multiply_into on a pre-filled destination: entry {i} held {} before, is {} after, expected {} (convolution term {})", pre(i), dest[i], want, if i < exp.len() { exp[i] } else { 0 })));
        }
    }
    if exp.is_empty() {
        return Ok(());
    }
    // transform size of the product
    let mut n = 2;
    while n < exp.len() {
        n *= 2;
    }
    // 3b. destinations of OTHER lengths than the product, shorter ones above all (the usual "product modulo
    // x^k" call).  The crate zips the destination with the coefficients, so the positions that exist receive
    // their coefficients, the rest of the product is dropped and positions beyond the product stay as they
    // were.  Small transforms (n <= DEST_LEN_MAX_N): EVERY length 0..=product length + DEST_LEN_BEYOND;
    // larger ones: 1, the operand lengths, product length - 1.  A version that refuses a short destination by
    // panicking is not judged (the property does not say what happens then; counted); one that returns must
    // have added exactly the leading coefficients.
    let lengths: Vec<usize> = if n <= DEST_LEN_MAX_N {
        (0..=exp.len() + DEST_LEN_BEYOND).collect()
    } else {
        let mut shorts = vec![1, a.len().min(b.len()), a.len().max(b.len()), exp.len() - 1];
        shorts.retain(|&k| k >= 1 && k < exp.len());
        shorts.sort();
        shorts.dedup();
        shorts
    };
    for k in lengths {
        let mut o5 = cloned()?;
        let mut dest: Vec<i64> = (0..k).map(pre).collect();
        match catch(|| o5.multiply_into(a, b, &mut dest)) {
            Err(p) if k >= exp.len() => return Err(("multiply_panics", format!("multiply_into on a destination of length {k} (the product has {} coefficients) panicked: {p}", exp.len()))),
            Err(_) => {
                SHORT_DEST_REFUSED.fetch_add(1, Relaxed);
            }
            Ok(()) => {
                if k < exp.len() {
                    SHORT_DEST_JUDGED.fetch_add(1, Relaxed);
                }
                if n <= DEST_LEN_MAX_N {
                    count_dest_len(0, k, exp.len());
                }
                judge_dest("multiply_into", &exp, &dest).map_err(|m| (if k < exp.len() { "multiply_into_short_destination" } else { "multiply_into_accumulates" }, m))?;
            }
        }
    }
    // 4a. transform size 1 (single coefficients): the inverse's special case must accumulate as well
    if a.len() == 1 && b.len() == 1 {
        let mut o4 = cloned()?;
        let r = catch(|| {
            let fa = o4.fft(a, 1);
            let fb = o4.fft(b, 1);
            let prod = vec![fa[0] * fb[0]];
            let inv = o4.fft_inv(&prod);
            let mut acc = vec![(1i64 << 55) + 9; 1];
            o4.fft_inv_into(&prod, &mut acc);
            (inv, acc)
        })
        .map_err(|p| ("transform_panics", format!("fft / fft_inv of size 1 panicked: {p}")))?;
        if r.0 != exp {
            return Err(("transform_product_inverse", format!("size-1 transforms: fft(a)*fft(b) -> fft_inv gives {:?}, the product is {:?}", r.0, exp)));
        }
        if r.1 != vec![exp[0] + (1i64 << 55) + 9] {
            return Err(("fft_inv_into_accumulates", format!("size-1 fft_inv_into on a destination holding 2^55+9 gives {:?}, expected {:?}", r.1, vec![exp[0] + (1i64 << 55) + 9])));
        }
        judge_destination_lengths(obj, small_tables, a, b, 1, &exp)?;
    }
    // 4. forward transforms, pointwise product, inverse transform
    let mut o3 = cloned()?;
    let viat = catch(|| {
        let fa = o3.fft(a, n);
        let fb = o3.fft(b, n);
        let prod: Vec<Complex<F>> = fa.iter().zip(fb.iter()).map(|(x, y)| *x * *y).collect();
        let inv = o3.fft_inv(&prod);
        // accumulate-into form of the inverse as well
        let mut acc: Vec<i64> = (0..n).map(|i| if i % 2 == 0 { 5 } else { (1i64 << 55) + 9 }).collect();
        o3.fft_inv_into(&prod, &mut acc);
        (inv, acc, prod)
    })
    .map_err(|p| ("transform_panics", format!("fft / fft_inv panicked: {p}")))?;
    // 4b. the inverse transform ALONE on objects with other histories: the result of a public method must
    // not depend on what its object computed earlier — a fresh object, and a copy of the object as it was
    // BEFORE the forward transforms (its tables may be smaller than n), must invert the same spectrum alike
    {
        let prod = &viat.2;
        let mut fresh = FFT::<F>::new();
        let mut before = cloned()?;
        for (label, o) in [("a fresh object", &mut fresh), ("a copy of the object taken before the forward transforms", &mut before)] {
            let inv = catch(|| o.fft_inv(prod)).map_err(|p| ("transform_panics", format!("fft_inv on {label} panicked: {p}")))?;
            if inv != viat.0 {
                return Err(("history_independence", format!("fft_inv of the same spectrum (n = {n}) gives {} on the object that computed the forward transforms and {} on {label}; {}", show(&viat.0), show(&inv), first_diff(&inv, &viat.0))));
            }
        }
    }
    let mut padded = exp.clone();
    padded.resize(n, 0);
    if viat.0 != padded {
        return Err(("transform_product_inverse", format!("fft(a)*fft(b) -> fft_inv gives {}, the convolution is {}; {}", show(&viat.0), show(&padded), first_diff(&viat.0, &padded))));
    }
    let acc_want: Vec<i64> = padded.iter().enumerate().map(|(i, x)| x + if i % 2 == 0 { 5 } else { (1i64 << 55) + 9 }).collect();
    if viat.1 != acc_want {
        return Err(("fft_inv_into_accumulates", format!("fft_inv_into on a pre-filled destination (5 / 2^55+9 alternating): {}", first_diff(&viat.1, &acc_want))));
    }
    // 4c. every destination length of the transform variants
    if n <= DEST_LEN_MAX_N {
        judge_destination_lengths(obj, small_tables, a, b, n, &padded)?;
    }
    Ok(())
}


/// VALUE STRUCTURE x DESTINATION LENGTH.  Value structures of an operand of length `len` (non-zero values
/// of magnitude <= m): what a version that looks at the VALUES of an operand (sparse, few non-zeros, zero
/// runs at either end, all zero, a single spike) may treat on a path of its own.
const STRUCTURES: &[&str] = &["dense", "all zero", "spike at 0", "spike in the middle", "spike at the end", "non-zero at both ends only", "three non-zeros spread out", "four non-zeros spread out", "leading half zero", "trailing half zero", "zero runs at both ends"];
/// operand lengths of the family: every pair
const STRUCT_LENS: &[usize] = &[0, 1, 2, 3, 5, 8, 9, 15, 16, 17, 24, 31, 32, 33, 40];
const STRUCT_STATES: &[usize] = &[4, 64];
static STRUCT_JUDGED: AtomicU64 = AtomicU64::new(0);
static STRUCT_SHORT_JUDGED: AtomicU64 = AtomicU64::new(0);
static STRUCT_REFUSED: AtomicU64 = AtomicU64::new(0);
static STRUCT_SPARSE_LONG_SHORT: AtomicU64 = AtomicU64::new(0);

fn structured(kind: usize, len: usize, m: i32) -> Vec<i32> {
    let dense = |i: usize| -> i32 {
        let v = ((i as i64 * 5 + 3) % (2 * m as i64 + 1)) as i32 - m;
        if v == 0 {
            m
        } else {
            v
        }
    };
    (0..len)
        .map(|i| {
            let on = match kind {
                0 => true,
                1 => false,
                2 => i == 0,
                3 => i == len / 2,
                4 => i + 1 == len,
                5 => i == 0 || i + 1 == len,
                6 => i == 0 || i == len / 2 || i + 1 == len,
                7 => i == 0 || i == len / 3 || i == 2 * len / 3 || i + 1 == len,
                8 => i >= len / 2,
                9 => i < (len + 1) / 2,
                _ => i >= len / 3 && i < len - len / 3,
            };
            if on {
                dense(i)
            } else {
                0
            }
        })
        .collect()
}

#[derive(Clone, Debug)]
struct StructSpec {
    prec: Prec,
    state: usize,
    a: Vec<i32>,
    b: Vec<i32>,
    /// Some(k): only multiply_into on a destination of length k; None: every length, every variant
    dest_len: Option<usize>,
}

/// One pair of operands: `multiply_into(a, b, D)` on a pre-filled D of EVERY length 0..=product length + 1,
/// judged as the small-size destination family judges it (the positions that exist receive their
/// coefficients of the schoolbook product, the rest is untouched; a panic at a length >= the product is a
/// violation); then the transform variants on every destination length (`judge_destination_lengths`).
/// A panic at a length SHORTER than the product is 'refused, not judged' as everywhere else - provided the
/// refusal is one of the call SHAPE: if the same object state accepts the same (len a, len b, len D) for
/// dense operands (returns normally), the shape is in the version's domain and the panic is a panic on an
/// in-envelope input (family multiply_into_short_destination_refused_by_values).
fn judge_structured<F: Float>(s: &StructSpec) -> Result<(), (Failed, Option<usize>)> {
    let obj = grow::<F>(s.prec, Ctor::New, s.state, false).map_err(|e| (e, s.dest_len))?;
    let (a, b) = (&s.a[..], &s.b[..]);
    let due = conv(a, b);
    let cloned = |k: Option<usize>| catch(|| obj.clone()).map_err(|p| (("object_state_panics", format!("cloning the object panicked: {p}")), k));
    let lengths: Vec<usize> = match s.dest_len {
        Some(k) => vec![k],
        None => (0..=due.len() + 1).collect(),
    };
    let sparse_long = |v: &[i32]| v.len() >= 9 && v.iter().filter(|&&x| x != 0).count() * 2 < v.len();
    for k in lengths {
        let mut o = cloned(Some(k))?;
        let mut dest: Vec<i64> = (0..k).map(pre).collect();
        match catch(|| o.multiply_into(a, b, &mut dest)) {
            Err(p) if k >= due.len() => return Err((("multiply_panics", format!("multiply_into on a destination of length {k} (the product has {} coefficients) panicked: {p}", due.len())), Some(k))),
            Err(p) => {
                let (wa, wb) = (structured(0, a.len(), 1), structured(0, b.len(), 1));
                let mut o = cloned(Some(k))?;
                let mut wd: Vec<i64> = (0..k).map(pre).collect();
                if (a != &wa[..] || b != &wb[..]) && catch(|| o.multiply_into(&wa, &wb, &mut wd)).is_ok() {
                    return Err((("multiply_into_short_destination_refused_by_values", format!("multiply_into on a pre-filled destination of length {k} (the product has {} coefficients) panicked: {p}; the same object state returns normally from the same call shape (len a = {}, len b = {}, destination of length {k}) with dense operands of magnitude 1, so short destinations are accepted and the panic depends on the coefficient VALUES", due.len(), a.len(), b.len())), Some(k)));
                }
                STRUCT_REFUSED.fetch_add(1, Relaxed);
            }
            Ok(()) => {
                STRUCT_JUDGED.fetch_add(1, Relaxed);
                if k < due.len() {
                    STRUCT_SHORT_JUDGED.fetch_add(1, Relaxed);
                    if sparse_long(a) || sparse_long(b) {
                        STRUCT_SPARSE_LONG_SHORT.fetch_add(1, Relaxed);
                    }
                }
                judge_dest("multiply_into", &due, &dest).map_err(|m| ((if k < due.len() { "multiply_into_short_destination" } else { "multiply_into_accumulates" }, m), Some(k)))?;
            }
        }
    }
    if s.dest_len.is_none() && !due.is_empty() {
        let n = due.len().next_power_of_two().max(2);
        let mut padded = due.clone();
        padded.resize(n, 0);
        judge_destination_lengths(&obj, s.state < n, a, b, n, &padded).map_err(|e| (e, None))?;
    }
    Ok(())
}

fn run_struct(s: &StructSpec) -> Result<(), (Failed, Option<usize>)> {
    match s.prec {
        Prec::F64 => judge_structured::<f64>(s),
        Prec::F32 => judge_structured::<f32>(s),
    }
}

fn struct_json(s: &StructSpec) -> Value {
    json!({"kind": "value_structure_x_destination_length", "prec": format!("{:?}", s.prec), "state": s.state, "a": rle(&s.a), "b": rle(&s.b), "dest_len": s.dest_len})
}

fn struct_from(v: &Value) -> StructSpec {
    StructSpec { prec: if v["prec"] == "F32" { Prec::F32 } else { Prec::F64 }, state: v["state"].as_u64().unwrap() as usize, a: unrle(&v["a"]), b: unrle(&v["b"]), dest_len: v["dest_len"].as_u64().map(|k| k as usize) }
}

/// the whole vector when it is short, else its non-zero entries
fn describe_sparse(v: &[i32]) -> String {
    let nz: Vec<String> = v.iter().enumerate().filter(|(_, &x)| x != 0).map(|(i, x)| format!("{i}:{x}")).collect();
    if v.len() <= 10 || nz.len() > 6 {
        describe(v)
    } else {
        format!("len {} zero but {{{}}}", v.len(), nz.join(","))
    }
}

fn run_spec(s: &CallSpec) -> Result<(), Failed> {
    // aliased operands are passed as what they are: two views of one allocation
    let (a, b): (&[i32], &[i32]) = match &s.views {
        None => (&s.a, &s.b),
        Some(v) => (&v.buf[v.a0..v.a0 + s.a.len()], &v.buf[v.b0..v.b0 + s.b.len()]),
    };
    match s.prec {
        Prec::F64 => judge_call(&grow::<f64>(s.prec, s.ctor, s.state, s.grown_by_multiply)?, s.state < DEST_LEN_MAX_N, a, b),
        Prec::F32 => judge_call(&grow::<f32>(s.prec, s.ctor, s.state, s.grown_by_multiply)?, s.state < DEST_LEN_MAX_N, a, b),
    }
}

fn spec_json(s: &CallSpec) -> Value {
    let mut j = json!({"prec": format!("{:?}", s.prec), "ctor": s.ctor.name(), "state": s.state, "grown_by_multiply": s.grown_by_multiply, "a": rle(&s.a), "b": rle(&s.b)});
    if let Some(v) = &s.views {
        j["views"] = json!({"buf": rle(&v.buf), "a0": v.a0, "b0": v.b0});
    }
    j
}

fn spec_from(v: &Value) -> CallSpec {
    let mut s = CallSpec {
        prec: if v["prec"] == "F32" { Prec::F32 } else { Prec::F64 },
        ctor: Ctor::from_name(v["ctor"].as_str().unwrap_or("new")),
        state: v["state"].as_u64().unwrap() as usize,
        grown_by_multiply: v["grown_by_multiply"].as_bool().unwrap(),
        a: unrle(&v["a"]),
        b: unrle(&v["b"]),
        views: None,
    };
    if let Some(w) = v.get("views") {
        s.views = Some(Views { buf: unrle(&w["buf"]), a0: w["a0"].as_u64().unwrap() as usize, b0: w["b0"].as_u64().unwrap() as usize });
    }
    s
}

fn signature(fam: &str, s: &CallSpec) -> String {
    let ctor = if s.ctor == Ctor::New { String::new() } else { format!(":ctor={}", s.ctor.name()) };
    let views = match &s.views {
        None => String::new(),
        Some(v) => format!(":views of one buffer of {} a=[{}..{}) b=[{}..{})", v.buf.len(), v.a0, v.a0 + s.a.len(), v.b0, v.b0 + s.b.len()),
    };
    format!("{fam}:{:?}:state={}{ctor}:{}:a={}:b={}{views}", s.prec, s.state, if s.grown_by_multiply { "grown-by-multiply" } else { "update_n" }, describe(&s.a), describe(&s.b))
}

fn rle(v: &[i32]) -> Value {
    let mut runs = vec![];
    let mut i = 0;
    while i < v.len() {
        let mut j = i;
        while j < v.len() && v[j] == v[i] {
            j += 1;
        }
        runs.push(json!([v[i], j - i]));
        i = j;
    }
    Value::Array(runs)
}

fn unrle(v: &Value) -> Vec<i32> {
    let mut out = vec![];
    for r in v.as_array().unwrap() {
        out.extend(std::iter::repeat(r[0].as_i64().unwrap() as i32).take(r[1].as_u64().unwrap() as usize));
    }
    out
}

fn describe(v: &[i32]) -> String {
    if v.len() <= 10 {
        format!("{:?}", v)
    } else {
        format!("{:?}…(len {})", &v[..6], v.len())
    }
}

// ---------------------------------------------------------------------------------------------
// call histories on one object (form H)

#[derive(Clone, Debug)]
enum HOp {
    Mul(usize, usize, u8),
    Update(usize),
    Fft(usize),
}

fn history_alphabet() -> Vec<HOp> {
    vec![HOp::Mul(2, 2, 0), HOp::Mul(33, 31, 2), HOp::Mul(600, 500, 8), HOp::Mul(1, 1, 1), HOp::Update(256), HOp::Fft(64), HOp::Mul(0, 3, 0), HOp::Mul(70_000, 3, 8)]
}

fn run_history(ops: &[HOp]) -> Result<(), String> {
    let mut f = FFT::<f64>::new();
    for (k, op) in ops.iter().enumerate() {
        match op {
            HOp::Update(n) => f.update_n(*n),
            HOp::Fft(n) => {
                // one forward transform, squared pointwise, inverse: the product v * v
                let v = pattern(8, *n, 1000);
                let spec = f.fft(&v, 2 * *n);
                let prod: Vec<Complex<f64>> = spec.iter().map(|x| *x * *x).collect();
                let mut exp = conv(&v, &v);
                exp.resize(2 * *n, 0);
                if f.fft_inv(&prod) != exp {
                    return Err(format!("call #{k} {:?} of the history {:?} on one object: fft -> pointwise square -> fft_inv differs from the convolution", op, ops));
                }
            }
            HOp::Mul(la, lb, kind) => {
                let a = pattern(*kind, *la, amax(Prec::F64, *la, *lb).min(1_000_000));
                let b = pattern(8, *lb, amax(Prec::F64, *la, *lb).min(1_000_000));
                let got = f.multiply(&a, &b);
                let exp = conv(&a, &b);
                if got != exp {
                    return Err(format!("call #{k} {:?} of the history {:?} on one object differs from the convolution", op, ops));
                }
                let mut fresh = FFT::<f64>::new();
                if fresh.multiply(&a, &b) != got {
                    return Err(format!("call #{k} {:?} of the history {:?} differs from the same call on a fresh object", op, ops));
                }
            }
        }
    }
    Ok(())
}

fn hop_json(o: &HOp) -> Value {
    match o {
        HOp::Mul(a, b, k) => json!({"mul": [a, b, k]}),
        HOp::Update(n) => json!({"update_n": n}),
        HOp::Fft(n) => json!({"fft": n}),
    }
}

fn hop_from(v: &Value) -> HOp {
    if let Some(m) = v.get("mul") {
        HOp::Mul(m[0].as_u64().unwrap() as usize, m[1].as_u64().unwrap() as usize, m[2].as_u64().unwrap() as u8)
    } else if let Some(n) = v.get("update_n") {
        HOp::Update(n.as_u64().unwrap() as usize)
    } else {
        HOp::Fft(v["fft"].as_u64().unwrap() as usize)
    }
}

// ---------------------------------------------------------------------------------------------
// operands that alias: views of one buffer

/// How two views of one buffer relate (for the evidence counters).
fn relation(a0: usize, la: usize, b0: usize, lb: usize) -> &'static str {
    if la == 0 || lb == 0 {
        "one view empty"
    } else if a0 == b0 && la == lb {
        "the same slice twice"
    } else if a0 == b0 {
        "same start, different length (one is a prefix of the other)"
    } else if a0 + la == b0 + lb {
        "same end, different start (one is a suffix of the other)"
    } else if a0 + la <= b0 || b0 + lb <= a0 {
        "disjoint windows of one allocation"
    } else if (a0 < b0 && b0 + lb < a0 + la) || (b0 < a0 && a0 + la < b0 + lb) {
        "one strictly inside the other"
    } else {
        "partially overlapping windows"
    }
}

/// (buffer length, a0, la, b0, lb), simplest first: ALL pairs of windows of a buffer of `small` elements
/// (the empty window included), then for the longer lengths of `long` the structured relations.
fn alias_layouts(small: usize, long: &[usize]) -> Vec<(usize, usize, usize, usize, usize)> {
    let mut windows = vec![(0usize, 0usize)];
    for len in 1..=small {
        for start in 0..=small - len {
            windows.push((start, len));
        }
    }
    let mut v = vec![];
    for &(a0, la) in &windows {
        for &(b0, lb) in &windows {
            v.push((small, a0, la, b0, lb));
        }
    }
    v.sort_by_key(|&(_, a0, la, b0, lb)| (la + lb, la, a0, b0));
    for &l in long {
        let h = l / 2;
        let mut w = vec![(l, 0, l, 0, l)];
        for k in [1, h, l - 1] {
            w.push((l, 0, l, 0, k)); // b is a prefix of a
            w.push((l, 0, k, 0, l)); // a is a prefix of b
            w.push((l, 0, l, l - k, k)); // b is a suffix of a
            w.push((l, l - k, k, 0, l)); // a is a suffix of b
        }
        w.push((l, 0, l, 1, h)); // b strictly inside a
        w.push((l, h / 2, h, 0, l)); // a strictly inside b
        w.push((l + h, 0, l, h, l)); // overlapping windows
        w.push((l + h, h, l, 0, l));
        w.push((l + 1, 0, l, 1, l)); // shifted by one
        w.push((2 * l, 0, l, l, l)); // adjacent
        w.push((2 * l, l, l, 0, l));
        w.dedup();
        v.extend(w);
    }
    v
}

// ---------------------------------------------------------------------------------------------
// buffer-reuse histories: one object, ONE set of caller buffers, refilled in place between the calls

/// The public methods, called on the persistent buffers A (len la), B (len lb), the spectrum buffers and
/// the destination D.
#[derive(Clone, Copy, PartialEq, Debug)]
enum RMethod {
    /// multiply(A, B)
    Mul,
    /// multiply(B, A)
    MulSwapped,
    /// multiply_into(A, B, D), D refilled in place with the pre-fill pattern
    MulInto,
    /// fft(A, n), fft(B, n), pointwise product, fft_inv
    Route,
    /// fft_into(A, n, SA), fft_into(B, n, SB) into the zeroed persistent spectrum buffers, pointwise
    /// product into SP, fft_inv_into(SP, D)
    RouteInto,
    /// fft(A, n) once, squared pointwise, fft_inv: the product A * A
    SquareA,
    /// the same with B
    SquareB,
}

const RMETHODS: [RMethod; 7] = [RMethod::Mul, RMethod::MulSwapped, RMethod::MulInto, RMethod::Route, RMethod::RouteInto, RMethod::SquareA, RMethod::SquareB];
/// contents of (A, B) as pattern kinds; contents 1 is contents 0 with A and B exchanged
const RCONTENTS: [(u8, u8); 3] = [(8, 2), (2, 8), (7, 1)];

#[derive(Clone, Debug)]
struct ReuseSpec {
    prec: Prec,
    ctor: Ctor,
    la: usize,
    lb: usize,
    /// (index into RCONTENTS, index into RMETHODS)
    steps: Vec<(usize, usize)>,
}

static REFILLS_IN_PLACE: AtomicU64 = AtomicU64::new(0);
static REUSE_STEPS: AtomicU64 = AtomicU64::new(0);

fn dest_prefill(i: usize) -> i64 {
    match i % 3 {
        0 => 1000 + 7 * i as i64,
        1 => (1i64 << 55) + 9,
        _ => -(1i64 << 60) - 3 * i as i64,
    }
}

fn run_reuse_typed<F: Float>(s: &ReuseSpec) -> Result<(), String> {
    let (la, lb) = (s.la, s.lb);
    let mag = amax(s.prec, la, lb);
    let size_for = |len: usize| len.next_power_of_two().max(2);
    let n_ab = size_for(la + lb - 1);
    let n_max = size_for(2 * la.max(lb) - 1);
    let mut obj = s.ctor.make::<F>();
    // the caller's buffers: allocated once, never reallocated below
    let mut abuf = vec![0i32; la];
    let mut bbuf = vec![0i32; lb];
    let mut sa = vec![Complex::<F>::ZERO; n_ab];
    let mut sb = vec![Complex::<F>::ZERO; n_ab];
    let mut sp = vec![Complex::<F>::ZERO; n_ab];
    let mut dest = vec![0i64; n_max + 3];
    let addr = (abuf.as_ptr() as usize, bbuf.as_ptr() as usize, sa.as_ptr() as usize, dest.as_ptr() as usize);
    for (k, &(ci, mi)) in s.steps.iter().enumerate() {
        let (ka, kb) = RCONTENTS[ci];
        // refill in place
        abuf.copy_from_slice(&pattern(ka, la, mag));
        bbuf.copy_from_slice(&pattern(kb, lb, mag));
        for i in 0..dest.len() {
            dest[i] = dest_prefill(i);
        }
        for x in sa.iter_mut().chain(sb.iter_mut()).chain(sp.iter_mut()) {
            *x = Complex::ZERO;
        }
        if (abuf.as_ptr() as usize, bbuf.as_ptr() as usize, sa.as_ptr() as usize, dest.as_ptr() as usize) != addr {
            return Err("harness: a caller buffer moved".to_string());
        }
        REFILLS_IN_PLACE.fetch_add(1, Relaxed);
        REUSE_STEPS.fetch_add(1, Relaxed);
        let m = RMETHODS[mi];
        // (what was computed, what it must be); destinations are reported as the amount ADDED
        let (got, exp): (Vec<i64>, Vec<i64>) = match m {
            RMethod::Mul => (obj.multiply(&abuf, &bbuf), conv(&abuf, &bbuf)),
            RMethod::MulSwapped => (obj.multiply(&bbuf, &abuf), conv(&bbuf, &abuf)),
            RMethod::MulInto => {
                let l = la + lb - 1 + 3;
                obj.multiply_into(&abuf, &bbuf, &mut dest[..l]);
                let mut e = conv(&abuf, &bbuf);
                e.resize(l, 0);
                ((0..l).map(|i| dest[i].wrapping_sub(dest_prefill(i))).collect(), e)
            }
            RMethod::Route => {
                let fa = obj.fft(&abuf, n_ab);
                let fb = obj.fft(&bbuf, n_ab);
                let prod: Vec<Complex<F>> = fa.iter().zip(fb.iter()).map(|(x, y)| *x * *y).collect();
                let mut e = conv(&abuf, &bbuf);
                e.resize(n_ab, 0);
                (obj.fft_inv(&prod), e)
            }
            RMethod::RouteInto => {
                obj.fft_into(&abuf, n_ab, &mut sa);
                obj.fft_into(&bbuf, n_ab, &mut sb);
                for i in 0..n_ab {
                    sp[i] = sa[i] * sb[i];
                }
                obj.fft_inv_into(&sp, &mut dest[..n_ab]);
                let mut e = conv(&abuf, &bbuf);
                e.resize(n_ab, 0);
                ((0..n_ab).map(|i| dest[i].wrapping_sub(dest_prefill(i))).collect(), e)
            }
            RMethod::SquareA | RMethod::SquareB => {
                let v: &[i32] = if m == RMethod::SquareA { &abuf } else { &bbuf };
                let n = size_for(2 * v.len() - 1);
                let f = obj.fft(v, n);
                let prod: Vec<Complex<F>> = f.iter().map(|x| *x * *x).collect();
                let mut e = conv(v, v);
                e.resize(n, 0);
                (obj.fft_inv(&prod), e)
            }
        };
        if got != exp {
            let at = got.iter().zip(exp.iter()).position(|(p, q)| p != q);
            let diff = match at {
                Some(i) => format!("first difference at index {i}: got {} expected {}", got[i], exp[i]),
                None => format!("lengths {} vs {}", got.len(), exp.len()),
            };
            return Err(format!(
                "step #{k} ({:?} on contents {ci}: A = {}, B = {}) of a history on ONE {:?} object obtained by {} whose caller buffers (inputs of lengths {la} and {lb}, spectra, destination) stay at the same addresses and are refilled in place before every step: the result differs from the integer convolution of the buffers' CURRENT values; {diff}",
                m,
                describe(&abuf),
                describe(&bbuf),
                s.prec,
                s.ctor.name()
            ));
        }
    }
    Ok(())
}

fn run_reuse(s: &ReuseSpec) -> Result<(), String> {
    let r = match s.prec {
        Prec::F64 => catch(|| run_reuse_typed::<f64>(s)),
        Prec::F32 => catch(|| run_reuse_typed::<f32>(s)),
    };
    r.unwrap_or_else(|p| Err(format!("panic in a buffer-reuse history: {p}")))
}

fn reuse_json(s: &ReuseSpec) -> Value {
    json!({"kind": "reuse_history", "prec": format!("{:?}", s.prec), "ctor": s.ctor.name(), "la": s.la, "lb": s.lb,
           "steps": s.steps.iter().map(|&(c, m)| json!({"contents": c, "method": format!("{:?}", RMETHODS[m])})).collect::<Vec<_>>()})
}

fn reuse_from(v: &Value) -> ReuseSpec {
    ReuseSpec {
        prec: if v["prec"] == "F32" { Prec::F32 } else { Prec::F64 },
        ctor: Ctor::from_name(v["ctor"].as_str().unwrap_or("new")),
        la: v["la"].as_u64().unwrap() as usize,
        lb: v["lb"].as_u64().unwrap() as usize,
        steps: v["steps"]
            .as_array()
            .unwrap()
            .iter()
            .map(|st| {
                let name = st["method"].as_str().unwrap();
                (st["contents"].as_u64().unwrap() as usize, RMETHODS.iter().position(|m| format!("{:?}", m) == name).unwrap())
            })
            .collect(),
    }
}

fn reuse_signature(s: &ReuseSpec) -> String {
    let steps: Vec<String> = s.steps.iter().map(|&(c, m)| format!("{:?}(contents {c})", RMETHODS[m])).collect();
    format!("buffer_reuse_history:{:?}:ctor={}:la={}:lb={}:{}", s.prec, s.ctor.name(), s.la, s.lb, steps.join(" -> "))
}

// ---------------------------------------------------------------------------------------------
// several objects: the history of a THREAD (which objects were created, grown, dropped on it, in which
// order) and objects that change threads

/// `Probe::<T>::SEND` / `::SYNC`: whether `T` is `Send` / `Sync`, decided by the compiler (an inherent
/// associated constant, which exists only when the bound holds, takes precedence over the trait's default).
struct Probe<T>(std::marker::PhantomData<T>);
#[allow(dead_code)] // the defaults are read only for a type that is not Send / not Sync
trait ProbeDefault {
    const SEND: bool = false;
    const SYNC: bool = false;
}
impl<T> ProbeDefault for Probe<T> {}
impl<T: Send> Probe<T> {
    const SEND: bool = true;
}
impl<T: Sync> Probe<T> {
    const SYNC: bool = true;
}
/// objects may be used on a thread other than the one that created them
const OBJECTS_ARE_SEND: bool = Probe::<FFT<f64>>::SEND && Probe::<FFT<f32>>::SEND;
/// another thread may look at an object through a shared reference (all it can do with one is clone it)
const OBJECTS_ARE_SYNC: bool = Probe::<FFT<f64>>::SYNC && Probe::<FFT<f32>>::SYNC;

/// The objects of one script, reachable from both of its threads.  The threads take turns (the
/// coordinator waits for every step before it sends the next) and lock the mutex for a step.
struct Across<T>(T);
// SAFETY: the compiler cannot see that the boxed objects are Send / Sync (the harness does not want to
// assume it: a library whose objects are not is still checked on one thread).  A second thread touches
// the objects only in a `Hop` step - generated only if OBJECTS_ARE_SEND - or a `Lend` step, which only
// reads through a shared reference and is generated only if OBJECTS_ARE_SYNC; `run_script` refuses such
// steps otherwise.  Without them every object is created, used and dropped by one and the same thread.
unsafe impl<T> Send for Across<T> {}
unsafe impl<T> Sync for Across<T> {}

/// (name, la, lb) of the judged products: transform sizes 2 (below the 4 every object is pre-sized to),
/// 16 and 512
const CLASSES: [(&str, usize, usize); 3] = [("tiny", 2, 1), ("mid", 9, 8), ("large", 300, 200)];
/// `update_n` target: larger than every class, reached without a transform
const UPDATE_TO: usize = 1024;
/// the product a borrowed clone computes
const LENT_CLASS: usize = 1;
const SLOT_NAMES: [&str; 3] = ["X", "Y", "Z"];

#[derive(Clone, Copy, PartialEq, Eq, Debug)]
enum Step {
    /// the judged product of a size class on the object in the slot: (slot, class)
    Mul(usize, usize),
    /// `update_n(UPDATE_TO)` on the object in the slot
    Update(usize),
    /// the object in the slot is dropped, then a new one (`new()`) takes its place
    Renew(usize),
    /// (to, from): the object in `to` is replaced by a clone of the one in `from` (same float type)
    CloneInto(usize, usize),
    /// the steps that follow run on the script's other thread: every object moves
    Hop,
    /// the script's other thread clones the object through a shared reference, computes the judged
    /// product LENT_CLASS on its clone and drops the clone; the owner goes on afterwards
    Lend(usize),
}

impl Step {
    fn name(self) -> String {
        let s = |x: usize| SLOT_NAMES[x];
        match self {
            Step::Mul(x, c) => format!("{}.mul({})", s(x), CLASSES[c].0),
            Step::Update(x) => format!("{}.update_n({UPDATE_TO})", s(x)),
            Step::Renew(x) => format!("{}=new", s(x)),
            Step::CloneInto(to, from) => format!("{}={}.clone", s(to), s(from)),
            Step::Hop => "hop".to_string(),
            Step::Lend(x) => format!("{}.lend", s(x)),
        }
    }
    fn json(self) -> Value {
        match self {
            Step::Mul(x, c) => json!(["mul", x, c]),
            Step::Update(x) => json!(["update_n", x]),
            Step::Renew(x) => json!(["renew", x]),
            Step::CloneInto(to, from) => json!(["clone_into", to, from]),
            Step::Hop => json!(["hop"]),
            Step::Lend(x) => json!(["lend", x]),
        }
    }
    fn from(v: &Value) -> Step {
        let n = |i: usize| v[i].as_u64().unwrap() as usize;
        match v[0].as_str().unwrap() {
            "mul" => Step::Mul(n(1), n(2)),
            "update_n" => Step::Update(n(1)),
            "renew" => Step::Renew(n(1)),
            "clone_into" => Step::CloneInto(n(1), n(2)),
            "lend" => Step::Lend(n(1)),
            _ => Step::Hop,
        }
    }
}

/// The whole history of the script's threads: the cast (float type per slot) is created in slot order by
/// `new()` on the first thread, then the steps run, then everything is dropped where the last step ran.
#[derive(Clone, Debug)]
struct Script {
    cast: Vec<Prec>,
    steps: Vec<Step>,
}

/// the menu of a cast, simplest first
fn script_letters(cast: &[Prec]) -> Vec<Step> {
    let slots = 0..cast.len();
    let mut v: Vec<Step> = slots.clone().flat_map(|x| (0..CLASSES.len()).map(move |c| Step::Mul(x, c))).collect();
    v.extend(slots.clone().map(Step::Update));
    v.extend(slots.clone().map(Step::Renew));
    for to in slots.clone() {
        v.extend(slots.clone().filter(|&from| from != to && cast[from] == cast[to]).map(|from| Step::CloneInto(to, from)));
    }
    if OBJECTS_ARE_SEND {
        v.push(Step::Hop);
    }
    if OBJECTS_ARE_SYNC {
        v.extend(slots.map(Step::Lend));
    }
    v
}

/// What a script does with an object, whatever its float type; every call into the crate is caught.
trait Transformer {
    fn judged_product(&mut self, prec: Prec, class: usize) -> Result<(), String>;
    fn update(&mut self, n: usize) -> Result<(), String>;
    fn duplicate(&self) -> Result<Box<dyn Transformer>, String>;
}

impl<F: Float + 'static> Transformer for FFT<F> {
    fn judged_product(&mut self, prec: Prec, class: usize) -> Result<(), String> {
        let (_, la, lb) = CLASSES[class];
        let mag = amax(prec, la, lb);
        judge_on(self, &pattern(8, la, mag), &pattern(2, lb, mag))
    }
    fn update(&mut self, n: usize) -> Result<(), String> {
        catch(|| self.update_n(n)).map_err(|p| format!("update_n({n}) panicked: {p}"))
    }
    fn duplicate(&self) -> Result<Box<dyn Transformer>, String> {
        catch(|| Box::new(self.clone()) as Box<dyn Transformer>).map_err(|p| format!("clone panicked: {p}"))
    }
}

/// One product on the object ITSELF (no clone, no other object comes into being): multiply, multiply_into
/// on a pre-filled destination longer than the product, forward x forward -> inverse (returned and
/// accumulated into a pre-filled destination), each against the schoolbook convolution.
fn judge_on<F: Float>(obj: &mut FFT<F>, a: &[i32], b: &[i32]) -> Result<(), String> {
    let exp = conv(a, b);
    let got = catch(|| obj.multiply(a, b)).map_err(|p| format!("multiply panicked: {p}"))?;
    if got != exp {
        return Err(format!("multiply returned {}, the integer convolution is {}; {}", show(&got), show(&exp), first_diff(&got, &exp)));
    }
    let added_to = |dest: &[i64]| -> Vec<i64> { dest.iter().enumerate().map(|(i, d)| d.wrapping_sub(dest_prefill(i))).collect() };
    let mut dest: Vec<i64> = (0..exp.len() + 3).map(dest_prefill).collect();
    catch(|| obj.multiply_into(a, b, &mut dest)).map_err(|p| format!("multiply_into panicked: {p}"))?;
    let mut want = exp.clone();
    want.resize(dest.len(), 0);
    if added_to(&dest) != want {
        return Err(format!("multiply_into on a pre-filled destination added {}, the integer convolution is {}; {}", show(&added_to(&dest)), show(&want), first_diff(&added_to(&dest), &want)));
    }
    let n = exp.len().next_power_of_two().max(2);
    let (inv, acc) = catch(|| {
        let fa = obj.fft(a, n);
        let fb = obj.fft(b, n);
        let prod: Vec<Complex<F>> = fa.iter().zip(fb.iter()).map(|(x, y)| *x * *y).collect();
        let inv = obj.fft_inv(&prod);
        let mut acc: Vec<i64> = (0..n).map(dest_prefill).collect();
        obj.fft_inv_into(&prod, &mut acc);
        (inv, acc)
    })
    .map_err(|p| format!("fft / fft_inv panicked: {p}"))?;
    want.resize(n, 0);
    if inv != want {
        return Err(format!("fft(a)*fft(b) -> fft_inv gives {}, the convolution is {}; {}", show(&inv), show(&want), first_diff(&inv, &want)));
    }
    if added_to(&acc) != want {
        return Err(format!("fft_inv_into on a pre-filled destination added {}, the convolution is {}; {}", show(&added_to(&acc)), show(&want), first_diff(&added_to(&acc), &want)));
    }
    Ok(())
}

type Slots = Vec<Option<Box<dyn Transformer>>>;

enum Job {
    Create(usize),
    Do(Step),
    DropAll,
}

static SCRIPT_PRODUCTS: AtomicU64 = AtomicU64::new(0);
static SCRIPT_STEPS_ON_SECOND_THREAD: AtomicU64 = AtomicU64::new(0);

fn new_object(prec: Prec) -> Result<Box<dyn Transformer>, String> {
    let made = match prec {
        Prec::F64 => catch(|| Box::new(FFT::<f64>::new()) as Box<dyn Transformer>),
        Prec::F32 => catch(|| Box::new(FFT::<f32>::new()) as Box<dyn Transformer>),
    };
    made.map_err(|p| format!("FFT::new() panicked: {p}"))
}

fn dropped(old: Option<Box<dyn Transformer>>) -> Result<(), String> {
    catch(move || drop(old)).map_err(|p| format!("dropping an object panicked: {p}"))
}

/// one job, on the thread that was told to do it
fn do_job(cast: &[Prec], slots: &mut Slots, job: Job) -> Result<(), String> {
    let absent = || "harness: the slot is empty".to_string();
    match job {
        Job::Create(x) | Job::Do(Step::Renew(x)) => {
            dropped(slots[x].take())?;
            slots[x] = Some(new_object(cast[x])?);
            Ok(())
        }
        Job::Do(Step::Mul(x, c)) => {
            SCRIPT_PRODUCTS.fetch_add(1, Relaxed);
            slots[x].as_mut().ok_or_else(absent)?.judged_product(cast[x], c)
        }
        Job::Do(Step::Update(x)) => slots[x].as_mut().ok_or_else(absent)?.update(UPDATE_TO),
        Job::Do(Step::CloneInto(to, from)) => {
            let copy = slots[from].as_ref().ok_or_else(absent)?.duplicate()?;
            dropped(slots[to].replace(copy))
        }
        Job::Do(Step::Lend(x)) => {
            SCRIPT_PRODUCTS.fetch_add(1, Relaxed);
            let lent: &dyn Transformer = &**slots[x].as_ref().ok_or_else(absent)?;
            let mut copy = lent.duplicate()?;
            let r = copy.judged_product(cast[x], LENT_CLASS).map_err(|m| format!("on a clone made through a shared reference: {m}"));
            dropped(Some(copy))?;
            r
        }
        Job::Do(Step::Hop) => Ok(()),
        Job::DropAll => slots.iter_mut().try_for_each(|s| dropped(s.take())),
    }
}

fn describe_script(s: &Script, upto: usize) -> String {
    let cast: Vec<String> = s.cast.iter().enumerate().map(|(x, p)| format!("{} ({:?})", SLOT_NAMES[x], p)).collect();
    let mut thread = 0;
    let mut told = vec![];
    for st in &s.steps[..upto] {
        match st {
            Step::Hop => {
                thread = 1 - thread;
                told.push(format!("all objects move to thread T{thread}"));
            }
            Step::Lend(_) => told.push(format!("{} to T{}", st.name(), 1 - thread)),
            _ => told.push(format!("{} on T{thread}", st.name())),
        }
    }
    format!("objects {} created in this order by new() on the fresh thread T0{}{}", cast.join(", "), if told.is_empty() { "" } else { "; then " }, told.join(", "))
}

/// Plain execution of one script on (at most) two fresh threads of its own; the calling thread only
/// hands out the steps, one at a time, and calls nothing.
fn run_script(s: &Script) -> Result<(), String> {
    use std::sync::mpsc::{channel, Receiver, Sender};
    if s.cast.len() > SLOT_NAMES.len() || (!OBJECTS_ARE_SEND && s.steps.contains(&Step::Hop)) || (!OBJECTS_ARE_SYNC && s.steps.iter().any(|st| matches!(st, Step::Lend(_)))) {
        harness_thread_failed("a script moves or shares objects that the compiler does not allow to be moved or shared, or names a slot that does not exist");
    }
    let slots: Across<std::sync::Mutex<Slots>> = Across(std::sync::Mutex::new(s.cast.iter().map(|_| None).collect()));
    let (slots, cast) = (&slots, &s.cast[..]);
    std::thread::scope(|sc| {
        let mut threads: [Option<(Sender<Job>, Receiver<Result<(), String>>)>; 2] = [None, None];
        let mut tell = |t: usize, job: Job| -> Result<(), String> {
            let (to, from) = threads[t].get_or_insert_with(|| {
                FRESH_THREADS.fetch_add(1, Relaxed);
                let ((to, jobs), (done, from)) = (channel::<Job>(), channel());
                let body = move || {
                    for job in jobs {
                        let r = do_job(cast, &mut slots.0.lock().unwrap_or_else(|e| e.into_inner()), job);
                        if done.send(r).is_err() {
                            return;
                        }
                    }
                };
                if let Err(e) = std::thread::Builder::new().spawn_scoped(sc, body) {
                    harness_thread_failed(&format!("cannot start a thread: {e}"));
                }
                (to, from)
            });
            if t == 1 {
                SCRIPT_STEPS_ON_SECOND_THREAD.fetch_add(1, Relaxed);
            }
            let _ = to.send(job);
            from.recv().unwrap_or_else(|_| harness_thread_failed("a script thread panicked outside a call into the library"))
        };
        let mut current = 0;
        let mut verdict = (0..cast.len()).try_for_each(|x| tell(0, Job::Create(x)).map_err(|m| format!("creating the objects {:?} by new() on a fresh thread: {m}", cast)));
        for (k, &step) in s.steps.iter().enumerate() {
            if verdict.is_err() {
                break;
            }
            let on = match step {
                Step::Hop => {
                    current = 1 - current;
                    continue;
                }
                Step::Lend(_) => 1 - current,
                _ => current,
            };
            verdict = tell(on, Job::Do(step)).map_err(|m| format!("{}; step #{k}, {} on T{on}: {m}", describe_script(s, k), step.name()));
        }
        let cleared = tell(current, Job::DropAll);
        verdict.and(cleared)
    })
}

fn script_json(s: &Script) -> Value {
    json!({"kind": "several_objects", "cast": s.cast.iter().map(|p| format!("{:?}", p)).collect::<Vec<_>>(), "steps": s.steps.iter().map(|st| st.json()).collect::<Vec<_>>()})
}

fn script_from(v: &Value) -> Script {
    Script { cast: v["cast"].as_array().unwrap().iter().map(|p| if p == "F32" { Prec::F32 } else { Prec::F64 }).collect(), steps: v["steps"].as_array().unwrap().iter().map(Step::from).collect() }
}

fn script_signature(s: &Script) -> String {
    let cast: Vec<String> = s.cast.iter().map(|p| format!("{:?}", p)).collect();
    let steps: Vec<String> = s.steps.iter().map(|st| st.name()).collect();
    format!("several_objects:{}:{}", cast.join(","), steps.join(" -> "))
}

/// The script of a (word length, rank) of a cast: words of one length in lexicographic order of the menu.
fn script_of(cast: &[Prec], letters: &[Step], len: usize, mut rank: u64) -> Script {
    let mut steps = vec![letters[0]; len];
    for pos in (0..len).rev() {
        steps[pos] = letters[(rank % letters.len() as u64) as usize];
        rank /= letters.len() as u64;
    }
    Script { cast: cast.to_vec(), steps }
}

// ---------------------------------------------------------------------------------------------

/// One recorded case, on the thread that calls this.
fn confirm_here(v: &Value) -> Result<(), String> {
    if v["kind"] == "several_objects" {
        return run_script(&script_from(v));
    }
    if v["kind"] == "reuse_history" {
        return run_reuse(&reuse_from(v));
    }
    if v["kind"] == "value_structure_x_destination_length" {
        return run_struct(&struct_from(v)).map_err(|((f, m), _)| format!("[{f}] {m}"));
    }
    if v["kind"] == "history" {
        let ops: Vec<HOp> = v["ops"].as_array().unwrap().iter().map(hop_from).collect();
        return catch(|| run_history(&ops)).unwrap_or_else(|p| Err(format!("panic: {p}")));
    }
    run_spec(&spec_from(v)).map_err(|(f, m)| format!("[{f}] {m}"))
}

/// What else a thread may have done before a call (the `thread_history` of a replay): another object of
/// a float type created on it by `new()`, grown to a table size by `update_n`, then dropped or kept alive.
#[derive(Clone, Copy)]
struct Another {
    prec: Prec,
    size: usize,
    kept: bool,
}

impl Another {
    /// The menu, simplest first: a table smaller than most calls need, a medium one, one larger than
    /// any call of either tier needs.
    fn menu() -> Vec<Another> {
        let mut v = vec![];
        for size in [8, 2048, 1 << 21] {
            for prec in [Prec::F64, Prec::F32] {
                v.extend([true, false].map(|kept| Another { prec, size, kept }));
            }
        }
        v
    }
    fn words(self) -> String {
        format!("another {:?} object created by new(), update_n({}), {}", self.prec, self.size, if self.kept { "kept alive" } else { "dropped" })
    }
    fn json(self) -> Value {
        json!({"another_object": format!("{:?}", self.prec), "update_n": self.size, "kept": self.kept})
    }
    fn from(v: &Value) -> Another {
        Another { prec: if v["another_object"] == "F32" { Prec::F32 } else { Prec::F64 }, size: v["update_n"].as_u64().unwrap() as usize, kept: v["kept"].as_bool().unwrap() }
    }
    /// on the calling thread; the object, if it is kept
    fn happen(self) -> Result<Option<Box<dyn Transformer>>, String> {
        let mut o = new_object(self.prec)?;
        o.update(self.size)?;
        if self.kept {
            return Ok(Some(o));
        }
        dropped(Some(o)).map(|_| None)
    }
}

/// Plain re-execution of a recorded case on a FRESH thread, after the recorded `thread_history` (if any)
/// on that same thread.
fn confirm(v: &Value) -> Result<(), String> {
    on_fresh_thread(|| {
        let history: Vec<Another> = v.get("thread_history").and_then(|h| h.as_array()).map(|h| h.iter().map(Another::from).collect()).unwrap_or_default();
        let mut alive = vec![];
        for h in &history {
            alive.extend(h.happen().map_err(|m| format!("{}: {m}", h.words()))?);
        }
        let verdict = confirm_here(v);
        let cleared = alive.into_iter().try_for_each(|o| dropped(Some(o)));
        let told: Vec<String> = history.iter().map(|h| h.words()).collect();
        verdict.and(cleared).map_err(|m| if told.is_empty() { m } else { format!("{m} [on a fresh thread, after: {}]", told.join("; ")) })
    })
}

/// A failure seen by the exploration, before it is known whether a fresh thread shows it again.
struct Candidate {
    signature: String,
    summary: String,
    replay: Value,
}

/// The first entry of the menu after which a fresh thread shows the candidate (which it does not show
/// alone), as the violation to report: the history is part of its replay and of its signature.
fn after_some_history(c: &Candidate) -> Option<Violation> {
    Another::menu().into_iter().find_map(|h| {
        let mut after = c.replay.clone();
        after["thread_history"] = json!([h.json()]);
        confirm(&after).err()?;
        let summary = format!("{} [seen on a pool thread that had made the calls of other units before; alone on a fresh thread the call passes; on a fresh thread it fails after: {}]", c.summary, h.words());
        Some(Violation::new(format!("{}:after {}", c.signature, h.words()), summary, after))
    })
}

#[derive(Default)]
struct Tot {
    calls: u64,
    nontrivial: u64,
    size_switch: u64,
    fails: Vec<(u64, &'static str, CallSpec, String)>,
}

fn merge(mut a: Tot, b: Tot) -> Tot {
    a.calls += b.calls;
    a.nontrivial += b.nontrivial;
    a.size_switch += b.size_switch;
    // keep only the first failure per family
    for f in b.fails {
        match a.fails.iter_mut().find(|g| g.1 == f.1) {
            Some(g) => {
                if f.0 < g.0 {
                    *g = f;
                }
            }
            None => a.fails.push(f),
        }
    }
    a
}

fn main() {
    let args = Args::parse();
    quiet_panics();
    if args.replay.is_some() {
        Run::replay_main(&args, &confirm);
    }
    let mut run = Run::new(&args, "fft", "model_checking");
    let quick = args.tier == Tier::Quick;

    // --- part 0: several objects; the history of a thread is what is enumerated -----------------------
    // (cast, depth): every word of up to `depth` letters of the cast's menu, each on fresh threads of its own
    let (f64_, f32_) = (Prec::F64, Prec::F32);
    let casts: Vec<(Vec<Prec>, usize)> = if quick { vec![(vec![f64_, f64_], 3), (vec![f64_, f32_], 3), (vec![f64_, f32_, f64_], 2)] } else { vec![(vec![f64_, f64_], 4), (vec![f64_, f32_], 4), (vec![f64_, f32_, f64_], 3)] };
    let menus: Vec<Vec<Step>> = casts.iter().map(|c| script_letters(&c.0)).collect();
    // (word length, cast, rank among the words of that length): shortest first
    let mut script_ids: Vec<(usize, usize, u64)> = vec![];
    for (ci, (_, depth)) in casts.iter().enumerate() {
        for len in 0..=*depth {
            script_ids.extend((0..(menus[ci].len() as u64).pow(len as u32)).map(|rank| (len, ci, rank)));
        }
    }
    let script_fail = script_ids
        .par_iter()
        .filter_map(|&(len, ci, rank)| {
            let s = script_of(&casts[ci].0, &menus[ci], len, rank);
            run_script(&s).err().map(|m| ((len, ci, rank), s, m))
        })
        .min_by_key(|x| x.0);
    let n_scripts = script_ids.len() as u64;
    let (script_products, script_second_thread, script_threads) = (SCRIPT_PRODUCTS.load(Relaxed), SCRIPT_STEPS_ON_SECOND_THREAD.load(Relaxed), FRESH_THREADS.load(Relaxed));


    // object states
    let kmax = if quick { 11 } else { 13 };
    let states: Vec<usize> = (2..=kmax).map(|k| 1usize << k).collect();
    // length set
    let mut lens: Vec<usize> = if quick { (0..=40).collect() } else { (0..=130).collect() };
    lens.extend([63, 64, 65, 127, 128, 129]);
    if !quick {
        lens.extend([255, 256, 257, 511, 512, 513, 1023, 1024, 1025]);
    }
    lens.sort();
    lens.dedup();

    // --- part 1: all states x all (la, lb) x patterns ------------------------------------------
    // An object state is (constructor, table size, how it was reached).  Objects from `new()` at the sizes
    // 4..2^K get the full / thin slices of the length set; the other initial objects (default, clones) and
    // the sizes 1 and 2 below the pre-sized 4 (where `update_n` changes nothing in an object that
    // pre-sizes, so that the judged call is the FIRST transform of a fresh object) get the sparse slice:
    // every pair of lengths <= 8 (transform sizes 2, 4, 8, 16) and a third of the pairs at a size switch.
    #[derive(Clone, Copy, PartialEq)]
    enum Slice {
        Full,
        Thin,
        Sparse,
    }
    let mut object_states: Vec<(Ctor, usize, bool, Slice)> = vec![];
    for &st in &states {
        object_states.push((Ctor::New, st, false, Slice::Full));
        if st > 4 {
            object_states.push((Ctor::New, st, true, Slice::Thin));
        }
    }
    for &ctor in &CTORS {
        for (st, by_mul) in [(1, false), (2, false), (2, true), (4, false), (4, true), (8, false), (64, true), (2048, false)] {
            if !object_states.iter().any(|o| o.0 == ctor && o.1 == st && o.2 == by_mul) {
                object_states.push((ctor, st, by_mul, Slice::Sparse));
            }
        }
    }
    // (…, position of the object state in the list above: failures are reported for the earliest one)
    let mut tasks: Vec<(Prec, Ctor, usize, bool, usize, usize, usize)> = vec![];
    for &prec in &[Prec::F64, Prec::F32] {
        for (oi, &(ctor, st, by_mul, slice)) in object_states.iter().enumerate() {
            for (ia, &la) in lens.iter().enumerate() {
                for (ib, &lb) in lens.iter().enumerate() {
                    let at_switch = la + lb - (la + lb).min(1) == 0 || (la + lb).saturating_sub(1).is_power_of_two() || (la + lb).is_power_of_two() || (la + lb + 1).is_power_of_two();
                    // f32 and the multiply-grown variant: a thinner slice of the length set
                    let keep = match slice {
                        Slice::Full if prec == Prec::F64 => true,
                        Slice::Full | Slice::Thin => (ia + ib) % 3 == 0 || at_switch,
                        Slice::Sparse => (la <= 8 && lb <= 8) || (at_switch && (ia + ib) % 3 == 0),
                    };
                    if keep {
                        tasks.push((prec, ctor, st, by_mul, la, lb, oi));
                    }
                }
            }
        }
    }
    let idx_of = |t: &(Prec, Ctor, usize, bool, usize, usize, usize)| -> u64 { ((t.4 + t.5) as u64) << 40 | (t.6 as u64) << 20 | (t.4 as u64) << 8 };
    let part1 = tasks
        .par_iter()
        .map(|t| {
            let (prec, ctor, st, by_mul, la, lb, _) = *t;
            let mut tot = Tot::default();
            let base = idx_of(t);
            if la == 0 || lb == 0 {
                let s = CallSpec { prec, ctor, state: st, grown_by_multiply: by_mul, a: vec![1; la], b: vec![2; lb], views: None };
                tot.calls += 1;
                if let Err((f, m)) = run_spec(&s) {
                    tot.fails.push((base, f, s, m));
                }
                return tot;
            }
            let need = (la + lb - 1).next_power_of_two().max(2);
            for (mi, &a) in magnitudes(prec, la, lb).iter().enumerate() {
                for (pi, &(ka, kb)) in PATTERN_PAIRS.iter().enumerate() {
                    // thin the middle magnitudes
                    if mi == 1 && magnitudes(prec, la, lb).len() == 3 && pi % 3 != 0 {
                        continue;
                    }
                    let s = CallSpec { prec, ctor, state: st, grown_by_multiply: by_mul, a: pattern(ka, la, a), b: pattern(kb, lb, a), views: None };
                    tot.calls += 1;
                    tot.nontrivial += 1;
                    if need > st {
                        tot.size_switch += 1;
                    }
                    if let Err((f, m)) = run_spec(&s) {
                        tot.fails.push((base + (mi * 16 + pi) as u64, f, s, m));
                        if tot.fails.len() > 4 {
                            return tot;
                        }
                    }
                }
            }
            tot
        })
        .reduce(Tot::default, merge);

    // --- part 2: exhaustive vectors over {-A,-1,0,1,A} for la, lb <= 4 ----------------------------
    let small_states: Vec<usize> = if quick { vec![4, 8, 2048] } else { vec![4, 8, 16, 64, 2048, 8192] };
    let mut small_tasks = vec![];
    for &prec in &[Prec::F64, Prec::F32] {
        for &st in &small_states {
            if prec == Prec::F32 && st != 4 && st != 2048 {
                continue;
            }
            for la in 1..=4usize {
                for lb in 1..=4usize {
                    if quick && la + lb > 6 {
                        continue;
                    }
                    small_tasks.push((prec, st, la, lb));
                }
            }
        }
    }
    fn small_vectors<F: Float>(prec: Prec, st: usize, la: usize, lb: usize) -> Tot {
        let mut tot = Tot::default();
        let a_mag = amax(prec, la, lb);
        let letters = [-a_mag, -1, 0, 1, a_mag];
        let vector = |code: usize, len: usize| -> Vec<i32> { (0..len).map(|i| letters[(code / 5usize.pow(i as u32)) % 5]).collect() };
        let (na, nb) = (5usize.pow(la as u32), 5usize.pow(lb as u32));
        let fail = |rank: usize, (fam, msg): Failed, a: Vec<i32>, b: Vec<i32>| ((1u64 << 60) | ((la + lb) as u64) << 40 | rank as u64, fam, CallSpec::plain(prec, st, a, b), msg);
        // one object per unit; if it cannot be had, the unit's first call is what fails
        let obj = match grow::<F>(prec, Ctor::New, st, false) {
            Ok(o) => o,
            Err(e) => {
                tot.fails.push(fail(0, e, vector(0, la), vector(0, lb)));
                return tot;
            }
        };
        for ca in 0..na {
            let a = vector(ca, la);
            for cb in 0..nb {
                let b = vector(cb, lb);
                tot.calls += 1;
                if let Err(e) = judge_call(&obj, st < DEST_LEN_MAX_N, &a, &b) {
                    tot.fails.push(fail(ca * nb + cb, e, a, b));
                    return tot;
                }
            }
        }
        tot.nontrivial = tot.calls;
        tot
    }
    let part2 = small_tasks
        .par_iter()
        .map(|&(prec, st, la, lb)| match prec {
            Prec::F64 => small_vectors::<f64>(prec, st, la, lb),
            Prec::F32 => small_vectors::<f32>(prec, st, la, lb),
        })
        .reduce(Tot::default, merge);

    // --- part 3: envelope corners with long vectors -----------------------------------------------
    let mut corner_specs = vec![];
    // the largest corners need transform sizes 2^17 and 2^18: table levels and index widths that no
    // smaller call reaches
    let corners: Vec<(usize, usize)> = if quick { vec![(1, 1), (1000, 1000), (4096, 1), (1, 5000), (3000, 2000), (65536, 65536), (65537, 3)] } else { vec![(1, 1), (1000, 1000), (4096, 1), (1, 5000), (3000, 2000), (65536, 65536), (65537, 3), (100_000, 100_000), (100_000, 1000), (1_000_000, 2), (262_144, 262_144)] };
    for &(la, lb) in &corners {
        let pats: &[(u8, u8)] = if la as u64 * lb as u64 > 1_000_000_000 { &[(0, 0), (8, 8)] } else { &[(0, 0), (2, 2), (8, 8), (1, 0)] };
        for &(ka, kb) in pats {
            let a = amax(Prec::F64, la, lb).min(1_000_000);
            corner_specs.push(CallSpec::plain(Prec::F64, 4, pattern(ka, la, a), pattern(kb, lb, a)));
            if la * lb <= 4_000_000 {
                let a32 = amax(Prec::F32, la, lb);
                if a32 >= 1 {
                    corner_specs.push(CallSpec::plain(Prec::F32, 4, pattern(ka, la, a32), pattern(kb, lb, a32)));
                }
            }
        }
    }
    let part3 = corner_specs
        .par_iter()
        .enumerate()
        .map(|(i, s)| {
            let mut tot = Tot { calls: 1, nontrivial: 1, ..Default::default() };
            if let Err((f, m)) = run_spec(s) {
                tot.fails.push(((2u64 << 60) | i as u64, f, s.clone(), m));
            }
            tot
        })
        .reduce(Tot::default, merge);

    // --- part 4: all call histories of length <= 3 on one object ------------------------------------
    let alpha = history_alphabet();
    let mut hists: Vec<Vec<HOp>> = vec![];
    for a in &alpha {
        hists.push(vec![a.clone()]);
        for b in &alpha {
            hists.push(vec![a.clone(), b.clone()]);
            for c in &alpha {
                hists.push(vec![a.clone(), b.clone(), c.clone()]);
            }
        }
    }
    let hist_fail = hists
        .par_iter()
        .enumerate()
        .filter_map(|(i, h)| match catch(|| run_history(h)) {
            Ok(Ok(())) => None,
            Ok(Err(m)) => Some((i, h.clone(), m)),
            Err(p) => Some((i, h.clone(), format!("panic: {p}"))),
        })
        .min_by_key(|x| x.0);

    // --- part 5: operands that alias (views of one buffer) ------------------------------------------
    let alias_long: Vec<usize> = if quick { vec![9, 16, 17, 33, 64, 129] } else { vec![9, 15, 16, 17, 31, 32, 33, 40, 64, 65, 127, 128, 129, 513, 1025] };
    let layouts = alias_layouts(if quick { 8 } else { 10 }, &alias_long);
    let alias_objects: Vec<(Ctor, usize)> = vec![(Ctor::New, 4), (Ctor::New, 2048), (Ctor::Default, 1)];
    let mut alias_tasks = vec![];
    for &prec in &[Prec::F64, Prec::F32] {
        for (oi, &(ctor, st)) in alias_objects.iter().enumerate() {
            for (li, &lay) in layouts.iter().enumerate() {
                alias_tasks.push((prec, ctor, st, oi, li, lay));
            }
        }
    }
    let mut relation_counts: std::collections::BTreeMap<&'static str, u64> = Default::default();
    for &(_, a0, la, b0, lb) in &layouts {
        *relation_counts.entry(relation(a0, la, b0, lb)).or_default() += 1;
    }
    let part5 = alias_tasks
        .par_iter()
        .map(|&(prec, ctor, st, oi, li, (bl, a0, la, b0, lb))| {
            let mut tot = Tot::default();
            let mut mags = vec![1, amax(prec, la, lb)];
            mags.dedup();
            for (mi, &mag) in mags.iter().enumerate() {
                for (ki, kind) in [8u8, 7, 2, 0].into_iter().enumerate() {
                    let buf = pattern(kind, bl, mag);
                    let s = CallSpec { prec, ctor, state: st, grown_by_multiply: false, a: buf[a0..a0 + la].to_vec(), b: buf[b0..b0 + lb].to_vec(), views: Some(Views { buf, a0, b0 }) };
                    tot.calls += 1;
                    if la > 0 && lb > 0 {
                        tot.nontrivial += 1;
                    }
                    if let Err((f, m)) = run_spec(&s) {
                        tot.fails.push(((3u64 << 60) | (li as u64) << 16 | (oi as u64) << 8 | (mi * 4 + ki) as u64, f, s, m));
                        return tot;
                    }
                }
            }
            tot
        })
        .reduce(Tot::default, merge);

    // --- part 6: buffer-reuse histories ---------------------------------------------------------------
    // letters = (contents, method); every history of up to `depth` letters, per length pair, per
    // constructor, per precision, on one object and one set of caller buffers
    let reuse_pairs: Vec<(usize, usize, usize)> = if quick {
        vec![(1, 1, 3), (1, 2, 3), (2, 2, 3), (3, 2, 3), (4, 4, 3), (5, 9, 3), (16, 17, 3), (33, 31, 2)]
    } else {
        vec![(1, 1, 4), (1, 2, 4), (2, 2, 4), (3, 2, 4), (4, 4, 3), (5, 9, 3), (16, 17, 3), (33, 31, 3), (64, 65, 3), (129, 128, 2), (600, 500, 2)]
    };
    let letters: Vec<(usize, usize)> = (0..RCONTENTS.len()).flat_map(|c| (0..RMETHODS.len()).map(move |m| (c, m))).collect();
    let mut reuse_tasks = vec![];
    for (pi, &(la, lb, depth)) in reuse_pairs.iter().enumerate() {
        for &prec in &[Prec::F64, Prec::F32] {
            for &ctor in &[Ctor::New, Ctor::Default] {
                for &first in &letters {
                    reuse_tasks.push((pi, la, lb, depth, prec, ctor, first));
                }
            }
        }
    }
    // per task: number of histories run, and the first failing one as (length, rank in the task)
    let reuse_results: Vec<(u64, Option<(usize, u64, ReuseSpec, String)>)> = reuse_tasks
        .par_iter()
        .map(|&(_, la, lb, depth, prec, ctor, first)| {
            let mut count = 0u64;
            for len in 1..=depth {
                // the remaining len - 1 letters: all words, in lexicographic order
                let words = (letters.len() as u64).pow(len as u32 - 1);
                for rank in 0..words {
                    let mut steps = vec![first; len];
                    let mut r = rank;
                    for pos in (1..len).rev() {
                        steps[pos] = letters[(r % letters.len() as u64) as usize];
                        r /= letters.len() as u64;
                    }
                    let spec = ReuseSpec { prec, ctor, la, lb, steps };
                    count += 1;
                    if let Err(m) = run_reuse(&spec) {
                        return (count, Some((len, rank, spec, m)));
                    }
                }
            }
            (count, None)
        })
        .collect();
    let reuse_histories: u64 = reuse_results.iter().map(|r| r.0).sum();
    // shortest history first, then the smallest length pair, then task order
    let reuse_fail = reuse_results.iter().enumerate().filter_map(|(ti, r)| r.1.as_ref().map(|f| ((f.0, reuse_tasks[ti].0, ti, f.1), f))).min_by_key(|x| x.0).map(|x| x.1.clone());

    // --- value structure of the operands x destination length of the accumulate-into variants ----------
    // every pair of STRUCT_LENS x every structure against dense (either side) and against itself x both
    // float types x STRUCT_STATES; simplest first: (la + lb, la, structure, side, float type, state)
    let mut struct_tasks: Vec<(usize, usize)> = vec![];
    for &la in STRUCT_LENS {
        for &lb in STRUCT_LENS {
            struct_tasks.push((la, lb));
        }
    }
    struct_tasks.sort_by_key(|&(la, lb)| (la + lb, la));
    let struct_results: Vec<(u64, u64, Option<((usize, usize), &'static str, StructSpec, String)>)> = struct_tasks
        .par_iter()
        .map(|&(la, lb)| {
            let (mut pairs, mut skipped) = (0u64, 0u64);
            for kind in 0..STRUCTURES.len() {
                for side in 0..3 {
                    if kind == 0 && side > 0 {
                        continue;
                    }
                    for &prec in &[Prec::F64, Prec::F32] {
                        let m = amax(prec, la, lb).min(9);
                        if m < 1 {
                            skipped += 1;
                            continue;
                        }
                        let (ka, kb) = [(kind, 0), (0, kind), (kind, kind)][side];
                        for &state in STRUCT_STATES {
                            let mut spec = StructSpec { prec, state, a: structured(ka, la, m), b: structured(kb, lb, m), dest_len: None };
                            pairs += 1;
                            if let Err(((fam, msg), k)) = run_struct(&spec) {
                                spec.dest_len = k;
                                return (pairs, skipped, Some(((la + lb, la), fam, spec, msg)));
                            }
                        }
                    }
                }
            }
            (pairs, skipped, None)
        })
        .collect();
    let struct_pairs: u64 = struct_results.iter().map(|r| r.0).sum();
    let struct_skipped: u64 = struct_results.iter().map(|r| r.1).sum();
    // tasks are sorted simplest first: the first failing task holds the smallest failing case
    let struct_fail = struct_results.iter().find_map(|r| r.2.clone());

    // --- what is reported: per family the first failure that a fresh thread shows again ---------------
    let part5_calls = part5.calls;
    let mut all = merge(merge(merge(part1, part2), part3), part5);
    all.fails.sort_by_key(|f| f.0);
    // the scripts first: each is the whole history of fresh threads of its own
    let mut candidates = vec![];
    if let Some((_, s, m)) = &script_fail {
        candidates.push(Candidate { signature: script_signature(s), summary: format!("[several_objects] {m}"), replay: script_json(s) });
    }
    for (_, fam, s, m) in &all.fails {
        let views = match &s.views {
            None => String::new(),
            Some(v) => format!(" [a and b are VIEWS of one buffer of {} elements: a = buf[{}..{}], b = buf[{}..{}], {}]", v.buf.len(), v.a0, v.a0 + s.a.len(), v.b0, v.b0 + s.b.len(), relation(v.a0, s.a.len(), v.b0, s.b.len())),
        };
        let summary = format!("[{fam}] {:?} object obtained by {} with tables of size {} ({}), a = {} (len {}), b = {} (len {}){views}: {m}", s.prec, s.ctor.name(), s.state, if s.grown_by_multiply { "reached by a multiply" } else { "update_n" }, describe(&s.a), s.a.len(), describe(&s.b), s.b.len());
        candidates.push(Candidate { signature: signature(fam, s), summary, replay: spec_json(s) });
    }
    if let Some((_, _, spec, m)) = &reuse_fail {
        candidates.push(Candidate { signature: reuse_signature(spec), summary: m.clone(), replay: reuse_json(spec) });
    }
    if let Some((_, fam, spec, m)) = &struct_fail {
        let at = spec.dest_len.map(|k| format!(":dest_len={k}")).unwrap_or_default();
        let summary = format!("[{fam}] value structure x destination length: {:?} object from new() with tables of size {} (update_n), a = {} (len {}), b = {} (len {}): {m}", spec.prec, spec.state, describe_sparse(&spec.a), spec.a.len(), describe_sparse(&spec.b), spec.b.len());
        candidates.push(Candidate { signature: format!("{fam}:{:?}:state={}:a={}:b={}{at}", spec.prec, spec.state, describe_sparse(&spec.a), describe_sparse(&spec.b)), summary, replay: struct_json(spec) });
    }
    if let Some((_, h, m)) = &hist_fail {
        candidates.push(Candidate { signature: format!("history:{:?}", h), summary: m.clone(), replay: json!({"kind": "history", "ops": h.iter().map(hop_json).collect::<Vec<_>>()}) });
    }
    // what a fresh thread shows alone is reported as it is
    let (alone, not_alone): (Vec<Candidate>, Vec<Candidate>) = candidates.into_iter().partition(|c| confirm(&c.replay).is_err());
    let by_the_scripts = alone.iter().any(|c| c.replay["kind"] == "several_objects");
    for c in alone {
        run.violation(Violation::new(c.signature, c.summary, c.replay));
    }
    // The rest failed on a pool thread only: the defect depends on what the thread did before.  If the
    // scripts report (they enumerate exactly that, deterministically) it is left to them; otherwise a
    // recorded thread history under which a fresh thread shows the failure is looked for.
    let mut dispositions = vec![];
    for c in &not_alone {
        let after = if by_the_scripts { None } else { after_some_history(c) };
        dispositions.push(json!({"signature": c.signature, "disposition": match &after {
            Some(v) => format!("reported as {}", v.signature),
            None if by_the_scripts => "left to the several_objects violation".to_string(),
            None => "no fresh thread shows it (alone, after each thread history of the menu): not reported".to_string(),
        }}));
        if let Some(v) = after {
            run.violation(v);
        }
    }
    if !not_alone.is_empty() {
        run.cov("failures_on_pool_threads_that_a_fresh_thread_does_not_show_alone", json!(dispositions));
        if !run.has_violations() {
            run.machinery_failure(&format!("{} failure(s) seen on pool threads show on no fresh thread (alone, after each recorded thread history of the menu), and nothing else is reported; first: {}", not_alone.len(), not_alone[0].signature));
        }
    }

    let n_states = object_states.len() as u64;
    let n_hist = hists.len() as u64 + reuse_histories + n_scripts;
    run.cov("states", n_states);
    run.cov("transitions", all.calls + n_hist);
    run.cov("traces_validated_against_impl", all.calls + n_hist);
    run.cov("evaluations", all.calls + n_hist);
    run.cov("distinct_nontrivial", all.nontrivial);
    run.cov("calls_that_grow_the_tables", all.size_switch);
    run.cov("object_states", json!(states));
    run.cov("constructors", json!(CTORS.iter().map(|c| c.name()).collect::<Vec<_>>()));
    run.cov("object_states_constructor_x_size_x_how_reached", json!(object_states.iter().map(|o| format!("{}:{}:{}", o.0.name(), o.1, if o.2 { "multiply" } else { "update_n" })).collect::<Vec<_>>()));
    run.cov("aliased_operand_calls", part5_calls);
    run.cov("aliased_operand_layouts_by_relation", json!(relation_counts));
    run.cov("buffer_reuse_histories", reuse_histories);
    run.cov("buffer_reuse_steps_judged", REUSE_STEPS.load(Relaxed));
    run.cov("buffer_reuse_refills_in_place_same_address", REFILLS_IN_PLACE.load(Relaxed));
    run.cov("buffer_reuse_length_pairs_and_depth", json!(reuse_pairs));
    run.cov("lengths", json!(lens));
    run.cov("call_histories_up_to_3", hists.len() as u64);
    run.cov("exhaustive_small_vector_tasks", small_tasks.len() as u64);
    run.cov("several_objects_scripts", n_scripts);
    run.cov("several_objects_casts_and_depth", json!(casts.iter().map(|(c, d)| json!({"cast": c.iter().map(|p| format!("{:?}", p)).collect::<Vec<_>>(), "depth": d})).collect::<Vec<_>>()));
    run.cov("several_objects_menus", json!(menus.iter().map(|m| m.iter().map(|s| s.name()).collect::<Vec<_>>()).collect::<Vec<_>>()));
    run.cov("several_objects_judged_products", script_products);
    run.cov("several_objects_steps_on_the_second_thread", script_second_thread);
    run.cov("several_objects_fresh_threads_started", script_threads);
    run.cov("objects_are_send_sync_by_compile_time_probe", json!({"Send (objects move between threads)": OBJECTS_ARE_SEND, "Sync (objects are lent to another thread)": OBJECTS_ARE_SYNC}));
    run.cov("thread_histories_tried_when_a_failure_does_not_show_alone_on_a_fresh_thread", json!(Another::menu().iter().map(|h| h.words()).collect::<Vec<_>>()));
    run.cov("envelope", json!({"f64": "max|coef|^2 * max(len a, len b) <= 1e12", "f32": "max|coef|^2 * max(len a, len b) <= 1e3"}));
    run.cov("patterns", json!(PATTERN_NAMES));
    run.cov("exhaustive", false);
    run.cov("multiply_into_short_destination_calls_judged", SHORT_DEST_JUDGED.load(Relaxed));
    run.cov("multiply_into_short_destination_calls_refused_by_panic_not_judged", SHORT_DEST_REFUSED.load(Relaxed));
    let per_variant = |c: &[AtomicU64; 3]| -> Value { json!(DEST_VARIANTS.iter().zip(c.iter()).map(|(v, n)| (v.to_string(), json!(n.load(Relaxed)))).collect::<serde_json::Map<String, Value>>()) };
    run.cov("destination_length_family_transform_sizes_up_to", DEST_LEN_MAX_N as u64);
    run.cov("destination_length_family_lengths", format!("every length 0..=due + {DEST_LEN_BEYOND} (due = product length for multiply_into, transform size for fft_inv_into and fft_into)"));
    run.cov("destination_length_calls_judged", per_variant(&DEST_LEN_JUDGED));
    run.cov("destination_length_calls_judged_with_an_odd_length_shorter_than_due", per_variant(&DEST_LEN_ODD_SHORT));
    run.cov("destination_length_calls_refused_by_panic_not_judged", per_variant(&DEST_LEN_REFUSED));
    run.cov("value_structure_family_structures", json!(STRUCTURES));
    run.cov("value_structure_family_operand_lengths_every_pair", json!(STRUCT_LENS));
    run.cov("value_structure_family_object_states", json!(STRUCT_STATES));
    run.cov("value_structure_family_operand_pairs", struct_pairs);
    run.cov("value_structure_family_operand_pairs_skipped_out_of_domain", struct_skipped);
    run.cov("value_structure_family_multiply_into_calls_judged", STRUCT_JUDGED.load(Relaxed));
    run.cov("value_structure_family_multiply_into_calls_judged_destination_shorter_than_product", STRUCT_SHORT_JUDGED.load(Relaxed));
    run.cov("value_structure_family_multiply_into_short_destination_with_a_long_mostly_zero_operand", STRUCT_SPARSE_LONG_SHORT.load(Relaxed));
    run.cov("value_structure_family_multiply_into_calls_refused_by_panic_for_every_value_not_judged", STRUCT_REFUSED.load(Relaxed));
    run.cov(
        "rule",
        "state = (how the object was obtained: new, Default::default, a clone of either - the whole public constructor surface; size of its twiddle/bit-reversal tables: every power of two 4..2^K for new(), reached by update_n and by a large multiply, and for every constructor the sizes 1 and 2 below the pre-sized 4 - so that a 1-, 2- or 4-point transform is the FIRST thing that kind of fresh object computes - and 4, 8, 64, 2048); transition = one call (a, b) judged five ways (exact convolution, fresh object, repeated call, multiply_into on a pre-filled destination longer than the product and on destinations shorter than it (lengths 1, min and max operand length, product length - 1: the positions that exist must receive exactly their coefficients), fft*fft->fft_inv and fft_inv_into); DESTINATION LENGTHS: every call whose transform size is <= 16 (all pairs with la + lb <= 17, in every object state, constructor, float type, pattern and magnitude that the call is enumerated with; also the size-1 transforms of single coefficients) additionally runs each accumulate-into variant - multiply_into(a, b, D), fft_inv_into(fft(a)*fft(b), D), fft_into(a, n, D), fft_into(b, n, D) - on a pre-filled destination D of EVERY length 0..=due+2 (due = product length for multiply_into, transform size n for the two transform variants): the positions that exist must hold what they held plus the leading len(D) coefficients of the exact convolution (for fft_into: plus, in the float type, the value fft returns on an object in the same state), positions beyond what is due must be untouched; objects whose tables are smaller than 16 serve every length on a copy of their own, so that each length is also the call that grows the tables; a panic at a length other than the due one is 'refused' and counted, not judged; calls = every length pair of the length set x 12 pattern pairs x magnitudes {1, sqrt(Amax), Amax} with Amax on the envelope boundary (constructors other than new and the sizes 1, 2: all pairs of lengths <= 8 and a third of the pairs at a size switch), all vectors over {-A,-1,0,1,A} for lengths <= 4 (quick: la+lb <= 6), envelope corners with long vectors, all call histories of length <= 3 over an 8-call alphabet; ALIASED operands: a and b passed as two views of ONE buffer - all pairs of windows of an 8-element buffer (quick; the same slice twice, prefixes, suffixes, nested, overlapping, adjacent, empty) and the same relations at longer lengths around powers of two, 4 contents x 2 magnitudes, judged the same five ways against the convolution of the VALUES; BUFFER-REUSE histories: one object and one set of caller buffers (two inputs, three spectrum buffers, one destination, never reallocated: same address, same length, same n), every word of up to 3 letters (contents in {c0, c0 with A and B exchanged, c2} written into the buffers IN PLACE) x (method in {multiply, multiply with the arguments exchanged, multiply_into, fft/fft/pointwise/fft_inv, fft_into/fft_into/pointwise/fft_inv_into, fft once/pointwise square/fft_inv on A, the same on B}), every step compared with the convolution of the buffers' current values, for 8 length pairs x {new, default} x {f64, f32}; SEVERAL OBJECTS (the history of a THREAD is what is enumerated; runs first): a cast of two or three objects (f64/f64, f64/f32, f64/f32/f64) is created in order by new() on a fresh thread T0, then every word of up to 3 letters (2 for the cast of three; thorough 4 / 3) over {judged product of a size class (transform sizes 2, 16, 512, magnitudes on the envelope boundary) on one of the objects ITSELF - multiply, multiply_into on a pre-filled destination, fft*fft->fft_inv and fft_inv_into, each against the schoolbook convolution; update_n(1024) on an object; an object dropped and a new one created in its place; an object replaced by a clone of another of its float type; 'hop': the following steps run on the script's second fresh thread T1, or back on T0 - every object moves (generated only if the compiler says the objects are Send); 'lend': the other thread clones an object through a shared reference, computes the mid product on the clone and drops it (only if they are Sync)}, at the end everything is dropped on the thread of the last step; the words include an object that is fresh next to a grown one, objects used alternately while one of them grows, a fresh object after a grown one was dropped, an object grown on one thread and used on the other; EVERY call into the crate (constructors, clones, update_n, the growing multiplies - themselves judged against the convolution of all-ones vectors -, transforms, explicit drops) is inside catch, and a panic is a violation of the family it belongs to (object_state_panics for constructors, clones and update_n); VALUE STRUCTURE x DESTINATION LENGTH: every pair of operand lengths of {0, 1, 2, 3, 5, 8, 9, 15, 16, 17, 24, 31, 32, 33, 40} (transform sizes 2..128, well above the smallest) x every value structure of an operand (dense, all zero, single spike at 0 / in the middle / at the end, non-zero at both ends only, three and four non-zeros spread out, leading half zero, trailing half zero, zero runs at both ends) against a dense operand on either side and against itself x {f64, f32} x tables of size {4, 64}: multiply_into(a, b, D) on a pre-filled D of EVERY length 0..=product length + 1, and fft_into(a, n, D), fft_into(b, n, D), fft_inv_into(fft(a)*fft(b), D) on every length 0..=n + 2, against the schoolbook product placed as in the destination-length family (positions that exist receive their coefficients, the rest is untouched; a panic at the due length or beyond is a violation; a panic at a shorter length is 'refused' and counted, not judged - unless the same object state returns normally from the SAME call shape (len a, len b, len D) with dense operands: then the version accepts that shape and a panic that depends on the coefficient values is a panic on an in-envelope input, family multiply_into_short_destination_refused_by_values); counts under value_structure_family_*; NOT all coefficient vectors (exhaustive: false)",
    );
    run.sample(json!({"prec": "F64", "state": 2048, "a": "alternating ±A (len 33)", "b": "alternating ±A (len 31)", "A": amax(Prec::F64, 33, 31)}));
    run.sample(json!({"prec": "F32", "state": 4, "a": pattern(8, 5, amax(Prec::F32, 5, 4)), "b": pattern(2, 4, amax(Prec::F32, 5, 4))}));
    run.sample(json!({"history": hists.last().map(|h| h.iter().map(hop_json).collect::<Vec<_>>())}));
    run.assume("the envelope is read as max|coef|^2 * max(len a, len b) <= 1e12 (f64): inside the property's formula and inside the published table for unequal lengths too (zero padding); the f32 envelope max|coef|^2 * max(len) <= 1e3 is this harness's reading of 'a correspondingly smaller bound for f32' (>= 100x inside CORRECT_F32_BOUNDS)");
    run.sample(json!({"destination_lengths": {"call": "fft_inv_into(fft(a, 8) * fft(b, 8), D)", "a": [1, -2, 3], "b": [4, 5, -6], "D": "pre-filled, of each length 0..=10", "expected": "D[i] += conv(a, b)[i] for i < min(len D, 5), everything else untouched"}}));
    run.sample(json!({"value_structure_x_destination_length": struct_json(&StructSpec { prec: Prec::F64, state: 4, a: structured(5, 17, 9), b: structured(0, 8, 9), dest_len: Some(11) })}));
    run.sample(json!({"aliased": {"buffer": pattern(8, 8, 11), "a": "buf[0..5]", "b": "buf[0..3]", "relation": relation(0, 5, 0, 3)}}));
    run.sample(json!({"buffer_reuse_history": reuse_json(&ReuseSpec { prec: Prec::F64, ctor: Ctor::Default, la: 3, lb: 2, steps: vec![(0, 5), (1, 5), (2, 3)] })}));
    {
        let mut steps = vec![Step::Mul(0, 2), Step::Renew(1), Step::Mul(1, 0)];
        if OBJECTS_ARE_SEND {
            steps.extend([Step::Hop, Step::Mul(0, 1)]);
        }
        let s = Script { cast: casts[1].0.clone(), steps };
        run.sample(json!({"several_objects_script": script_json(&s), "in_words": describe_script(&s, s.steps.len())}));
    }
    run.assume("'a fresh object' and 'whatever the object computed earlier' are read as: whatever ELSE happened on the thread (other objects of either float type created, grown, cloned, dropped before or between the calls) and on whichever thread the object is used (moved there, or cloned there through a shared reference) - a product inside the envelope is exact regardless. The several-objects scripts pin the whole history of their threads down (fresh threads, the script is the replay). The other families run on pool threads whose earlier calls (other units) are NOT recorded: a failure they see is reported only with a history under which a fresh thread shows it again - none, or one entry of thread_histories_tried_when_a_failure_does_not_show_alone_on_a_fresh_thread - and that history is part of the replay; if the several-objects scripts report a violation such failures are left to it; all of them are listed under failures_on_pool_threads_that_a_fresh_thread_does_not_show_alone, and one that no fresh thread shows is not a verdict by itself. State shared by ALL threads of the process (a global table) is outside what a replay pins down: units run concurrently");
    run.assume("aliasing is limited to what safe Rust allows: the two i32 operands may be any two views of one allocation; a destination (&mut [i64] / &mut [Complex]) cannot alias an operand, so destinations and spectrum buffers are REUSED across calls (buffer-reuse histories) rather than aliased");
    if !run.has_violations() && (all.calls < 50_000 || all.size_switch < 100) {
        run.machinery_failure("exploration implausibly small");
    }
    if !run.has_violations() {
        let refills = REFILLS_IN_PLACE.load(Relaxed);
        let prefix_layouts = relation_counts.get(relation(0, 2, 0, 1)).copied().unwrap_or(0);
        if part5_calls < 1000 || relation_counts.len() < 7 || prefix_layouts == 0 {
            run.machinery_failure("the aliased-operand family did not cover every relation between two views");
        }
        if reuse_histories < 1000 || refills <= reuse_histories {
            run.machinery_failure("the buffer-reuse histories did not refill their buffers in place");
        }
        if (0..3).any(|v| DEST_LEN_JUDGED[v].load(Relaxed) < 10_000 || DEST_LEN_ODD_SHORT[v].load(Relaxed) < 1000) {
            run.machinery_failure("the destination-length family judged too few calls of some accumulate-into variant (or none with an odd destination shorter than what is due)");
        }
        if struct_pairs < 1000 || (STRUCT_REFUSED.load(Relaxed) == 0 && STRUCT_SPARSE_LONG_SHORT.load(Relaxed) < 10_000) || STRUCT_SHORT_JUDGED.load(Relaxed) + STRUCT_REFUSED.load(Relaxed) < 100_000 {
            run.machinery_failure("the value-structure x destination-length family ran too few multiply_into calls with a long mostly-zero operand and a destination shorter than the product");
        }
        if !object_states.iter().any(|o| o.0 == Ctor::Default && o.1 == 1) || !CTORS.iter().all(|c| object_states.iter().any(|o| o.0 == *c)) {
            run.machinery_failure("some public constructor is not an initial object state");
        }
        if n_scripts < 1000 || script_products < n_scripts || script_threads < n_scripts || (OBJECTS_ARE_SEND && script_second_thread == 0) || menus.iter().any(|m| m.len() < 2 * CLASSES.len() + 4) {
            run.machinery_failure("the several-objects scripts did not run on fresh threads, judged nothing or never left their first thread");
        }
    }
    run.finish(&confirm)
}
