//! C04 — FFT multiplication is exact inside the published envelope, whatever the transformer object
//! computed before.
//!
//! The persistent state of an `FFT` object that can influence a later call is the size of its twiddle /
//! bit-reversal tables (the work buffers are cleared on entry): states 4, 8, …, 2^K, a call needing size
//! n moves the object to max(state, n).  ALL states (each reached both through `update_n` and through a
//! large multiply) x ALL calls of the alphabet: every length pair of the tier's length set x coefficient
//! patterns at the envelope boundary; exhaustive 5-letter vectors for lengths <= 4.  Every call is
//! compared with the schoolbook convolution in i128, with the same call on a fresh object, with the
//! accumulate-into variant on a pre-filled destination and with forward x forward -> inverse.

use rayon::prelude::*;
use rlib_fft::{Complex, FFT};
use rlib_num_traits::Float;
use vcore::*;

static SHORT_DEST_JUDGED: std::sync::atomic::AtomicU64 = std::sync::atomic::AtomicU64::new(0);
static SHORT_DEST_REFUSED: std::sync::atomic::AtomicU64 = std::sync::atomic::AtomicU64::new(0);

fn conv(a: &[i32], b: &[i32]) -> Vec<i64> {
    if a.is_empty() || b.is_empty() {
        return vec![];
    }
    if a.len() as u64 * b.len() as u64 > 50_000_000 {
        // long operands: exact schoolbook in i64 (|result| <= 1e12 inside the envelope, checked), output
        // index ranges in parallel
        let n = a.len() + b.len() - 1;
        let bound = a.iter().map(|x| x.unsigned_abs() as u128).max().unwrap() * b.iter().map(|x| x.unsigned_abs() as u128).max().unwrap() * a.len().min(b.len()) as u128;
        assert!(bound < (1u128 << 62), "reference convolution would overflow i64");
        let (s, l): (&[i32], &[i32]) = if a.len() <= b.len() { (a, b) } else { (b, a) };
        return (0..n)
            .into_par_iter()
            .map(|k| {
                let lo = k.saturating_sub(l.len() - 1);
                let hi = k.min(s.len() - 1);
                let mut acc = 0i64;
                for i in lo..=hi {
                    acc += s[i] as i64 * l[k - i] as i64;
                }
                acc
            })
            .collect();
    }
    let mut r = vec![0i128; a.len() + b.len() - 1];
    for (i, &x) in a.iter().enumerate() {
        if x == 0 {
            continue;
        }
        for (j, &y) in b.iter().enumerate() {
            r[i + j] += x as i128 * y as i128;
        }
    }
    r.into_iter().map(|v| v as i64).collect()
}

/// deterministic coefficient patterns of magnitude <= a
fn pattern(kind: u8, len: usize, a: i32) -> Vec<i32> {
    (0..len)
        .map(|i| match kind {
            0 => a,
            1 => -a,
            2 => {
                if i % 2 == 0 {
                    a
                } else {
                    -a
                }
            }
            3 => {
                if i == 0 {
                    a
                } else {
                    0
                }
            }
            4 => {
                if i + 1 == len {
                    -a
                } else {
                    0
                }
            }
            5 => {
                if i == len / 2 {
                    a
                } else {
                    0
                }
            }
            6 => {
                if i == 0 || i + 1 == len {
                    a
                } else {
                    0
                }
            }
            7 => (i as i64 % (a as i64 + 1)) as i32,
            // pseudo-irregular, full range [-a, a]
            _ => (((i as i64 * i as i64 * 31 + i as i64 * 17 + 7) % (2 * a as i64 + 1)) - a as i64) as i32,
        })
        .collect()
}

const PATTERN_PAIRS: &[(u8, u8)] = &[(0, 0), (1, 0), (2, 2), (2, 0), (3, 4), (5, 5), (6, 6), (7, 7), (8, 8), (8, 2), (0, 8), (1, 1)];
const PATTERN_NAMES: &[&str] = &["all +A", "all -A", "alternating ±A", "spike at 0", "negative spike at end", "spike in the middle", "A at both ends", "ramp", "irregular full range"];

#[derive(Clone, Copy, PartialEq, Debug)]
enum Prec {
    F64,
    F32,
}

fn envelope(prec: Prec) -> f64 {
    match prec {
        Prec::F64 => 1e12,
        Prec::F32 => 1e3,
    }
}

/// Largest magnitude allowed for these lengths.  The crate's published envelope (precision.rs) is a
/// table L(A, B): arrays of values in [0..=A] / [0..=B], BOTH of length L, multiply correctly; shorter
/// arrays are covered as zero-padded ones, so a call (a, b) is inside the published envelope when
/// max(len a, len b) <= L.  The property's quantifier summarises this as A^2 * min(len) <= 1e12, which for
/// very unequal lengths reaches outside the table (measured: len 1 x len 5000 at A = 1e6 is off by one);
/// the check therefore uses A^2 * MAX(len a, len b) <= 1e12, which satisfies the quantifier's formula
/// and stays >= 25x inside every table entry.
fn amax(prec: Prec, la: usize, lb: usize) -> i32 {
    let m = la.max(lb).max(1) as f64;
    let mut a = (envelope(prec) / m).sqrt().floor() as i64;
    while (a as f64) * (a as f64) * m > envelope(prec) {
        a -= 1;
    }
    a.clamp(0, i32::MAX as i64) as i32
}

fn magnitudes(prec: Prec, la: usize, lb: usize) -> Vec<i32> {
    let top = amax(prec, la, lb);
    let mut v = vec![1, top];
    if top > 3 {
        v.push((top as f64).sqrt() as i32 + 1);
    }
    v.retain(|&a| a >= 1 && a <= top);
    v.sort();
    v.dedup();
    v
}

#[derive(Clone, Debug)]
struct CallSpec {
    prec: Prec,
    /// table size of the object before the call
    state: usize,
    /// how the state was reached: false = update_n, true = a large multiply
    grown_by_multiply: bool,
    a: Vec<i32>,
    b: Vec<i32>,
}

fn grow<F: Float>(state: usize, by_multiply: bool) -> FFT<F> {
    let mut f = FFT::<F>::new();
    if state > 4 {
        if by_multiply {
            // needs n = state: la + lb - 1 in (state/2, state]
            let la = state / 2 + 1;
            let lb = state - la + 1;
            let _ = f.multiply(&vec![1; la], &vec![1; lb]);
        } else {
            f.update_n(state);
        }
    }
    f
}

/// All judgements of one call.  Err((family, message)).
fn judge_call<F: Float>(obj: &FFT<F>, a: &[i32], b: &[i32]) -> Result<(), (&'static str, String)> {
    let exp = conv(a, b);
    let show = |v: &[i64]| -> String {
        if v.len() <= 12 {
            format!("{:?}", v)
        } else {
            format!("{:?}…({} values)", &v[..12], v.len())
        }
    };
    let first_diff = |x: &[i64], y: &[i64]| -> String {
        match x.iter().zip(y.iter()).position(|(p, q)| p != q) {
            Some(i) => format!("first difference at index {i}: got {} expected {}", x[i], y[i]),
            None => format!("lengths {} vs {}", x.len(), y.len()),
        }
    };
    // 1. multiply on the (possibly grown) object
    let mut o1 = obj.clone();
    let got = catch(|| o1.multiply(a, b)).map_err(|p| ("multiply_panics", format!("multiply panicked: {p}")))?;
    if got != exp {
        return Err(("multiply_exact", format!("multiply returned {}, the integer convolution is {}; {}", show(&got), show(&exp), first_diff(&got, &exp))));
    }
    // 2. the same call on a fresh object
    let mut fresh = FFT::<F>::new();
    let gf = catch(|| fresh.multiply(a, b)).map_err(|p| ("multiply_panics", format!("multiply on a fresh object panicked: {p}")))?;
    if gf != got {
        return Err(("history_independence", format!("the reused object returned {}, a fresh object {}; {}", show(&got), show(&gf), first_diff(&got, &gf))));
    }
    // 2b. a second identical call on the same object
    let again = catch(|| o1.multiply(a, b)).map_err(|p| ("multiply_panics", format!("second multiply panicked: {p}")))?;
    if again != exp {
        return Err(("history_independence", format!("repeating the call on the same object returned {}; {}", show(&again), first_diff(&again, &exp))));
    }
    // 3. accumulate-into variant on a pre-filled destination, longer than needed
    let mut o2 = obj.clone();
    let dl = exp.len() + 3;
    // the destination's previous contents are arbitrary i64 values: small ones, and ones that no float
    // type represents exactly (above 2^24 / 2^53), of both signs, far from overflowing when the product is added
    let pre = |i: usize| -> i64 {
        match i % 5 {
            0 => 1000 + 7 * i as i64,
            1 => (1i64 << 53) + 1 + i as i64,
            2 => -(1i64 << 60) - 3 * i as i64,
            3 => (1i64 << 24) + 1,
            _ => (1i64 << 61) + 12345,
        }
    };
    let mut dest: Vec<i64> = (0..dl).map(pre).collect();
    catch(|| o2.multiply_into(a, b, &mut dest)).map_err(|p| ("multiply_panics", format!("multiply_into panicked: {p}")))?;
    for i in 0..dl {
        let want = pre(i) + if i < exp.len() { exp[i] } else { 0 };
        if dest[i] != want {
            return Err(("multiply_into_accumulates", format!("multiply_into on a pre-filled destination: entry {i} held {} before, is {} after, expected {} (convolution term {})", pre(i), dest[i], want, if i < exp.len() { exp[i] } else { 0 })));
        }
    }
    if exp.is_empty() {
        return Ok(());
    }
    // 3b. destinations SHORTER than the product (the usual "product modulo x^k" call).  The crate zips the
    // destination with the coefficients, so the positions that exist receive their coefficients and the
    // rest of the product is dropped.  A version that refuses such a destination by panicking is not
    // judged (the property does not say what happens then; counted); one that returns must have added
    // exactly the leading coefficients.
    let mut shorts = vec![1, a.len().min(b.len()), a.len().max(b.len()), exp.len() - 1];
    shorts.retain(|&k| k >= 1 && k < exp.len());
    shorts.sort();
    shorts.dedup();
    for k in shorts {
        let mut o5 = obj.clone();
        let mut dest: Vec<i64> = (0..k).map(pre).collect();
        match catch(|| o5.multiply_into(a, b, &mut dest)) {
            Err(_) => {
                SHORT_DEST_REFUSED.fetch_add(1, std::sync::atomic::Ordering::Relaxed);
            }
            Ok(()) => {
                SHORT_DEST_JUDGED.fetch_add(1, std::sync::atomic::Ordering::Relaxed);
                for i in 0..k {
                    if dest[i] != pre(i) + exp[i] {
                        return Err(("multiply_into_short_destination", format!("multiply_into on a pre-filled destination of length {k} (the product has {} coefficients): entry {i} held {} before, is {} after, expected {} (convolution term {})", exp.len(), pre(i), dest[i], pre(i) + exp[i], exp[i])));
                    }
                }
            }
        }
    }
    // 4a. transform size 1 (single coefficients): the inverse's special case must accumulate as well
    if a.len() == 1 && b.len() == 1 {
        let mut o4 = obj.clone();
        let r = catch(|| {
            let fa = o4.fft(a, 1);
            let fb = o4.fft(b, 1);
            let prod = vec![fa[0] * fb[0]];
            let inv = o4.fft_inv(&prod);
            let mut acc = vec![(1i64 << 55) + 9; 1];
            o4.fft_inv_into(&prod, &mut acc);
            (inv, acc)
        })
        .map_err(|p| ("transform_panics", format!("fft / fft_inv of size 1 panicked: {p}")))?;
        if r.0 != exp {
            return Err(("transform_product_inverse", format!("size-1 transforms: fft(a)*fft(b) -> fft_inv gives {:?}, the product is {:?}", r.0, exp)));
        }
        if r.1 != vec![exp[0] + (1i64 << 55) + 9] {
            return Err(("fft_inv_into_accumulates", format!("size-1 fft_inv_into on a destination holding 2^55+9 gives {:?}, expected {:?}", r.1, vec![exp[0] + (1i64 << 55) + 9])));
        }
    }
    // 4. forward transforms, pointwise product, inverse transform
    let mut n = 2;
    while n < exp.len() {
        n *= 2;
    }
    let mut o3 = obj.clone();
    let viat = catch(|| {
        let fa = o3.fft(a, n);
        let fb = o3.fft(b, n);
        let prod: Vec<Complex<F>> = fa.iter().zip(fb.iter()).map(|(x, y)| *x * *y).collect();
        let inv = o3.fft_inv(&prod);
        // accumulate-into form of the inverse as well
        let mut acc: Vec<i64> = (0..n).map(|i| if i % 2 == 0 { 5 } else { (1i64 << 55) + 9 }).collect();
        o3.fft_inv_into(&prod, &mut acc);
        (inv, acc)
    })
    .map_err(|p| ("transform_panics", format!("fft / fft_inv panicked: {p}")))?;
    let mut padded = exp.clone();
    padded.resize(n, 0);
    if viat.0 != padded {
        return Err(("transform_product_inverse", format!("fft(a)*fft(b) -> fft_inv gives {}, the convolution is {}; {}", show(&viat.0), show(&padded), first_diff(&viat.0, &padded))));
    }
    let acc_want: Vec<i64> = padded.iter().enumerate().map(|(i, x)| x + if i % 2 == 0 { 5 } else { (1i64 << 55) + 9 }).collect();
    if viat.1 != acc_want {
        return Err(("fft_inv_into_accumulates", format!("fft_inv_into on a pre-filled destination (5 / 2^55+9 alternating): {}", first_diff(&viat.1, &acc_want))));
    }
    Ok(())
}

fn run_spec(s: &CallSpec) -> Result<(), (&'static str, String)> {
    match s.prec {
        Prec::F64 => judge_call(&grow::<f64>(s.state, s.grown_by_multiply), &s.a, &s.b),
        Prec::F32 => judge_call(&grow::<f32>(s.state, s.grown_by_multiply), &s.a, &s.b),
    }
}

fn spec_json(s: &CallSpec) -> Value {
    json!({"prec": format!("{:?}", s.prec), "state": s.state, "grown_by_multiply": s.grown_by_multiply, "a": rle(&s.a), "b": rle(&s.b)})
}

fn rle(v: &[i32]) -> Value {
    let mut runs = vec![];
    let mut i = 0;
    while i < v.len() {
        let mut j = i;
        while j < v.len() && v[j] == v[i] {
            j += 1;
        }
        runs.push(json!([v[i], j - i]));
        i = j;
    }
    Value::Array(runs)
}

fn unrle(v: &Value) -> Vec<i32> {
    let mut out = vec![];
    for r in v.as_array().unwrap() {
        out.extend(std::iter::repeat(r[0].as_i64().unwrap() as i32).take(r[1].as_u64().unwrap() as usize));
    }
    out
}

fn describe(v: &[i32]) -> String {
    if v.len() <= 10 {
        format!("{:?}", v)
    } else {
        format!("{:?}…(len {})", &v[..6], v.len())
    }
}

// ---------------------------------------------------------------------------------------------
// call histories on one object (form H)

#[derive(Clone, Debug)]
enum HOp {
    Mul(usize, usize, u8),
    Update(usize),
    Fft(usize),
}

fn history_alphabet() -> Vec<HOp> {
    vec![HOp::Mul(2, 2, 0), HOp::Mul(33, 31, 2), HOp::Mul(600, 500, 8), HOp::Mul(1, 1, 1), HOp::Update(256), HOp::Fft(64), HOp::Mul(0, 3, 0), HOp::Mul(70_000, 3, 8)]
}

fn run_history(ops: &[HOp]) -> Result<(), String> {
    let mut f = FFT::<f64>::new();
    for (k, op) in ops.iter().enumerate() {
        match op {
            HOp::Update(n) => f.update_n(*n),
            HOp::Fft(n) => {
                let v = pattern(8, *n, 1000);
                let _ = f.fft(&v, 0);
            }
            HOp::Mul(la, lb, kind) => {
                let a = pattern(*kind, *la, amax(Prec::F64, *la, *lb).min(1_000_000));
                let b = pattern(8, *lb, amax(Prec::F64, *la, *lb).min(1_000_000));
                let got = f.multiply(&a, &b);
                let exp = conv(&a, &b);
                if got != exp {
                    return Err(format!("call #{k} {:?} of the history {:?} on one object differs from the convolution", op, ops));
                }
                let mut fresh = FFT::<f64>::new();
                if fresh.multiply(&a, &b) != got {
                    return Err(format!("call #{k} {:?} of the history {:?} differs from the same call on a fresh object", op, ops));
                }
            }
        }
    }
    Ok(())
}

fn hop_json(o: &HOp) -> Value {
    match o {
        HOp::Mul(a, b, k) => json!({"mul": [a, b, k]}),
        HOp::Update(n) => json!({"update_n": n}),
        HOp::Fft(n) => json!({"fft": n}),
    }
}

fn hop_from(v: &Value) -> HOp {
    if let Some(m) = v.get("mul") {
        HOp::Mul(m[0].as_u64().unwrap() as usize, m[1].as_u64().unwrap() as usize, m[2].as_u64().unwrap() as u8)
    } else if let Some(n) = v.get("update_n") {
        HOp::Update(n.as_u64().unwrap() as usize)
    } else {
        HOp::Fft(v["fft"].as_u64().unwrap() as usize)
    }
}

// ---------------------------------------------------------------------------------------------

fn confirm(v: &Value) -> Result<(), String> {
    if v["kind"] == "history" {
        let ops: Vec<HOp> = v["ops"].as_array().unwrap().iter().map(hop_from).collect();
        return catch(|| run_history(&ops)).unwrap_or_else(|p| Err(format!("panic: {p}")));
    }
    let s = CallSpec {
        prec: if v["prec"] == "F32" { Prec::F32 } else { Prec::F64 },
        state: v["state"].as_u64().unwrap() as usize,
        grown_by_multiply: v["grown_by_multiply"].as_bool().unwrap(),
        a: unrle(&v["a"]),
        b: unrle(&v["b"]),
    };
    run_spec(&s).map_err(|(f, m)| format!("[{f}] {m}"))
}

#[derive(Default)]
struct Tot {
    calls: u64,
    nontrivial: u64,
    size_switch: u64,
    fails: Vec<(u64, &'static str, CallSpec, String)>,
}

fn merge(mut a: Tot, b: Tot) -> Tot {
    a.calls += b.calls;
    a.nontrivial += b.nontrivial;
    a.size_switch += b.size_switch;
    // keep only the first failure per family
    for f in b.fails {
        match a.fails.iter_mut().find(|g| g.1 == f.1) {
            Some(g) => {
                if f.0 < g.0 {
                    *g = f;
                }
            }
            None => a.fails.push(f),
        }
    }
    a
}

fn main() {
    let args = Args::parse();
    quiet_panics();
    if args.replay.is_some() {
        Run::replay_main(&args, &confirm);
    }
    let mut run = Run::new(&args, "fft", "model_checking");
    let quick = args.tier == Tier::Quick;

    // object states
    let kmax = if quick { 11 } else { 13 };
    let states: Vec<usize> = (2..=kmax).map(|k| 1usize << k).collect();
    // length set
    let mut lens: Vec<usize> = if quick { (0..=40).collect() } else { (0..=130).collect() };
    lens.extend([63, 64, 65, 127, 128, 129]);
    if !quick {
        lens.extend([255, 256, 257, 511, 512, 513, 1023, 1024, 1025]);
    }
    lens.sort();
    lens.dedup();

    // --- part 1: all states x all (la, lb) x patterns ------------------------------------------
    let mut tasks: Vec<(Prec, usize, bool, usize, usize)> = vec![];
    for &prec in &[Prec::F64, Prec::F32] {
        for &st in &states {
            for by_mul in [false, true] {
                if st == 4 && by_mul {
                    continue;
                }
                // f32 and the multiply-grown variant: a thinner slice of the length set
                for (ia, &la) in lens.iter().enumerate() {
                    for (ib, &lb) in lens.iter().enumerate() {
                        let thin = prec == Prec::F32 || by_mul;
                        if thin && !((ia + ib) % 3 == 0 || la + lb - (la + lb).min(1) == 0 || (la + lb).saturating_sub(1).is_power_of_two() || (la + lb).is_power_of_two() || (la + lb + 1).is_power_of_two()) {
                            continue;
                        }
                        tasks.push((prec, st, by_mul, la, lb));
                    }
                }
            }
        }
    }
    let idx_of = |t: &(Prec, usize, bool, usize, usize)| -> u64 { ((t.3 + t.4) as u64) << 40 | (t.1 as u64) << 16 | (t.3 as u64) };
    let part1 = tasks
        .par_iter()
        .map(|t| {
            let (prec, st, by_mul, la, lb) = *t;
            let mut tot = Tot::default();
            let base = idx_of(t);
            if la == 0 || lb == 0 {
                let s = CallSpec { prec, state: st, grown_by_multiply: by_mul, a: vec![1; la], b: vec![2; lb] };
                tot.calls += 1;
                if let Err((f, m)) = run_spec(&s) {
                    tot.fails.push((base, f, s, m));
                }
                return tot;
            }
            let need = (la + lb - 1).next_power_of_two().max(2);
            for (mi, &a) in magnitudes(prec, la, lb).iter().enumerate() {
                for (pi, &(ka, kb)) in PATTERN_PAIRS.iter().enumerate() {
                    // thin the middle magnitudes
                    if mi == 1 && magnitudes(prec, la, lb).len() == 3 && pi % 3 != 0 {
                        continue;
                    }
                    let s = CallSpec { prec, state: st, grown_by_multiply: by_mul, a: pattern(ka, la, a), b: pattern(kb, lb, a) };
                    tot.calls += 1;
                    tot.nontrivial += 1;
                    if need > st {
                        tot.size_switch += 1;
                    }
                    if let Err((f, m)) = run_spec(&s) {
                        tot.fails.push((base + (mi * 16 + pi) as u64, f, s, m));
                        if tot.fails.len() > 4 {
                            return tot;
                        }
                    }
                }
            }
            tot
        })
        .reduce(Tot::default, merge);

    // --- part 2: exhaustive vectors over {-A,-1,0,1,A} for la, lb <= 4 ----------------------------
    let small_states: Vec<usize> = if quick { vec![4, 8, 2048] } else { vec![4, 8, 16, 64, 2048, 8192] };
    let mut small_tasks = vec![];
    for &prec in &[Prec::F64, Prec::F32] {
        for &st in &small_states {
            if prec == Prec::F32 && st != 4 && st != 2048 {
                continue;
            }
            for la in 1..=4usize {
                for lb in 1..=4usize {
                    if quick && la + lb > 6 {
                        continue;
                    }
                    small_tasks.push((prec, st, la, lb));
                }
            }
        }
    }
    let part2 = small_tasks
        .par_iter()
        .map(|&(prec, st, la, lb)| {
            let mut tot = Tot::default();
            let a_mag = amax(prec, la, lb);
            let letters = [-a_mag, -1, 0, 1, a_mag];
            let obj64 = if prec == Prec::F64 { Some(grow::<f64>(st, false)) } else { None };
            let obj32 = if prec == Prec::F32 { Some(grow::<f32>(st, false)) } else { None };
            let na = 5usize.pow(la as u32);
            let nb = 5usize.pow(lb as u32);
            for ca in 0..na {
                let a: Vec<i32> = (0..la).map(|i| letters[(ca / 5usize.pow(i as u32)) % 5]).collect();
                for cb in 0..nb {
                    let b: Vec<i32> = (0..lb).map(|i| letters[(cb / 5usize.pow(i as u32)) % 5]).collect();
                    tot.calls += 1;
                    let r = match prec {
                        Prec::F64 => judge_call(obj64.as_ref().unwrap(), &a, &b),
                        Prec::F32 => judge_call(obj32.as_ref().unwrap(), &a, &b),
                    };
                    if let Err((f, m)) = r {
                        let s = CallSpec { prec, state: st, grown_by_multiply: false, a: a.clone(), b: b.clone() };
                        tot.fails.push(((1u64 << 60) | ((la + lb) as u64) << 40 | (ca * nb + cb) as u64, f, s, m));
                        return tot;
                    }
                }
            }
            tot.nontrivial = tot.calls;
            tot
        })
        .reduce(Tot::default, merge);

    // --- part 3: envelope corners with long vectors -----------------------------------------------
    let mut corner_specs = vec![];
    // the largest corners need transform sizes 2^17 and 2^18: table levels and index widths that no
    // smaller call reaches
    let corners: Vec<(usize, usize)> = if quick { vec![(1, 1), (1000, 1000), (4096, 1), (1, 5000), (3000, 2000), (65536, 65536), (65537, 3)] } else { vec![(1, 1), (1000, 1000), (4096, 1), (1, 5000), (3000, 2000), (65536, 65536), (65537, 3), (100_000, 100_000), (100_000, 1000), (1_000_000, 2), (262_144, 262_144)] };
    for &(la, lb) in &corners {
        let pats: &[(u8, u8)] = if la as u64 * lb as u64 > 1_000_000_000 { &[(0, 0), (8, 8)] } else { &[(0, 0), (2, 2), (8, 8), (1, 0)] };
        for &(ka, kb) in pats {
            let a = amax(Prec::F64, la, lb).min(1_000_000);
            corner_specs.push(CallSpec { prec: Prec::F64, state: 4, grown_by_multiply: false, a: pattern(ka, la, a), b: pattern(kb, lb, a) });
            if la * lb <= 4_000_000 {
                let a32 = amax(Prec::F32, la, lb);
                if a32 >= 1 {
                    corner_specs.push(CallSpec { prec: Prec::F32, state: 4, grown_by_multiply: false, a: pattern(ka, la, a32), b: pattern(kb, lb, a32) });
                }
            }
        }
    }
    let part3 = corner_specs
        .par_iter()
        .enumerate()
        .map(|(i, s)| {
            let mut tot = Tot { calls: 1, nontrivial: 1, ..Default::default() };
            if let Err((f, m)) = run_spec(s) {
                tot.fails.push(((2u64 << 60) | i as u64, f, s.clone(), m));
            }
            tot
        })
        .reduce(Tot::default, merge);

    // --- part 4: all call histories of length <= 3 on one object ------------------------------------
    let alpha = history_alphabet();
    let mut hists: Vec<Vec<HOp>> = vec![];
    for a in &alpha {
        hists.push(vec![a.clone()]);
        for b in &alpha {
            hists.push(vec![a.clone(), b.clone()]);
            for c in &alpha {
                hists.push(vec![a.clone(), b.clone(), c.clone()]);
            }
        }
    }
    let hist_fail = hists
        .par_iter()
        .enumerate()
        .filter_map(|(i, h)| match catch(|| run_history(h)) {
            Ok(Ok(())) => None,
            Ok(Err(m)) => Some((i, h.clone(), m)),
            Err(p) => Some((i, h.clone(), format!("panic: {p}"))),
        })
        .min_by_key(|x| x.0);

    let all = merge(merge(part1, part2), part3);
    let mut fails = all.fails.clone();
    fails.sort_by_key(|f| f.0);
    for (_, fam, s, m) in &fails {
        let sig = format!("{fam}:{:?}:state={}:{}:a={}:b={}", s.prec, s.state, if s.grown_by_multiply { "grown-by-multiply" } else { "update_n" }, describe(&s.a), describe(&s.b));
        run.violation(Violation::new(sig, format!("[{fam}] {:?} object with tables of size {} ({}), a = {} (len {}), b = {} (len {}): {m}", s.prec, s.state, if s.grown_by_multiply { "reached by a multiply" } else { "update_n" }, describe(&s.a), s.a.len(), describe(&s.b), s.b.len()), spec_json(s)));
    }
    if let Some((_, h, m)) = &hist_fail {
        run.violation(Violation::new(format!("history:{:?}", h), m.clone(), json!({"kind": "history", "ops": h.iter().map(hop_json).collect::<Vec<_>>()})));
    }

    let n_states = states.len() as u64 * 2 - 1;
    run.cov("states", n_states);
    run.cov("transitions", all.calls + hists.len() as u64);
    run.cov("traces_validated_against_impl", all.calls + hists.len() as u64);
    run.cov("evaluations", all.calls + hists.len() as u64);
    run.cov("distinct_nontrivial", all.nontrivial);
    run.cov("calls_that_grow_the_tables", all.size_switch);
    run.cov("object_states", json!(states));
    run.cov("lengths", json!(lens));
    run.cov("call_histories_up_to_3", hists.len() as u64);
    run.cov("exhaustive_small_vector_tasks", small_tasks.len() as u64);
    run.cov("envelope", json!({"f64": "max|coef|^2 * max(len a, len b) <= 1e12", "f32": "max|coef|^2 * max(len a, len b) <= 1e3"}));
    run.cov("patterns", json!(PATTERN_NAMES));
    run.cov("exhaustive", false);
    run.cov("multiply_into_short_destination_calls_judged", SHORT_DEST_JUDGED.load(std::sync::atomic::Ordering::Relaxed));
    run.cov("multiply_into_short_destination_calls_refused_by_panic_not_judged", SHORT_DEST_REFUSED.load(std::sync::atomic::Ordering::Relaxed));
    run.cov("rule", "state = size of the object's twiddle/bit-reversal tables (every power of two 4..2^K, each reached by update_n and by a large multiply); transition = one call (a, b) judged five ways (exact convolution, fresh object, repeated call, multiply_into on a pre-filled destination longer than the product and on destinations shorter than it (lengths 1, min and max operand length, product length - 1: the positions that exist must receive exactly their coefficients), fft*fft->fft_inv and fft_inv_into); calls = every length pair of the length set x 12 pattern pairs x magnitudes {1, sqrt(Amax), Amax} with Amax on the envelope boundary, all vectors over {-A,-1,0,1,A} for lengths <= 4 (quick: la+lb <= 6), envelope corners with long vectors, and all call histories of length <= 3 over a 7-call alphabet; NOT all coefficient vectors (exhaustive: false)");
    run.sample(json!({"prec": "F64", "state": 2048, "a": "alternating ±A (len 33)", "b": "alternating ±A (len 31)", "A": amax(Prec::F64, 33, 31)}));
    run.sample(json!({"prec": "F32", "state": 4, "a": pattern(8, 5, amax(Prec::F32, 5, 4)), "b": pattern(2, 4, amax(Prec::F32, 5, 4))}));
    run.sample(json!({"history": hists.last().map(|h| h.iter().map(hop_json).collect::<Vec<_>>())}));
    run.assume("the envelope is read as max|coef|^2 * max(len a, len b) <= 1e12 (f64): inside the property's formula and inside the published table for unequal lengths too (zero padding); the f32 envelope max|coef|^2 * max(len) <= 1e3 is this harness's reading of 'a correspondingly smaller bound for f32' (>= 100x inside CORRECT_F32_BOUNDS)");
    if !run.has_violations() && (all.calls < 50_000 || all.size_switch < 100) {
        run.machinery_failure("exploration implausibly small");
    }
    run.finish(&confirm)
}
