//! C01 / C02 — the real `Segtree` explored by breadth-first search over its own node array.
//!
//! C01: constructors, set, modify, ask, debug — every action in every reached state, every returned
//!      aggregate compared with the left-to-right fold of a plain array.
//! C02: the same state spaces (so every configuration of pending modifiers is reached) with the two
//!      boundary searches as judged transitions.
//!
//! Next to the explorations (closures and all histories up to a depth, per algebra and size) there are two
//! families of DIRECTED histories that cover size classes: the size sweep (every n up to 40, neighbours of the
//! powers of two up to 1025) and the large trees of `big.rs` (n around 2^19, 10^6, 2^20).

mod alg;
mod big;

use alg::*;
use rlib_segtree::segtree_items::{Combinator, MaxAdd, MinAdd, SumAdd};
use rlib_segtree::Segtree;
use serde::{Deserialize, Serialize};
use std::cell::RefCell;
use vcore::*;

#[derive(Clone, Debug, Serialize, Deserialize)]
enum Act {
    FromSlice(Vec<u8>),
    FromIter(Vec<u8>),
    New(u8),
    /// the same constructors / point assignment fed with elements that carry a stale pending modifier
    FromSliceDirty(Vec<u8>),
    NewDirty(u8),
    SetDirty(u16, u8),
    Set(u16, u8),
    Modify(u16, u16, u8),
    Ask(u16, u16),
    Lb(u16, Pred),
    LbRev(u16, Pred),
    /// a search whose predicate panics at its k-th evaluation (the harness catches the panic, as a caller may)
    LbAbort(u16, Pred, u8),
    LbRevAbort(u16, Pred, u8),
    Debug,
}

struct St<A: Alg> {
    tree: Segtree<A::T, A::M>,
    model: Vec<A::E>,
    fresh: u32,
    /// some earlier search of the history was aborted by a panic of the user's predicate.  The node array
    /// cannot show whether that left a trace, so such a state is kept apart from the same node array reached
    /// without an aborted search (part of the canonical form).
    aborted: bool,
}

impl<A: Alg> Clone for St<A> {
    fn clone(&self) -> Self {
        St { tree: self.tree.clone(), model: self.model.clone(), fresh: self.fresh, aborted: self.aborted }
    }
}

#[derive(Clone, Copy, PartialEq)]
enum Mode {
    /// judge constructors / set / modify / ask / debug; no searches
    C01,
    /// judge the searches; the other actions only generate states
    C02,
}

struct Sys<A: Alg> {
    n: usize,
    mode: Mode,
    /// which constructor families start the search
    all_inits: bool,
    /// elements carry stale pending modifiers (read back from another tree)
    dirty: bool,
    /// the alphabet also contains searches that are aborted by a panic of the user's predicate
    aborts: bool,
    /// range modifications not offered because they would take a covered element out of the domain
    /// (counted once per state they were withheld in)
    skipped: std::sync::atomic::AtomicU64,
    /// searches that really were aborted by the predicate's panic (the others ended before the k-th evaluation)
    aborted_calls: std::sync::atomic::AtomicU64,
    _p: std::marker::PhantomData<A>,
}

impl<A: Alg> Sys<A> {
    fn new(n: usize, mode: Mode, all_inits: bool) -> Self {
        Sys { n, mode, all_inits, dirty: false, aborts: false, skipped: std::sync::atomic::AtomicU64::new(0), aborted_calls: std::sync::atomic::AtomicU64::new(0), _p: std::marker::PhantomData }
    }

    fn check_all_singles(&self, s: &St<A>) -> Result<(), String> {
        let mut t = s.tree.clone();
        for i in 0..self.n {
            let got = A::observe(&t.ask(i, i));
            let exp = A::fold(&s.model[i..=i]);
            if !A::accept(&got, &s.model[i..=i]) {
                return Err(format!("element {i}: ask({i},{i}) would return {:?}, the plain array holds {:?}", got, exp));
            }
        }
        // the whole range as well (root aggregate)
        let got = A::observe(&t.ask(0, self.n - 1));
        let exp = A::fold(&s.model[..]);
        if !A::accept(&got, &s.model[..]) {
            return Err(format!("ask(0,{}) would return {:?}, fold of the plain array is {:?}", self.n - 1, got, exp));
        }
        Ok(())
    }
}

impl<A: Alg> Sys<A> {
    /// One boundary search from `pos` (rightwards if `fwd`), judged: the returned index, and every aggregate
    /// the predicate was shown.  With `abort_at = Some(k)` the predicate panics at its k-th evaluation and the
    /// harness catches the panic, as a caller may: nothing is demanded of that call, but the logical array
    /// must be unchanged (the invariant is checked in the state reached) and every later operation is judged
    /// as usual.  A search that ends before the k-th evaluation is an ordinary search and judged as one; a
    /// panic that is not the predicate's own is the library's and a violation.
    fn search(&self, s: &mut St<A>, fwd: bool, pos: usize, p: &Pred, abort_at: Option<u8>) -> Result<u64, String> {
        let name = if fwd { "lower_bound" } else { "lower_bound_rev" };
        let log: RefCell<Vec<A::Obs>> = RefCell::new(vec![]);
        let f = |t: &A::T| {
            let o = A::observe(t);
            let h = A::holds(p, &o);
            log.borrow_mut().push(o);
            if abort_at == Some(log.borrow().len().min(255) as u8) {
                panic!("the predicate panics");
            }
            h
        };
        let model = &s.model;
        let tree = &mut s.tree;
        let got = match abort_at {
            None => {
                if fwd {
                    tree.lower_bound(pos, f)
                } else {
                    tree.lower_bound_rev(pos, f)
                }
            }
            Some(k) => match catch(|| if fwd { tree.lower_bound(pos, f) } else { tree.lower_bound_rev(pos, f) }) {
                Ok(got) => got,
                Err(_) if log.borrow().len() >= k as usize => {
                    s.aborted = true;
                    self.aborted_calls.fetch_add(1, std::sync::atomic::Ordering::Relaxed);
                    return Ok(1);
                }
                Err(m) => return Err(format!("{name}({pos}, {:?}) panicked by itself (the predicate had been evaluated {} times and does not panic before its evaluation {k}): {m}", p, log.borrow().len())),
            },
        };
        let exp = if fwd { (pos..self.n).find(|&r| A::holds_on(p, model, pos, r)) } else { (0..=pos).rev().find(|&l| A::holds_on(p, model, l, pos)) };
        if got != exp {
            return Err(if fwd {
                format!("lower_bound({pos}, {:?}) returned {:?}; smallest r with the predicate true on fold([{pos}..=r]) of {:?} is {:?}", p, got, model, exp)
            } else {
                format!("lower_bound_rev({pos}, {:?}) returned {:?}; largest l with the predicate true on fold([l..={pos}]) of {:?} is {:?}", p, got, model, exp)
            });
        }
        for o in log.into_inner() {
            let ok = match (A::obs_len(&o), fwd) {
                (Some(k), true) => k >= 1 && pos + k <= self.n && A::accept(&o, &model[pos..pos + k]),
                (Some(k), false) => k >= 1 && k <= pos + 1 && A::accept(&o, &model[pos + 1 - k..=pos]),
                (None, true) => (pos..self.n).any(|r| A::accept(&o, &model[pos..=r])),
                (None, false) => (0..=pos).any(|l| A::accept(&o, &model[l..=pos])),
            };
            if !ok {
                return Err(if fwd {
                    format!("lower_bound({pos}, {:?}) showed the predicate the aggregate {:?}, which is not the in-order merge of [{pos}..=r] for any r (array {:?})", p, o, model)
                } else {
                    format!("lower_bound_rev({pos}, {:?}) showed the predicate the aggregate {:?}, which is not the in-order merge of [l..={pos}] for any l (array {:?})", p, o, model)
                });
            }
        }
        Ok(fp(&got))
    }
}

fn fp<T: std::fmt::Debug>(x: &T) -> u64 {
    fnv(format!("{:?}", x).as_bytes())
}

impl<A: Alg> System for Sys<A> {
    type State = St<A>;
    type Action = Act;

    fn inits(&self) -> Vec<Act> {
        let k = A::n_elems();
        let mut v = vec![];
        // all element vectors of length n over the element alphabet
        let total = (k as u64).pow(self.n as u32);
        let mut vecs = vec![];
        for code in 0..total {
            let mut c = code;
            let mut xs = vec![];
            for _ in 0..self.n {
                xs.push((c % k as u64) as u8);
                c /= k as u64;
            }
            vecs.push(xs);
        }
        if self.dirty {
            let mut f = 0u32;
            if A::dirty_item_at(&A::elem(0, &mut f), 0).is_none() {
                return vec![];
            }
            for xs in &vecs {
                v.push(Act::FromSliceDirty(xs.clone()));
            }
            if A::fillable() {
                for e in 0..k {
                    v.push(Act::NewDirty(e as u8));
                }
            }
            return v;
        }
        for xs in &vecs {
            v.push(Act::FromIter(xs.clone()));
        }
        if self.all_inits {
            for xs in &vecs {
                v.push(Act::FromSlice(xs.clone()));
            }
            if A::fillable() {
                for e in 0..k {
                    v.push(Act::New(e as u8));
                }
            }
        }
        v
    }

    fn init(&self, a: &Act) -> Result<St<A>, String> {
        let mut fresh = 0u32;
        let (tree, model) = match a {
            Act::FromSlice(xs) => {
                let model: Vec<A::E> = xs.iter().map(|&i| A::elem(i as usize, &mut fresh)).collect();
                let items: Vec<A::T> = model.iter().enumerate().map(|(i, e)| A::item_at(e, i)).collect();
                (Segtree::<A::T, A::M>::from_slice(&items), model)
            }
            Act::FromIter(xs) => {
                let model: Vec<A::E> = xs.iter().map(|&i| A::elem(i as usize, &mut fresh)).collect();
                let items: Vec<A::T> = model.iter().enumerate().map(|(i, e)| A::item_at(e, i)).collect();
                (Segtree::<A::T, A::M>::from_iter(items.into_iter()), model)
            }
            Act::New(e) => {
                // `new(n, value)` fills the array with copies of one value (same id for the free algebra)
                let el = A::elem(*e as usize, &mut fresh);
                (Segtree::<A::T, A::M>::new(self.n, A::item(&el)), vec![el; self.n])
            }
            Act::FromSliceDirty(xs) => {
                let model: Vec<A::E> = xs.iter().map(|&i| A::elem(i as usize, &mut fresh)).collect();
                let items: Vec<A::T> = model.iter().enumerate().map(|(i, e)| A::dirty_item_at(e, i).unwrap()).collect();
                (Segtree::<A::T, A::M>::from_slice(&items), model)
            }
            Act::NewDirty(e) => {
                let el = A::elem(*e as usize, &mut fresh);
                (Segtree::<A::T, A::M>::new(self.n, A::dirty_item(&el).unwrap()), vec![el; self.n])
            }
            _ => return Err("not a constructor".into()),
        };
        Ok(St { tree, model, fresh, aborted: false })
    }

    fn actions(&self, s: &St<A>) -> Vec<Act> {
        let n = self.n as u16;
        let mut v = vec![];
        for i in 0..n {
            for e in 0..A::n_elems() as u8 {
                v.push(Act::Set(i, e));
                if self.dirty {
                    v.push(Act::SetDirty(i, e));
                }
            }
        }
        let nm = A::mods().len() as u8;
        for l in 0..n {
            for r in l..n {
                for m in 0..nm {
                    if A::HAS_DOMAIN {
                        let md = A::modifier(m as usize, l as usize);
                        if !s.model[l as usize..=r as usize].iter().all(|e| A::mod_ok(e, &md)) {
                            self.skipped.fetch_add(1, std::sync::atomic::Ordering::Relaxed);
                            continue;
                        }
                    }
                    v.push(Act::Modify(l, r, m));
                }
            }
        }
        for l in 0..n {
            for r in l..n {
                v.push(Act::Ask(l, r));
            }
        }
        if self.mode == Mode::C02 {
            // every predicate of the family from every position, in each direction in which it is monotone
            // along the searched side of that position (two-sided predicates: both; anchored ones: one)
            for p in A::preds(self.n).into_iter().chain(A::extra_preds(self.n)) {
                for i in 0..n {
                    if A::pred_ok_at(&p, &s.model, i as usize, true) {
                        v.push(Act::Lb(i, p.clone()));
                    }
                    if A::pred_ok_at(&p, &s.model, i as usize, false) {
                        v.push(Act::LbRev(i, p.clone()));
                    }
                }
            }
            // aborted searches: an always-false and a length predicate that panic at their 1st, 2nd, 3rd evaluation
            if self.aborts {
                for p in A::preds(self.n).into_iter().filter(|p| *p == Pred::LenGe(2) || *p == Pred::LenGe(n + 1)) {
                    for i in 0..n {
                        for k in 1..=3u8 {
                            v.push(Act::LbAbort(i, p.clone(), k));
                            v.push(Act::LbRevAbort(i, p.clone(), k));
                        }
                    }
                }
            }
        } else {
            v.push(Act::Debug);
        }
        v
    }

    fn step(&self, s: &mut St<A>, a: &Act) -> Result<u64, String> {
        let judge01 = self.mode == Mode::C01;
        match a {
            Act::FromSlice(_) | Act::FromIter(_) | Act::New(_) | Act::FromSliceDirty(_) | Act::NewDirty(_) => Err("constructor inside a history".into()),
            Act::SetDirty(i, e) => {
                let el = A::elem(*e as usize, &mut s.fresh);
                s.tree.set(*i as usize, A::dirty_item_at(&el, *i as usize).unwrap());
                s.model[*i as usize] = el;
                Ok(0)
            }
            Act::Set(i, e) => {
                let el = A::elem(*e as usize, &mut s.fresh);
                s.tree.set(*i as usize, A::item_at(&el, *i as usize));
                s.model[*i as usize] = el;
                Ok(0)
            }
            Act::Modify(l, r, m) => {
                let md = &A::modifier(*m as usize, *l as usize);
                s.tree.modify(*l as usize, *r as usize, md);
                for (k, x) in s.model[*l as usize..=*r as usize].iter_mut().enumerate() {
                    A::apply_at(x, md, k);
                }
                Ok(0)
            }
            Act::Ask(l, r) => {
                let got = A::observe(&s.tree.ask(*l as usize, *r as usize));
                if judge01 {
                    let exp = A::fold(&s.model[*l as usize..=*r as usize]);
                    if !A::accept(&got, &s.model[*l as usize..=*r as usize]) {
                        return Err(format!("ask({l},{r}) returned {:?}; left-to-right fold of the plain array {:?} is {:?}", got, s.model, exp));
                    }
                }
                Ok(fp(&got))
            }
            Act::Debug => {
                let got = s.tree.debug();
                // the rendering must list exactly n items; its text is the items' own Debug, compared
                // through a second rendering obtained from single asks on a copy
                let mut t = s.tree.clone();
                let again = format!("{:?}", (0..self.n).map(|i| t.ask(i, i)).collect::<Vec<_>>());
                if got != again {
                    return Err(format!("debug() rendered {got}, single asks render {again}"));
                }
                Ok(0)
            }
            Act::Lb(l, p) => self.search(s, true, *l as usize, p, None),
            Act::LbRev(r, p) => self.search(s, false, *r as usize, p, None),
            Act::LbAbort(l, p, k) => self.search(s, true, *l as usize, p, Some(*k)),
            Act::LbRevAbort(r, p, k) => self.search(s, false, *r as usize, p, Some(*k)),
        }
    }

    fn invariant(&self, s: &St<A>) -> Result<(), String> {
        if s.tree.verif_len() != self.n {
            return Err(format!("tree reports length {}, constructed with {}", s.tree.verif_len(), self.n));
        }
        match self.mode {
            Mode::C01 => self.check_all_singles(s),
            // a search must leave the logical array unchanged: in C02 mode the same observation is made
            // after every transition, but only search transitions can be blamed for it, so it is
            // judged in `step`'s caller through this invariant as well (non-search actions were
            // judged by the C01 run on the same state space)
            Mode::C02 => self.check_all_singles(s),
        }
    }

    fn canon(&self, s: &St<A>) -> Vec<u8> {
        let mut k = Vec::with_capacity(64);
        for t in s.tree.verif_nodes() {
            A::encode(t, &mut k);
        }
        k.push(0xff);
        for e in &s.model {
            A::encode_elem(e, &mut k);
        }
        if s.aborted {
            k.push(0xfe);
        }
        k
    }

    fn kind(&self, a: &Act) -> &'static str {
        match a {
            Act::FromSlice(_) => "from_slice",
            Act::FromIter(_) => "from_iter",
            Act::New(_) => "new",
            Act::FromSliceDirty(_) => "from_slice_dirty",
            Act::NewDirty(_) => "new_dirty",
            Act::SetDirty(..) => "set_dirty",
            Act::Set(..) => "set",
            Act::Modify(..) => "modify",
            Act::Ask(..) => "ask",
            Act::Lb(..) => "lower_bound",
            Act::LbRev(..) => "lower_bound_rev",
            Act::LbAbort(..) => "lower_bound_aborted",
            Act::LbRevAbort(..) => "lower_bound_rev_aborted",
            Act::Debug => "debug",
        }
    }
}

// ------------------------------------------------------------------------------------------------

struct Part {
    name: String,
    n: usize,
    depth: Option<usize>,
    res: ExploreResult,
    wall: f64,
    /// what `M::default()` is for the part's algebra, and what the algebra declares it may be
    defmod: DefaultMod,
    defmod_may_be_identity: bool,
    skipped_out_of_domain: u64,
    aborted_searches: u64,
}

/// The label of a part is the algebra's name, optionally followed by the families that widen its alphabet:
/// `+stale-tags` (elements that carry a stale pending modifier), `+aborted-searches` (searches aborted by a
/// panic of the predicate).  Returns (algebra, stale tags, aborted searches).
fn split_label(label: &str) -> (&str, bool, bool) {
    let (label, aborts) = label.strip_suffix("+aborted-searches").map_or((label, false), |b| (b, true));
    let (label, dirty) = label.strip_suffix("+stale-tags").map_or((label, false), |b| (b, true));
    (label, dirty, aborts)
}

fn run_part<A: Alg>(label: &str, n: usize, mode: Mode, depth: Option<usize>, all_inits: bool, wall: f64) -> Part {
    let mut sys = Sys::<A>::new(n, mode, all_inits);
    (_, sys.dirty, sys.aborts) = split_label(label);
    // thorough parts are many and deep: a part that would grow beyond the cap is stopped there (reported as
    // cap_hit with the depth it completed) instead of exhausting the machine's memory
    let cfg = ExploreCfg { max_depth: depth, max_states: if wall > 100.0 { 8_000_000 } else { 30_000_000 }, wall_cap_s: wall };
    let t0 = std::time::Instant::now();
    let res = explore(&sys, &cfg);
    Part { name: label.to_string(), n, depth, res, wall: t0.elapsed().as_secs_f64(), defmod: default_mod::<A>(), defmod_may_be_identity: A::DEFAULT_MOD_IS_IDENTITY, skipped_out_of_domain: sys.skipped.load(std::sync::atomic::Ordering::Relaxed), aborted_searches: sys.aborted_calls.load(std::sync::atomic::Ordering::Relaxed) }
}

fn replay_part(label: &str, n: usize, mode: Mode, hist: &[Value]) -> Result<(), String> {
    let (base, dirty, aborts) = split_label(label);
    macro_rules! go {
        ($a:ty) => {{
            let mut sys = Sys::<$a>::new(n, mode, true);
            (sys.dirty, sys.aborts) = (dirty, aborts);
            replay_history(&sys, hist)
        }};
    }
    match base {
        "W" => go!(AlgW),
        "A3" => go!(AlgA3),
        "Fr" => go!(AlgFr),
        "Sum<Z3>" => go!(AlgSumZ3),
        "SumAdd<Z2>" => go!(AlgSumAddZ2),
        "SumAdd<Z3>" => go!(AlgSumAddZ3),
        "SumAdd<Z4>" => go!(AlgSumAddZ4),
        "SumAdd<Z5>" => go!(AlgSumAddZ5),
        "SumAdd<Z7>" => go!(AlgSumAddZ7),
        "SumAdd<Z256>" => go!(AlgSumAddZ256),
        "Min<u8>" => go!(AlgMinU8),
        "Max<u8>" => go!(AlgMaxU8),
        "MinAdd<i64>" => go!(AlgMinAdd),
        "MaxAdd<i64>" => go!(AlgMaxAdd),
        "SumAdd<i64>" => go!(AlgSumAdd),
        "Comb<MinAdd,MaxAdd>" => go!(Comb<AlgMinAdd, AlgMaxAdd>),
        "Comb<Comb<MinAdd,MaxAdd>,SumAdd>" => go!(Comb<Comb<AlgMinAdd, AlgMaxAdd>, AlgSumAdd>),
        "Comb<Sum<Z3>,Comb<Min,Max>>" => go!(Comb<AlgSumZ3, Comb<AlgMinU8, AlgMaxU8>>),
        "Flip" => go!(AlgFlip),
        "FlipZ" => go!(AlgFlipZ),
        "AP" => go!(AlgAp),
        "Comb<W,W>" => go!(Comb<AlgW, AlgW>),
        "Comb<Flip,Comb<Flip,Flip>>" => go!(Comb<AlgFlip, Comb<AlgFlip, AlgFlip>>),
        "MinAdd@MAX" => go!(AlgMinAddExt),
        "MaxAdd@MIN" => go!(AlgMaxAddExt),
        "MinAdd@MIN" => go!(AlgMinAddLow),
        "MaxAdd@MAX" => go!(AlgMaxAddHigh),
        "MinAdd+=MAX" => go!(AlgMinAddStep),
        "MaxAdd+=MIN" => go!(AlgMaxAddStep),
        "Min<Rec>" => go!(AlgMinRec),
        "Max<Rec>" => go!(AlgMaxRec),
        _ => with_pair(label, ReplayPair { n, mode, hist }).unwrap_or_else(|| {
            eprintln!("replay: unknown algebra {label}");
            std::process::exit(2)
        }),
    }
}

// ------------------------------------------------------------------------------------------------
// Part F: `Combinator` of a built-in item and an INDEPENDENT harness item, in both positions.

/// a computation that is generic in the algebra, run with the pair algebra a label names
trait WithAlg {
    type Out;
    fn run<A: Alg>(self) -> Self::Out;
}

#[derive(Clone, Copy, PartialEq)]
enum Sched {
    /// the built-in part's values drift (i64 additions): all histories up to a depth
    Bounded,
    /// the same with the free algebra as partner (every state remembers its whole history, so the levels grow
    /// fastest): one level less for n >= 2, but never fewer than two actions (two modifications that cancel
    /// in the built-in part)
    BoundedFree,
    /// both parts finite: closure for n up to the given size (quick, thorough), bounded depth above
    Closing(usize, usize),
}

macro_rules! pair_table {
    ($( $label:literal => $ty:ty, $sched:expr; )*) => {
        /// one table for exploration and replay: label, how it is explored
        const PAIRS: &[(&str, Sched)] = &[$(($label, $sched)),*];
        fn with_pair<V: WithAlg>(label: &str, v: V) -> Option<V::Out> {
            $( if label == $label { return Some(v.run::<$ty>()); } )*
            None
        }
    };
}

pair_table! {
    // the lazy additive built-ins next to: words under the four functions (W), the free algebra (Fr, the
    // most general lawful partner), words over Z3 under affine maps (A3)
    "Pair<MinAdd,W>" => Pair<AlgMinAdd, AlgWAdd>, Sched::Bounded;
    "Pair<W,MinAdd>" => Pair<AlgWAdd, AlgMinAdd>, Sched::Bounded;
    "Pair<MaxAdd,W>" => Pair<AlgMaxAdd, AlgWAdd>, Sched::Bounded;
    "Pair<W,MaxAdd>" => Pair<AlgWAdd, AlgMaxAdd>, Sched::Bounded;
    "Pair<SumAdd,W>" => Pair<AlgSumAdd, AlgWAdd>, Sched::Bounded;
    "Pair<W,SumAdd>" => Pair<AlgWAdd, AlgSumAdd>, Sched::Bounded;
    "Pair<MinAdd,Fr>" => Pair<AlgMinAdd, AlgFrAdd>, Sched::BoundedFree;
    "Pair<Fr,MinAdd>" => Pair<AlgFrAdd, AlgMinAdd>, Sched::BoundedFree;
    "Pair<MaxAdd,Fr>" => Pair<AlgMaxAdd, AlgFrAdd>, Sched::BoundedFree;
    "Pair<Fr,MaxAdd>" => Pair<AlgFrAdd, AlgMaxAdd>, Sched::BoundedFree;
    "Pair<SumAdd,Fr>" => Pair<AlgSumAdd, AlgFrAdd>, Sched::BoundedFree;
    "Pair<Fr,SumAdd>" => Pair<AlgFrAdd, AlgSumAdd>, Sched::BoundedFree;
    "Pair<MinAdd,A3>" => Pair<AlgMinAdd, AlgA3Add>, Sched::Bounded;
    "Pair<A3,MinAdd>" => Pair<AlgA3Add, AlgMinAdd>, Sched::Bounded;
    "Pair<MaxAdd,A3>" => Pair<AlgMaxAdd, AlgA3Add>, Sched::Bounded;
    "Pair<A3,MaxAdd>" => Pair<AlgA3Add, AlgMaxAdd>, Sched::Bounded;
    "Pair<SumAdd,A3>" => Pair<AlgSumAdd, AlgA3Add>, Sched::Bounded;
    "Pair<A3,SumAdd>" => Pair<AlgA3Add, AlgSumAdd>, Sched::Bounded;
    // one nesting level further out
    "Pair<Comb<MinAdd,MaxAdd>,Fr>" => Pair<Comb<AlgMinAdd, AlgMaxAdd>, AlgFrAdd>, Sched::BoundedFree;
    "Pair<Fr,Comb<MinAdd,MaxAdd>>" => Pair<AlgFrAdd, Comb<AlgMinAdd, AlgMaxAdd>>, Sched::BoundedFree;
    "Pair<Pair<MaxAdd,W>,SumAdd>" => Pair<Pair<AlgMaxAdd, AlgWAdd>, AlgSumAdd>, Sched::Bounded;
    // finite on both sides
    "Pair<SumAdd<Z4>,W>" => Pair<AlgSumAddZ4, AlgWZ4>, Sched::Closing(2, 3);
    "Pair<W,SumAdd<Z4>>" => Pair<AlgWZ4, AlgSumAddZ4>, Sched::Closing(2, 3);
    // the NON-lazy built-ins (M = ()) next to lazy items with a data-less modifier
    "Pair<Min<u8>,Flip>" => Pair<AlgMinU8, AlgFlip>, Sched::Closing(4, 5);
    "Pair<Flip,Min<u8>>" => Pair<AlgFlip, AlgMinU8>, Sched::Closing(4, 5);
    "Pair<Sum<Z3>,A3>" => Pair<AlgSumZ3, AlgA3Unit>, Sched::Closing(4, 5);
    "Pair<A3,Max<u8>>" => Pair<AlgA3Unit, AlgMaxU8>, Sched::Closing(4, 5);
}

struct RunPair {
    label: &'static str,
    n: usize,
    mode: Mode,
    depth: Option<usize>,
    wall: f64,
}
impl WithAlg for RunPair {
    type Out = Part;
    fn run<A: Alg>(self) -> Part {
        run_part::<A>(self.label, self.n, self.mode, self.depth, false, self.wall)
    }
}

struct ReplayPair<'a> {
    n: usize,
    mode: Mode,
    hist: &'a [Value],
}
impl WithAlg for ReplayPair<'_> {
    type Out = Result<(), String>;
    fn run<A: Alg>(self) -> Result<(), String> {
        replay_history(&Sys::<A>::new(self.n, self.mode, true), self.hist)
    }
}

type Job = Box<dyn FnOnce() -> Part + Send>;

/// the list of explorations to run: (algebra, n, depth bound) each
struct Jobs {
    mode: Mode,
    wall: f64,
    v: Vec<Job>,
}

impl Jobs {
    /// all three constructor families are initial states
    fn add<A: Alg>(&mut self, label: &'static str, n: usize, depth: Option<usize>) {
        self.add_with::<A>(label, n, depth, true)
    }
    /// `all_inits = false`: only `from_iter` of every element vector
    fn add_with<A: Alg>(&mut self, label: &'static str, n: usize, depth: Option<usize>, all_inits: bool) {
        let (mode, wall) = (self.mode, self.wall);
        self.v.push(Box::new(move || run_part::<A>(label, n, mode, depth, all_inits, wall)));
    }
}

/// The pair family: every (label, n) is a small independent exploration, so they run side by side.
fn pair_parts(mode: Mode, quick: bool, wall: f64) -> Vec<Job> {
    let bounded: &[(usize, usize)] = if quick { &[(1, 4), (2, 4), (3, 3), (4, 2)] } else { &[(1, 5), (2, 5), (3, 4), (4, 3), (5, 2)] };
    let mut jobs: Vec<RunPair> = vec![];
    for &(label, sched) in PAIRS {
        match sched {
            Sched::Bounded => jobs.extend(bounded.iter().map(|&(n, d)| RunPair { label, n, mode, depth: Some(d), wall })),
            Sched::BoundedFree => jobs.extend(bounded.iter().map(|&(n, d)| RunPair { label, n, mode, depth: Some(if n >= 2 { (d - 1).max(2) } else { d }), wall })),
            // closure up to the size that closes inside the budget, bounded depth above it
            Sched::Closing(q, t) => jobs.extend(bounded.iter().map(|&(n, d)| RunPair { label, n, mode, depth: if n <= (if quick { q } else { t }) { None } else { Some(d) }, wall })),
        }
    }
    jobs.into_iter().map(|j| Box::new(move || with_pair(j.label, j).unwrap()) as Job).collect()
}

struct Sweep {
    sizes: Vec<usize>,
    histories: u64,
    actions: u64,
    fail: Option<(usize, Vec<Value>, String)>,
}

fn boundary_positions(n: usize) -> Vec<usize> {
    let mut b: Vec<i64> = vec![0, 1, 2, n as i64 / 2 - 1, n as i64 / 2, n as i64 / 2 + 1, n as i64 - 3, n as i64 - 2, n as i64 - 1];
    let mut p = 1i64;
    while p <= n as i64 {
        b.extend([p - 1, p, p + 1]);
        p *= 2;
    }
    let mut v: Vec<usize> = b.into_iter().filter(|x| *x >= 0 && (*x as usize) < n).map(|x| x as usize).collect();
    v.sort();
    v.dedup();
    v
}

fn sweep_history(n: usize, ctor: u8, mode: Mode) -> Vec<Act> {
    let init = vec![0u8; n];
    let mut h = vec![match ctor {
        0 => Act::FromSlice(init),
        1 => Act::FromIter(init),
        _ => Act::New(0),
    }];
    let b = boundary_positions(n);
    let pos: Vec<usize> = if n <= 40 {
        (0..n).collect()
    } else if n <= 130 {
        b.clone()
    } else {
        // large arrays: the ends, the middle and the largest power of two inside
        let p = (n + 1).next_power_of_two() / 2;
        let mut v: Vec<usize> = [0, 1, n / 2 - 1, n / 2, n / 2 + 1, p - 1, p, (p + 1).min(n - 1), n - 2, n - 1].into_iter().filter(|x| *x < n).collect();
        v.sort();
        v.dedup();
        v
    };
    let last = n - 1;
    let mid = n / 2;
    let mut ranges: Vec<(usize, usize)> = vec![(0, last), (mid, mid), (0, mid), (mid.min(last), last)];
    if n >= 3 {
        ranges.push((1, n - 2));
    }
    for w in b.windows(2) {
        ranges.push((w[0], w[1]));
    }
    let queries = |h: &mut Vec<Act>| {
        for &l in &pos {
            for &r in &pos {
                if l <= r {
                    match mode {
                        Mode::C01 => h.push(Act::Ask(l as u16, r as u16)),
                        Mode::C02 => {}
                    }
                }
            }
            if mode == Mode::C02 {
                for p in [Pred::LenGe(0), Pred::LenGe(1), Pred::LenGe(2), Pred::LenGe((n - l) as u16), Pred::LenGe((n - l) as u16 + 1), Pred::LastMod(1)] {
                    h.push(Act::Lb(l as u16, p.clone()));
                }
                for p in [Pred::LenGe(0), Pred::LenGe(1), Pred::LenGe(2), Pred::LenGe(l as u16 + 1), Pred::LenGe(l as u16 + 2), Pred::LastMod(1)] {
                    h.push(Act::LbRev(l as u16, p));
                }
            }
        }
    };
    for (k, &(l, r)) in ranges.iter().enumerate() {
        h.push(Act::Modify(l as u16, r as u16, (k % 2) as u8));
        if k % 3 == 1 {
            h.push(Act::Ask(l as u16, r as u16));
        }
    }
    queries(&mut h);
    for &i in [0, mid, last].iter() {
        h.push(Act::Set(i as u16, 0));
    }
    h.push(Act::Modify(0, last as u16, 1));
    h.push(Act::Modify(mid as u16, last as u16, 0));
    queries(&mut h);
    h
}

fn size_sweep<A: Alg>(mode: Mode, quick: bool) -> Sweep {
    use rayon::prelude::*;
    let mut sizes: Vec<usize> = if quick { (1..=40).collect() } else { (1..=130).collect() };
    sizes.extend([47, 48, 49, 63, 64, 65, 96, 127, 128, 129, 255, 256, 257, 511, 512, 513, 1000, 1023, 1024, 1025]);
    if !quick {
        sizes.extend([2047, 2048, 2049, 4095, 4096, 4097]);
    }
    sizes.sort();
    sizes.dedup();
    let jobs: Vec<(usize, u8)> = sizes.iter().flat_map(|&n| (0..3u8).map(move |c| (n, c))).collect();
    let res: Vec<(usize, u64, Option<(Vec<Value>, String)>)> = jobs
        .par_iter()
        .map(|&(n, c)| {
            let h = sweep_history(n, c, mode);
            let vals: Vec<Value> = h.iter().map(|a| serde_json::to_value(a).unwrap()).collect();
            let sys = Sys::<A>::new(n, mode, true);
            match replay_history(&sys, &vals) {
                Ok(()) => (n, h.len() as u64, None),
                Err(m) => {
                    // shortest failing prefix
                    let mut hi = vals.len();
                    let mut lo = 1;
                    while lo < hi {
                        let midp = (lo + hi) / 2;
                        if replay_history(&sys, &vals[..midp]).is_err() {
                            hi = midp;
                        } else {
                            lo = midp + 1;
                        }
                    }
                    (n, h.len() as u64, Some((vals[..hi].to_vec(), m)))
                }
            }
        })
        .collect();
    let mut sw = Sweep { sizes, histories: res.len() as u64, actions: 0, fail: None };
    for (n, k, f) in res {
        sw.actions += k;
        if let (Some((h, m)), true) = (f, sw.fail.is_none()) {
            sw.fail = Some((n, h, m));
        }
    }
    sw
}

// ------------------------------------------------------------------------------------------------
// Part I: the SAME query around ONE intervening update, at sizes up to ~1100 (directed, exhaustive over its menu).

struct Requery {
    sizes: Vec<usize>,
    query_ranges: u64,
    histories: u64,
    actions: u64,
    repeated_asks: u64,
    searches: u64,
    /// histories per relation of the updated range to the queried range
    relations: std::collections::BTreeMap<String, u64>,
    fail: Option<(usize, Vec<Value>, String)>,
}

fn requery_sizes(quick: bool) -> Vec<usize> {
    let mut v = vec![33, 100, 257, 300, 513, 600, 1000, 1025, 1100];
    if !quick {
        v.extend([2049, 3000, 4100]);
    }
    v
}

/// widths 1, 2, n/4, 255..258, n/2, n-2, n-1, n; left-aligned, one off the left end, centred, one off the right end, right-aligned
fn requery_ranges(n: usize) -> Vec<(usize, usize)> {
    let mut v = vec![];
    for w in [1, 2, n / 4, 255, 256, 257, 258, n / 2, n.saturating_sub(2), n - 1, n] {
        if w >= 1 && w <= n {
            for l in [0, 1, (n - w) / 2, (n - w).saturating_sub(1), n - w] {
                if l + w <= n {
                    v.push((l, l + w - 1));
                }
            }
        }
    }
    v.sort();
    v.dedup();
    v
}

fn relation(lo: usize, hi: usize, l: usize, r: usize) -> &'static str {
    if lo < l && hi > r {
        "strictly_contains"
    } else if lo == l && hi == r {
        "equal"
    } else if lo <= l && hi >= r {
        "contains_sharing_an_end"
    } else if hi < l {
        if hi + 1 == l { "adjacent_left" } else { "disjoint_left" }
    } else if lo > r {
        if lo == r + 1 { "adjacent_right" } else { "disjoint_right" }
    } else if lo >= l && hi <= r {
        if lo == l || hi == r { "inside_touching_an_end" } else { "strictly_inside" }
    } else if lo < l {
        "overlaps_left"
    } else {
        "overlaps_right"
    }
}

/// every relation of one updated range (modify) or position (set) to the queried [l, r]: (is_set, lo, hi)
fn requery_ops(n: usize, l: usize, r: usize) -> Vec<(bool, usize, usize)> {
    let (l, r, n1, mid) = (l as i64, r as i64, n as i64 - 1, (l + r) as i64 / 2);
    let mut v: Vec<(bool, i64, i64)> = vec![];
    for (lo, hi) in [(l - 1, r + 1), (0, n1), (l - 1, r), (l, r + 1), (0, r), (l, n1), (l, r), (l + 1, r - 1), (l, l), (r, r), (mid, mid), (l, mid), (mid, r), (l - 1, l), (0, mid), (r, r + 1), (mid, n1), (l - 1, l - 1), (r + 1, r + 1), (0, l - 1), (r + 1, n1), (0, 0), (n1, n1)] {
        v.push((false, lo, hi));
    }
    for i in [l - 1, l, l + 1, mid, r - 1, r, r + 1, 0, n1] {
        v.push((true, i, i));
    }
    let mut out: Vec<(bool, usize, usize)> = vec![];
    for (s, lo, hi) in v {
        if 0 <= lo && lo <= hi && hi <= n1 && !out.contains(&(s, lo as usize, hi as usize)) {
            out.push((s, lo as usize, hi as usize));
        }
    }
    out
}

/// Histories `constructor, modify(n/3, 2n/3) [stays pending], ask(l,r), searches from l and r, ONE update, ask(l,r)
/// again, a different ask, ask(l,r) a third time, the searches again` for every (n, [l,r], update) of the menus.
/// The searches use the first and the last predicate of the algebra's family that is inside the domain on the
/// array at that moment; where the reference of a search is quadratic (no cheap `holds_on`) they are left out
/// above n = 300.
fn requery<A: Alg>(mode: Mode, quick: bool, cheap_search_reference: bool) -> Requery {
    use rayon::prelude::*;
    let sizes = requery_sizes(quick);
    let jobs: Vec<(usize, usize, usize)> = sizes.iter().flat_map(|&n| requery_ranges(n).into_iter().map(move |(l, r)| (n, l, r))).collect();
    struct Out {
        histories: u64,
        actions: u64,
        asks: u64,
        searches: u64,
        rel: Vec<&'static str>,
        fail: Option<(usize, Vec<Value>, String)>,
    }
    let res: Vec<Out> = jobs
        .par_iter()
        .enumerate()
        .map(|(j, &(n, l, r))| {
            let sys = Sys::<A>::new(n, mode, true);
            let mut out = Out { histories: 0, actions: 0, asks: 0, searches: 0, rel: vec![], fail: None };
            let letters: Vec<u8> = (0..n).map(|i| (i % A::n_elems()) as u8).collect();
            let nm = A::mods().len();
            let with_searches = cheap_search_reference || n <= 300;
            let other = if r > l { (l + 1, r) } else if r + 1 < n { (l, r + 1) } else { (l - 1, r) };
            for (k, (is_set, lo, hi)) in requery_ops(n, l, r).into_iter().enumerate() {
                let ctor = match (j + k) % 3 {
                    0 => Act::FromSlice(letters.clone()),
                    1 => Act::FromIter(letters.clone()),
                    _ if A::fillable() => Act::New(0),
                    _ => Act::FromIter(letters.clone()),
                };
                let update = if is_set { Act::Set(lo as u16, ((lo + 1) % A::n_elems()) as u8) } else { Act::Modify(lo as u16, hi as u16, 0) };
                let plan = [Some(Act::Modify((n / 3) as u16, (2 * n / 3) as u16, (1 % nm) as u8)), Some(Act::Ask(l as u16, r as u16)), None, Some(update), Some(Act::Ask(l as u16, r as u16)), Some(Act::Ask(other.0 as u16, other.1 as u16)), Some(Act::Ask(l as u16, r as u16)), None];
                let mut hist = vec![serde_json::to_value(&ctor).unwrap()];
                out.histories += 1;
                out.rel.push(relation(lo, hi, l, r));
                let mut st = match catch(|| sys.init(&ctor)) {
                    Ok(Ok(s)) => s,
                    Ok(Err(m)) | Err(m) => {
                        out.fail = Some((n, hist, format!("constructor: {m}")));
                        return out;
                    }
                };
                for step in plan {
                    let acts: Vec<Act> = match step {
                        Some(a) => vec![a],
                        None if !with_searches => vec![],
                        None => {
                            // searches from both ends of the queried range, towards and away from it
                            let ps: Vec<Pred> = A::preds(n);
                            let mut v = vec![];
                            for (pos, fwd) in [(l, true), (r, false), (r, true), (l, false)] {
                                let ok: Vec<&Pred> = ps.iter().filter(|p| A::pred_ok_at(p, &st.model, pos, fwd)).collect();
                                for p in ok.first().into_iter().chain(ok.last().filter(|_| ok.len() > 1)) {
                                    v.push(if fwd { Act::Lb(pos as u16, (*p).clone()) } else { Act::LbRev(pos as u16, (*p).clone()) });
                                }
                            }
                            v
                        }
                    };
                    for a in acts {
                        if let Act::Modify(lo, hi, m) = &a {
                            let md = A::modifier(*m as usize, *lo as usize);
                            if A::HAS_DOMAIN && !st.model[*lo as usize..=*hi as usize].iter().all(|e| A::mod_ok(e, &md)) {
                                continue;
                            }
                        }
                        hist.push(serde_json::to_value(&a).unwrap());
                        out.actions += 1;
                        match a {
                            Act::Ask(..) => out.asks += 1,
                            Act::Lb(..) | Act::LbRev(..) => out.searches += 1,
                            _ => {}
                        }
                        let bad = match catch(|| sys.step(&mut st, &a)) {
                            Ok(Ok(_)) => None,
                            Ok(Err(m)) => Some(m),
                            Err(p) => Some(format!("panic: {p}")),
                        };
                        if let Some(m) = bad {
                            // the message of the plain re-execution (which also checks every single element after each action)
                            let m = replay_history(&sys, &hist).err().unwrap_or(m);
                            out.fail = Some((n, hist, m));
                            return out;
                        }
                    }
                }
            }
            out
        })
        .collect();
    let mut rq = Requery { sizes, query_ranges: jobs.len() as u64, histories: 0, actions: 0, repeated_asks: 0, searches: 0, relations: Default::default(), fail: None };
    for o in res {
        rq.histories += o.histories;
        rq.actions += o.actions;
        rq.repeated_asks += o.asks;
        rq.searches += o.searches;
        for x in o.rel {
            *rq.relations.entry(x.to_string()).or_insert(0) += 1;
        }
        if rq.fail.is_none() {
            rq.fail = o.fail;
        }
    }
    rq
}

struct Large {
    sizes: Vec<usize>,
    /// (item, n, constructor, what happened)
    runs: Vec<(&'static str, usize, &'static str, big::BigOut)>,
    wall: f64,
}

/// Part H: one directed history per (item, n, constructor) on large trees, side by side
fn large_part(mode: Mode, quick: bool) -> Large {
    use rayon::prelude::*;
    let t0 = std::time::Instant::now();
    let sizes = big::sizes(quick);
    let mut jobs: Vec<(&'static str, usize, usize)> = vec![];
    for item in big::ITEMS {
        for &n in &sizes {
            jobs.extend((0..big::CTORS.len()).map(|c| (item, n, c)));
        }
    }
    let runs = jobs.into_par_iter().map(|(item, n, c)| (item, n, big::CTORS[c], big::run_named(item, n, c, mode == Mode::C02).unwrap())).collect();
    Large { sizes, runs, wall: t0.elapsed().as_secs_f64() }
}

fn confirm_mode(mode: Mode) -> impl Fn(&Value) -> Result<(), String> {
    move |v: &Value| {
        if v["kind"] == "from" {
            return check_from();
        }
        if v["kind"] == "large" {
            let ctor = big::CTORS.iter().position(|c| v["constructor"] == *c).unwrap_or(usize::MAX);
            return match big::run_named(v["item"].as_str().unwrap_or(""), v["n"].as_u64().unwrap_or(0) as usize, ctor, mode == Mode::C02) {
                Some(out) => out.fail.map_or(Ok(()), |(call, msg)| Err(format!("{call}: {msg}"))),
                None => {
                    eprintln!("replay: not a large-tree case: {v}");
                    std::process::exit(2)
                }
            };
        }
        let hist: Vec<Value> = v["history"].as_array().unwrap().clone();
        replay_part(v["algebra"].as_str().unwrap(), v["n"].as_u64().unwrap() as usize, mode, &hist)
    }
}

/// `From<T>` of the pair combinator must initialise both components like their own `From`.
fn check_from() -> Result<(), String> {
    for v in [-3i64, 0, 7] {
        let c: Combinator<MinAdd<i64>, MaxAdd<i64>> = Combinator::from(v);
        if c.0.v != v || c.1.v != v || c.0.md != 0 || c.1.md != 0 {
            return Err(format!("Combinator::<MinAdd,MaxAdd>::from({v}) = {:?}", c));
        }
        let c: Combinator<Combinator<MinAdd<i64>, MaxAdd<i64>>, SumAdd<i64>> = Combinator::from(v);
        if (c.0).0.v != v || (c.0).1.v != v || c.1.v != v || c.1.len != 1 || c.1.md != 0 {
            return Err(format!("Combinator::<Combinator<MinAdd,MaxAdd>,SumAdd>::from({v}) = {:?}", c));
        }
    }
    Ok(())
}

fn main() {
    let args = Args::parse();
    quiet_panics();
    let mode = match args.prop.as_str() {
        "C01" => Mode::C01,
        "C02" => Mode::C02,
        _ => {
            eprintln!("eng_seg serves C01 and C02");
            std::process::exit(2)
        }
    };
    let confirm = confirm_mode(mode);
    if args.replay.is_some() {
        Run::replay_main(&args, &confirm);
    }
    let mut run = Run::new(&args, "seg", "model_checking");
    let quick = args.tier == Tier::Quick;
    let wall = if quick { 40.0 } else { 900.0 };
    // Every part is an independent exploration.  The quick tier runs them side by side (rayon; the explorer of
    // each part is parallel as well, so idle threads help with the large parts); the thorough tier runs the
    // large parts one after the other, because several of them need most of the machine's memory.
    let mut jobs = Jobs { mode, wall, v: vec![] };

    // Part A: closure over W for every n (all three constructor families as initial states)
    let max_w = if quick { 6 } else { 7 };
    for n in 1..=max_w {
        jobs.add::<AlgW>("W", n, None);
    }
    // second closing algebra
    let max_a3 = if quick { 3 } else { 4 };
    for n in 1..=max_a3 {
        jobs.add::<AlgA3>("A3", n, None);
    }
    // Part B: free algebra, bounded depth
    let fr: &[(usize, usize)] = if quick { &[(1, 4), (2, 4), (3, 4), (4, 3), (5, 3), (6, 3), (7, 2), (8, 2), (9, 2)] } else { &[(1, 5), (2, 5), (3, 5), (4, 4), (5, 4), (6, 4), (7, 3), (8, 3), (9, 3)] };
    for &(n, d) in fr {
        jobs.add::<AlgFr>("Fr", n, Some(d));
    }
    // Part C: built-in items
    let cn = if quick { 4 } else { 5 };
    for n in 1..=cn {
        jobs.add::<AlgSumZ3>("Sum<Z3>", n, None);
        jobs.add::<AlgMinU8>("Min<u8>", n, None);
        jobs.add::<AlgMaxU8>("Max<u8>", n, None);
    }
    for n in 1..=(if quick { 3 } else { 4 }) {
        jobs.add::<AlgSumAddZ4>("SumAdd<Z4>", n, None);
    }
    // Part C3: the lazy sum over scalar types in which small integers WRAP.  `SumAdd<T>` counts the elements of a
    // node in T, so over Z/m an inner node of length = 1 (mod m) has the `len` of a leaf and one of length = 0
    // (mod m) the `len` of the empty aggregate.  For every modulus the sizes are those whose trees contain
    // inner nodes with these lengths (m = 2: lengths 2, 3, 4; m = 3: 3, 4, 6, 7; m = 4: 4, 5; m = 5: 5, 6; m = 7: 7,
    // 8): closure where it is small, all histories up to a depth above.  Sums in Z/m are not ordered, so
    // there is no monotone predicate to search with: C01 only.
    if mode == Mode::C01 {
        let zs: &[(u16, usize, Option<usize>)] = if quick {
            &[(2, 1, None), (2, 2, None), (2, 3, None), (2, 4, None), (3, 3, None), (3, 4, Some(3)), (3, 6, Some(2)), (3, 7, Some(2)), (4, 4, Some(3)), (4, 5, Some(2)), (5, 5, Some(2)), (5, 6, Some(2)), (7, 7, Some(2)), (7, 8, Some(2))]
        } else {
            &[(2, 1, None), (2, 2, None), (2, 3, None), (2, 4, None), (2, 5, None), (3, 3, None), (3, 4, None), (3, 6, Some(3)), (3, 7, Some(2)), (4, 5, Some(3)), (5, 5, Some(3)), (5, 6, Some(3)), (7, 7, Some(2)), (7, 8, Some(2))]
        };
        for &(m, n, d) in zs {
            // (from n = 6 on the initial states are `from_iter` of every vector only)
            match m {
                2 => jobs.add_with::<AlgSumAddZ2>("SumAdd<Z2>", n, d, n < 6),
                3 => jobs.add_with::<AlgSumAddZ3>("SumAdd<Z3>", n, d, n < 6),
                4 => jobs.add_with::<AlgSumAddZ4>("SumAdd<Z4>", n, d, n < 6),
                5 => jobs.add_with::<AlgSumAddZ5>("SumAdd<Z5>", n, d, n < 6),
                _ => jobs.add_with::<AlgSumAddZ7>("SumAdd<Z7>", n, d, n < 6),
            }
        }
    }
    let bi: &[(usize, usize)] = if quick { &[(1, 4), (2, 4), (3, 3), (4, 2), (5, 1)] } else { &[(1, 5), (2, 5), (3, 4), (4, 3), (5, 2), (6, 2)] };
    for &(n, bd) in bi {
        jobs.add::<AlgMinAdd>("MinAdd<i64>", n, Some(bd));
        jobs.add::<AlgMaxAdd>("MaxAdd<i64>", n, Some(bd));
        jobs.add::<AlgSumAdd>("SumAdd<i64>", n, Some(bd));
        jobs.add::<Comb<AlgMinAdd, AlgMaxAdd>>("Comb<MinAdd,MaxAdd>", n, Some(bd));
        jobs.add::<Comb<Comb<AlgMinAdd, AlgMaxAdd>, AlgSumAdd>>("Comb<Comb<MinAdd,MaxAdd>,SumAdd>", n, Some(bd));
    }
    for n in 1..=(if quick { 3 } else { 4 }) {
        jobs.add::<Comb<AlgSumZ3, Comb<AlgMinU8, AlgMaxU8>>>("Comb<Sum<Z3>,Comb<Min,Max>>", n, None);
    }

    // Part C2: a lazy item with a data-less modifier (M = (), and M = a zero-sized struct), a Combinator of two
    // NON-commutative parts, elements at the extreme values of the type, records compared by key only
    for n in 1..=(if quick { 5 } else { 6 }) {
        jobs.add::<AlgFlip>("Flip", n, None);
        jobs.add::<AlgFlipZ>("FlipZ", n, None);
    }
    for n in 1..=(if quick { 4 } else { 5 }) {
        jobs.add::<Comb<AlgW, AlgW>>("Comb<W,W>", n, None);
    }
    // a lazy item whose push treats the two children differently (arithmetic progression)
    let ap: &[(usize, Option<usize>)] = if quick { &[(1, None), (2, None), (3, Some(4)), (4, Some(3)), (5, Some(2))] } else { &[(1, None), (2, None), (3, None), (4, Some(4)), (5, Some(3)), (6, Some(3))] };
    for &(n, d) in ap {
        jobs.add::<AlgAp>("AP", n, d);
    }
    for n in 1..=(if quick { 3 } else { 4 }) {
        jobs.add::<Comb<AlgFlip, Comb<AlgFlip, AlgFlip>>>("Comb<Flip,Comb<Flip,Flip>>", n, None);
    }
    let ext: &[(usize, usize)] = if quick { &[(1, 3), (2, 3), (3, 3), (4, 2)] } else { &[(1, 4), (2, 4), (3, 4), (4, 3), (5, 3)] };
    for &(n, d) in ext {
        jobs.add::<AlgMinAddExt>("MinAdd@MAX", n, Some(d));
        jobs.add::<AlgMaxAddExt>("MaxAdd@MIN", n, Some(d));
        // the opposite limits and limit-sized modifiers: up to n = 4 in both tiers (the thorough tier is long as it is)
        if n <= 4 {
            jobs.add::<AlgMinAddLow>("MinAdd@MIN", n, Some(d));
            jobs.add::<AlgMaxAddHigh>("MaxAdd@MAX", n, Some(d));
            jobs.add::<AlgMinAddStep>("MinAdd+=MAX", n, Some(d));
            jobs.add::<AlgMaxAddStep>("MaxAdd+=MIN", n, Some(d));
        }
        jobs.add::<AlgMinRec>("Min<Rec>", n, Some(d));
        jobs.add::<AlgMaxRec>("Max<Rec>", n, Some(d));
    }

    // Part D: constructors and point assignments fed with elements that carry a stale pending modifier
    // (an element read back from another tree after a range modification), bounded depth
    let dn: &[(usize, usize)] = if quick { &[(1, 3), (2, 3), (3, 3), (4, 2)] } else { &[(1, 4), (2, 4), (3, 4), (4, 3), (5, 2), (6, 2)] };
    for &(n, d) in dn {
        jobs.add::<AlgW>("W+stale-tags", n, Some(d));
        jobs.add::<AlgA3>("A3+stale-tags", n, Some(d));
        jobs.add::<AlgFr>("Fr+stale-tags", n, Some(d));
        jobs.add::<AlgFlip>("Flip+stale-tags", n, Some(d));
        jobs.add::<AlgFlipZ>("FlipZ+stale-tags", n, Some(d));
        jobs.add::<AlgAp>("AP+stale-tags", n, Some(d));
        jobs.add::<AlgSumAddZ4>("SumAdd<Z4>+stale-tags", n, Some(d));
        jobs.add::<AlgMinAdd>("MinAdd<i64>+stale-tags", n, Some(d));
        jobs.add::<AlgMaxAdd>("MaxAdd<i64>+stale-tags", n, Some(d));
        jobs.add::<AlgSumAdd>("SumAdd<i64>+stale-tags", n, Some(d));
        jobs.add::<Comb<AlgMinAdd, AlgMaxAdd>>("Comb<MinAdd,MaxAdd>+stale-tags", n, Some(d));
        jobs.add::<Comb<Comb<AlgMinAdd, AlgMaxAdd>, AlgSumAdd>>("Comb<Comb<MinAdd,MaxAdd>,SumAdd>+stale-tags", n, Some(d));
    }

    // Part G (C02): searches ABORTED by a panic of the user's predicate at its 1st, 2nd or 3rd evaluation, which
    // the harness catches as a caller may.  Nothing is demanded of the aborted call itself, but it is not a
    // modification: the logical array must be what it was, and every LATER search and query is an ordinary
    // one and judged as such.  Only the predicate panics (a panic inside an item's merge / push may leave any
    // tree half updated).  Bounded depth, initial states `from_iter` of every vector; a state reached through an aborted search is kept apart from the
    // same node array reached without one.
    if mode == Mode::C02 {
        let gn: &[(usize, usize)] = if quick { &[(1, 3), (2, 3), (3, 2), (4, 2)] } else { &[(1, 4), (2, 4), (3, 3), (4, 3), (5, 2)] };
        for &(n, d) in gn {
            jobs.add_with::<AlgW>("W+aborted-searches", n, Some(d), false);
            jobs.add_with::<AlgFr>("Fr+aborted-searches", n, Some(d), false);
            jobs.add_with::<AlgSumAdd>("SumAdd<i64>+aborted-searches", n, Some(d), false);
        }
    }
    let n_main = jobs.v.len();

    // Part F: Combinator<built-in, harness item> and Combinator<harness item, built-in> with independent parts
    jobs.v.extend(pair_parts(mode, quick, wall));
    let run_parts = move || {
        use rayon::prelude::*;
        let t_parts = std::time::Instant::now();
        let parts: Vec<Part> = if quick {
            jobs.v.into_par_iter().map(|j| j()).collect()
        } else {
            let pairs = jobs.v.split_off(n_main);
            let mut parts: Vec<Part> = jobs.v.into_iter().map(|j| j()).collect();
            parts.extend(pairs.into_par_iter().map(|j| j()).collect::<Vec<Part>>());
            parts
        };
        (parts, t_parts.elapsed().as_secs_f64())
    };
    let run_directed = || {
        // Part E: size sweep — directed histories on the free algebra for many sizes (every n up to 40/130,
        // and the neighbours of powers of two up to 1025/4097), all three constructors, boundary-targeted
        // modifications, then ALL (l, r) queries (n <= 40) or all pairs of boundary positions; C01 also on the
        // crate's lazy sum over a byte that wraps (inner nodes of 256 and 257 elements)
        let mut sweeps = vec![("Fr", size_sweep::<AlgFr>(mode, quick))];
        if mode == Mode::C01 {
            sweeps.push(("SumAdd<Z256>", size_sweep::<AlgSumAddZ256>(mode, quick)));
        }
        // Part H: large trees (n around 2^19, 10^6, 2^20), see big.rs
        let large = large_part(mode, quick);
        // Part I: the same query around one intervening update, sizes 33 .. 1100 (4100)
        let t0 = std::time::Instant::now();
        let requeries = vec![("SumAdd<i64>", requery::<AlgSumAdd>(mode, quick, false)), ("MinAdd<i64>", requery::<AlgMinAdd>(mode, quick, false)), ("Fr", requery::<AlgFr>(mode, quick, true))];
        (sweeps, (large, requeries, t0.elapsed().as_secs_f64()))
    };
    let ((parts, parts_wall), (sweeps, (large, requeries, requery_wall))) = if quick { rayon::join(run_parts, run_directed) } else { (run_parts(), run_directed()) };

    // What `M::default()` is in every explored algebra (a fact about the harness, not about /repo): it must be
    // a modifier the exploration applies, and the identity only where the modifiers are plain additive
    // numbers or modifying is a no-op.
    let mut default_mods: Vec<Value> = vec![];
    let mut seen: Vec<&str> = vec![];
    for p in &parts {
        let name = split_label(&p.name).0;
        if seen.contains(&name) {
            continue;
        }
        seen.push(name);
        let d = &p.defmod;
        if !d.in_alphabet || d.acts == p.defmod_may_be_identity {
            run.machinery_failure(&format!("algebra {name}: M::default() = {} must be in the explored alphabet (is: {}) and {} (changes an element: {})", d.rendering, d.in_alphabet, if p.defmod_may_be_identity { "the identity" } else { "NOT the identity" }, d.acts));
        }
        default_mods.push(json!({"algebra": name, "default_modifier": d.rendering, "in_alphabet": d.in_alphabet, "is_identity": !d.acts, "modifier_zero_sized": d.zero_sized}));
    }
    if !parts.iter().any(|p| p.name == "FlipZ" && p.defmod.zero_sized && p.defmod.acts) || !parts.iter().any(|p| p.name == "Flip" && p.defmod.zero_sized && p.defmod.acts) {
        run.machinery_failure("no lazy algebra with a zero-sized modifier type");
    }
    // the domain restriction bites exactly where it is meant to
    for p in &parts {
        let step = p.name == "MinAdd+=MAX" || p.name == "MaxAdd+=MIN";
        // (a part that stopped at a violation may not have come to a state where it would have skipped)
        if (!step && p.skipped_out_of_domain > 0) || (step && p.skipped_out_of_domain == 0 && p.res.violation.is_none()) {
            run.machinery_failure(&format!("part {} n={}: {} modifications withheld as out of domain", p.name, p.n, p.skipped_out_of_domain));
        }
    }
    run.cov("default_modifiers", json!({"algebras": default_mods, "non_identity_defaults": parts.iter().filter(|p| p.defmod.acts).count(), "note": "M::default() of each explored algebra: always a letter of the explored alphabet; the identity only for plain additive numbers and for the no-op modifier () of the non-lazy built-ins"}));

    let mut states = 0u64;
    let mut transitions = 0u64;
    let mut table = vec![];
    let mut all_closed = true;
    let mut outcomes = 0u64;
    let mut judged = 0u64;
    let mut aborted = 0u64;
    let mut reported: Vec<String> = vec![];
    for p in &parts {
        states += p.res.states;
        transitions += p.res.transitions;
        outcomes += p.res.distinct_outcomes;
        let judged_kinds: &[&str] = if mode == Mode::C01 { &["ask", "debug"] } else { &["lower_bound", "lower_bound_rev"] };
        judged += judged_kinds.iter().map(|k| p.res.per_kind.get(k).copied().unwrap_or(0)).sum::<u64>();
        aborted += p.aborted_searches;
        if p.depth.is_none() && !p.res.closed {
            all_closed = false;
        }
        if p.res.cap_hit.is_some() && p.depth.is_none() {
            all_closed = false;
        }
        // a depth-bounded part that was stopped by a state or wall cap did not cover its depth
        if p.res.cap_hit.as_deref().map_or(false, |c| !c.starts_with("depth bound")) {
            all_closed = false;
        }
        table.push(json!({"algebra": p.name, "n": p.n, "depth_bound": p.depth, "wall_s": (p.wall * 100.0).round() / 100.0, "skipped_out_of_domain": p.skipped_out_of_domain, "result": p.res.to_json()}));
        // one report per algebra: the smallest n that fails (parts are ordered by n within an algebra)
        if let Some(f) = p.res.violation.as_ref().filter(|_| !reported.contains(&p.name)) {
            reported.push(p.name.clone());
            let sig = format!("{}:n={}:{}", p.name, p.n, serde_json::to_string(&f.history).unwrap());
            run.violation(Violation::new(sig, format!("[{} n={}] {}", p.name, p.n, f.message), json!({"kind": "history", "algebra": p.name, "n": p.n, "history": f.history})));
        }
    }
    let mut sweep_cov = vec![];
    for (label, sweep) in sweeps {
        sweep_cov.push(json!({"algebra": label, "sizes": sweep.sizes, "histories": sweep.histories, "actions_executed": sweep.actions}));
        if let Some((n, hist, msg)) = sweep.fail {
            let sig = format!("sweep:{label}:n={}:{}", n, serde_json::to_string(&hist.iter().rev().take(6).rev().collect::<Vec<_>>()).unwrap());
            run.violation(Violation::new(sig, format!("[size sweep, {label}, n={n}, history of {} actions] {msg}", hist.len()), json!({"kind": "history", "algebra": label, "n": n, "history": hist})));
        }
    }
    run.cov("size_sweep", json!({"sweeps": sweep_cov, "note": "NOT a closure: directed histories per size (3 constructors x boundary-targeted modifies x all or boundary (l,r) queries / searches) on the free algebra Fr and (C01) on the crate's SumAdd over a byte that wraps, whose trees contain inner nodes of 256 and 257 elements"}));
    let mut rq_cov = vec![];
    let (mut rq_hist, mut rq_asks, mut rq_searches, mut rq_ranges) = (0u64, 0u64, 0u64, 0u64);
    let rq_sizes = requeries[0].1.sizes.clone();
    for (label, rq) in requeries {
        rq_hist += rq.histories;
        rq_asks += rq.repeated_asks;
        rq_searches += rq.searches;
        rq_ranges = rq.query_ranges;
        if !run.has_violations() && (rq.relations.len() < 11 || rq.relations.values().any(|c| *c == 0) || rq.repeated_asks < 3 * rq.histories) {
            run.machinery_failure("requery family: a relation of the updated range to the queried range is missing");
        }
        rq_cov.push(json!({"algebra": label, "query_ranges": rq.query_ranges, "histories": rq.histories, "actions_executed": rq.actions, "asks": rq.repeated_asks, "searches": rq.searches, "histories_per_relation": rq.relations}));
        if let Some((n, hist, msg)) = rq.fail {
            let sig = format!("requery:{label}:n={}:{}", n, serde_json::to_string(&hist.iter().rev().take(4).rev().collect::<Vec<_>>()).unwrap());
            run.violation(Violation::new(sig, format!("[same query around one update, {label}, n={n}, history of {} actions] {msg}", hist.len()), json!({"kind": "history", "algebra": label, "n": n, "history": hist})));
        }
    }
    let rq_rule = format!(" requery (directed, exhaustive over its menu, NOT a closure): on SumAdd<i64>, MinAdd<i64> and the non-commutative free algebra Fr, for every n in {:?}, every queried range [l,r] of the widths 1, 2, n/4, 255..258, n/2, n-2, n-1, n placed left-aligned, one off either end, centred and right-aligned ({} ranges per algebra), and every ONE update out of modify(l',r') / set(i) in every relation to [l,r] (strictly containing, equal, containing and sharing an end, strictly inside, inside touching an end, overlapping left / right, adjacent left / right, disjoint left / right): constructor (the three in turn), a modify that stays pending, ask(l,r), both searches from l and from r, the update, ask(l,r) again, a different ask, ask(l,r) a third time, the searches again - {} histories, {} asks, {} searches in all, every call judged against the plain array (C02 judges the searches only); the whole history is the replay record", rq_sizes, rq_ranges, rq_hist, rq_asks, rq_searches);
    run.cov("requery", json!({"families": rq_cov, "sizes": rq_sizes, "wall_s": (requery_wall * 100.0).round() / 100.0, "note": "the same ask repeated around one intervening set / modify in every relation to the queried range; searches on the i64 items only up to n = 300 (their reference is quadratic), on Fr at every size"}));
    // large trees: one report per item, the first failing (n, constructor) in enumeration order
    let mut large_reported: Vec<&str> = vec![];
    let mut large_tot = big::BigOut::default();
    for (item, n, ctor, out) in &large.runs {
        large_tot.calls += out.calls;
        large_tot.judged += out.judged;
        large_tot.predicate_evaluations += out.predicate_evaluations;
        large_tot.none += out.none;
        large_tot.at_start += out.at_start;
        large_tot.at_far_end += out.at_far_end;
        large_tot.inside += out.inside;
        if let Some((call, msg)) = out.fail.as_ref().filter(|_| !large_reported.contains(item)) {
            large_reported.push(item);
            run.violation(Violation::new(format!("large:{item}:n={n}:{ctor}:{call}"), format!("[large tree, {item}, n={n}, built by {ctor}] {call}: {msg}"), json!({"kind": "large", "item": item, "n": n, "constructor": ctor})));
        }
    }
    run.cov("large_trees", json!({"items": big::ITEMS, "sizes": large.sizes, "constructors": big::CTORS, "histories": large.runs.len(), "calls": large_tot.calls, "judged_calls": large_tot.judged, "predicate_evaluations": large_tot.predicate_evaluations, "searches_answered": {"none": large_tot.none, "start_position": large_tot.at_start, "far_end_of_the_array": large_tot.at_far_end, "inside": large_tot.inside}, "wall_s": (large.wall * 100.0).round() / 100.0, "note": "NOT a closure: one directed history per (item, n, constructor): boundary-targeted modifies and sets, then (C01) ask on all pairs of boundary positions or (C02) both searches from the boundary positions with thresholds that put the answer at the start position, inside, at the far end and nowhere; judged against prefix sums of the plain array"}));
    if mode == Mode::C01 {
        if let Err(m) = check_from() {
            run.violation(Violation::new("combinator_from", m, json!({"kind": "from"})));
        }
    }
    for p in parts.iter().filter(|p| p.name == "W" || p.name == "Fr").rev().take(2) {
        for h in p.res.sample_histories.iter().take(2) {
            run.sample(json!({"algebra": p.name, "n": p.n, "history": h}));
        }
    }
    run.cov("states", states);
    run.cov("skipped_out_of_domain", parts.iter().map(|p| p.skipped_out_of_domain).sum::<u64>());
    run.cov("transitions", transitions);
    run.cov("traces_validated_against_impl", transitions);
    run.cov("judged_transitions", judged);
    if mode == Mode::C02 {
        run.cov("searches_aborted_by_the_predicate", aborted);
    }
    run.cov("distinct_outcomes", outcomes);
    run.cov("exhaustive", all_closed && !run.has_violations());
    run.cov("parts", Value::Array(table));
    run.cov("rule", "per (algebra, n): BFS over the real Segtree's node array (hook verif_nodes) + plain-array model; every set/modify/ask (C02: also every lower_bound/lower_bound_rev for every predicate of the family at every position; C01: debug) applied in every reached state; parts without depth_bound run to closure (histories of any length), parts with depth_bound cover all histories up to that depth; all three constructor families are initial states of the closing parts. Parts named Pair<X,Y> are Combinator<X,Y> of one built-in item (MinAdd, MaxAdd, SumAdd, and the non-lazy Min, Max, Sum) and one INDEPENDENT non-commutative harness item (W, A3, the free algebra Fr, Flip), in both positions and one nesting level out; the harness part receives the built-in's modifiers through a fixed translation (i64: +1 -> not / x+1 / letter 1, -1 -> const0 / :=0 / letter 2, +2 -> identity / x+2 / letter 3, 0 -> const1 / :=1 / letter 4; Z4: 1,2,3,0 -> not,const0,identity,const1; (): x+1 on Z3), so modifiers that cancel in the built-in part (+1 then -1, a 0) stay pending in the other part and vice versa; the reference is the pair of the two plain-array models; from_iter of all vectors over two element letters are the initial states. Trait surface: every modifier type is Copy+Debug+Default+Eq+Ord+Hash and every harness item / value type implements the std traits its fields allow, so the engine keeps compiling when the crate tightens a bound; these impls are adversarial, not convenient: T::default() is the merge identity and == is exact, but M::default() is an ordinary NON-identity letter of the explored alphabet wherever the modifiers are not plain additive numbers (W: const0, A3: :=0, Fr: letter 0, AP: the progression (2,3) from index 0, Flip with M = () and FlipZ with M = a zero-sized struct: the complement; Pair/Comb: the shared modifier's default, translated to a non-identity of the harness part), see default_modifiers; the additive alphabets (i64, Z4) contain 0 = default next to +1 and -1. Value sentinels: the i64 elements 0, 1, -2 pass through 0, 1, -1 under the modifiers; MinAdd@MAX / MinAdd@MIN / MaxAdd@MIN / MaxAdd@MAX hold elements equal to both limits of i64 (one of them is the item's Default) with modifiers that move away from the limit; MinAdd+=MAX / MaxAdd+=MIN apply the modifier i64::MAX / i64::MIN itself to elements on the far side of 0; Min<u8> / Max<u8> hold 0 and 255 next to 1, 2, 3; the search thresholds of the i64 items lie around 0 and around every element letter. Scalars that wrap (C01): SumAdd<T> counts the elements of a node IN T, so it is also run over Z/m, m = 2, 3, 4, 5, 7, at the sizes whose trees contain inner nodes of length = 0 and = 1 (mod m) (closure where small, else all histories up to depth_bound; from n = 6 on only from_iter initial states), and the size sweep runs it over a wrapping byte (inner nodes of 256 and 257 elements). Predicate domain (C02): a predicate is offered to a search from position x in a direction iff it is monotone along the searched side of x, nothing is asked of it on blocks reaching to the other side: W (alone and with stale tags) also gets ANCHORED predicates - 'first element is 1 [and a 0 follows]' for lower_bound, 'last element is 0 [and a 1 precedes]' for lower_bound_rev - and the sum thresholds of SumAdd<i64> are offered over elements of both signs wherever the truth values along the searched side are monotone (e.g. a negative element before l). Parts named +aborted-searches (C02): the alphabet also holds searches whose predicate (always-false, len>=2) panics at its 1st / 2nd / 3rd evaluation, caught by the harness; nothing is demanded of the aborted call, but the array must be unchanged and all later operations are judged as usual; such states are kept apart from equal node arrays reached without an abort. large_trees: see there.".to_string() + &rq_rule);
    run.cov("pair_family", json!({"algebras": PAIRS.iter().map(|p| p.0).collect::<Vec<_>>(), "note": "explored side by side (rayon)"}));
    run.cov("parts_wall_s", json!({"all_parts": (parts_wall * 100.0).round() / 100.0, "note": if quick { "all parts are explored side by side (rayon), so the wall_s of the parts overlap" } else { "the Pair parts are explored side by side (rayon), so their wall_s overlap; the others one after the other" }}));
    run.assume("harness item algebras W, A3, Fr satisfy the monoid-action laws (merge associative with Default as identity, modify distributes over merge, push = apply pending modifiers to both children in order); a node covering one element never records a pending tag (it has no children, so no tree can read it)");
    run.assume("a harness item driven through a translation of another modifier alphabet (Pair parts) is lawful for every translation: the tree never composes modifiers, it only hands each one to the items, and the wrapped item composes and pushes the translated modifiers as before");
    run.assume("integer overflow is outside the domain: a range modification that would take a covered element out of i64 is not offered in that state (skipped_out_of_domain counts them; only MinAdd+=MAX / MaxAdd+=MIN, whose modifier alphabets contain a limit of the type, ever skip), and the alphabets are chosen so that no pending sum of modifiers leaves the type either; SumAdd is not run at the limits of i64 (the sum of two elements would overflow)");
    run.assume("a panic of the USER'S PREDICATE that the caller catches is not a modification: the searches of the crate keep no state outside the node array and every push is complete before the predicate is called, so the tree stays consistent; panics inside an item's merge / push / update are not explored (they may leave any tree half updated)");
    run.assume("large trees and the size sweep are directed histories, not closures: they cover size classes (depth of the tree up to 22, every constructor, boundary positions), not all histories");
    run.assume("state identity = encoded node array (all slots, including those the tree never addresses) + plain-array model");
    // non-vacuity
    if !run.has_violations() {
        let w_last = parts.iter().filter(|p| p.name == "W").last().unwrap();
        if w_last.res.states < 1000 || judged < 10_000 || outcomes < 50 {
            run.machinery_failure("exploration implausibly small");
        }
        if mode == Mode::C02 && (aborted < 1000 || large_tot.none == 0 || large_tot.at_start == 0 || large_tot.at_far_end == 0 || large_tot.inside == 0) {
            run.machinery_failure("aborted-search family or large-tree searches implausibly small");
        }
        if large_tot.judged < 1000 || large.sizes.iter().all(|n| *n <= 1 << 20) {
            run.machinery_failure("large-tree part implausibly small");
        }
        if mode == Mode::C01 && !parts.iter().any(|p| p.name == "SumAdd<Z7>" && p.n == 8 && p.res.transitions > 0) {
            run.machinery_failure("no lazy sum over a wrapping scalar at a size with an inner node of length 1 (mod m)");
        }
        let pair_states: u64 = parts.iter().filter(|p| p.name.starts_with("Pair<")).map(|p| p.res.states).sum();
        if pair_states < 100_000 || parts.iter().any(|p| p.name.starts_with("Pair<") && p.res.transitions == 0) {
            run.machinery_failure("pair family implausibly small");
        }
    }
    run.finish(&confirm)
}
